#!/bin/sh
# Offline setup: nothing is fetched or compiled.  Syntax-check every specification module and run the
# harness self-tests (value parser / projection round trips).
set -e
cd "$(dirname "$0")"
mkdir -p evidence
export PYTHONPATH="$PWD/harness:/repo"
/venv/bin/python -W ignore -m sfverif.selftest
