'''Check context: runs the three legs (M model check, R replay spec->code, V validate code->spec),
collects violations, filters known findings, writes evidence, decides the exit status.'''
import concurrent.futures as cf
import json
import os
import random
import shutil
import sys
import time
import traceback

from . import tlc, tlaval

VERIF = tlc.VERIF
EVID = os.path.join(VERIF, 'evidence')
REPLAY = os.path.join(EVID, 'replay')


def load_findings():
    p = os.path.join(VERIF, 'known_findings.json')
    if not os.path.exists(p):
        return {'known': [], 'fixed': []}
    with open(p) as fh:
        return json.load(fh)


class Ctx:
    def __init__(self, pid, tier, seed):
        self.pid = pid
        self.tier = tier
        self.seed = seed
        self.rng = random.Random(seed)
        self.t0 = time.time()
        self.states = 0
        self.transitions = 0
        self.replayed = 0          # R: TLC-generated cases/behaviours executed on the real code
        self.validated = 0         # V: events recorded from the real code accepted/checked by TLC
        self.samples = []
        self.violations = []       # not-known
        self.known_hit = {}        # finding id -> count
        self.model_runs = []
        self.counters = {}
        self.drift = []
        self.assumptions = []
        self.notes = []
        self.machinery_errors = []
        self.findings = load_findings()
        self.exhaustive = False
        from . import findings as F
        self.classifiers = F.CLASSIFIERS

    # -- bookkeeping ---------------------------------------------------------------------------
    def count(self, key, n=1):
        self.counters[key] = self.counters.get(key, 0) + n

    def sample(self, obj, limit=6):
        if len(self.samples) < limit:
            self.samples.append(obj)

    def note(self, s):
        self.notes.append(s)

    def log(self, *a):
        print('[%s %6.1fs]' % (self.pid, time.time() - self.t0), *a, flush=True)

    # -- violations ----------------------------------------------------------------------------
    def violation(self, leg, what, case=None, expected=None, actual=None, clause=None, extra=None):
        rec = {'property': self.pid, 'leg': leg, 'what': what, 'clause': clause, 'case': case,
               'expected': expected, 'actual': actual}
        if extra:
            rec.update(extra)
        for kf in self.findings.get('known', []):
            if kf['property'] != self.pid:
                continue
            fn = self.classifiers.get(kf['classifier'])
            try:
                if fn is not None and fn(rec, kf.get('params') or {}):
                    self.known_hit.setdefault(kf['id'], [0, kf['what']])[0] += 1
                    return False
            except Exception:
                pass
        self.violations.append(rec)
        return True

    def machinery(self, msg):
        self.machinery_errors.append(msg)
        self.log('MACHINERY ERROR:', msg[:2000])

    # -- M -------------------------------------------------------------------------------------
    def model_check(self, module, cfg, *, dump=False, coverage=True, expect_violation=None, timeout=3000,
                    env=None, workers=None, label=None, simulate=None, depth=None, heap='6g', seed=None):
        '''Run TLC on an MC instance.  A violated invariant is a violation of the property at design level
        unless expect_violation names it (negative controls / as-built instances).'''
        r = tlc.run(module, cfg, dump=dump, coverage=coverage, timeout=timeout, env=env, workers=workers,
                    simulate=simulate, depth=depth, heap=heap, seed=seed if seed is not None else None)
        info = {'module': module, 'cfg': os.path.basename(cfg), 'distinct': r.distinct, 'generated': r.generated,
                'depth': r.depth, 'wall_s': round(r.wall, 1), 'violated': r.violated,
                'coverage': {k: list(v) for k, v in sorted(r.coverage.items())}}
        if label:
            info['label'] = label
        self.model_runs.append(info)
        self.log('M %s/%s: %d distinct, %d generated, depth %d, %.1fs%s' % (
            module, os.path.basename(cfg), r.distinct, r.generated, r.depth, r.wall,
            (' VIOLATED ' + str(r.violated)) if r.violated else ''))
        if r.error:
            self.machinery('TLC failed on %s/%s: %s' % (module, cfg, r.error))
            return r
        if expect_violation is not None:
            if r.violated != expect_violation:
                self.machinery('negative control %s/%s: expected %s to be violated, got %r' % (
                    module, cfg, expect_violation, r.violated))
            return r
        self.states += r.distinct
        self.transitions += r.transitions
        if r.violated:
            self.violation('M', 'TLC: %s violated in %s/%s' % (r.violated, module, os.path.basename(cfg)),
                           clause=r.violated, extra={'tlc_trace': (r.trace_text or '')[:20000]})
        for act, (d, g) in r.coverage.items():
            if g == 0 and not act.startswith('_'):
                self.note('vacuity: action %s of %s/%s never taken' % (act, module, os.path.basename(cfg)))
        return r

    # -- V -------------------------------------------------------------------------------------
    def validate_events(self, module, cfg, events, *, chunk=1500, timeout=3000, jobs=None, on_reject=None, boundary=None):
        '''events: list of json-able dicts, each with a unique integer "id".  The trace spec consumes one
        line per state, prints <<"VERDICT", id, clause>> for every rejected event and <<"DONE", n>> from its
        post-condition.  Returns {id: clause} for rejected events.'''
        if not events:
            return {}
        work = tlc.subdir('trace-' + module)
        if boundary is None:
            chunks = [events[i:i + chunk] for i in range(0, len(events), chunk)]
        else:
            # histories must not be cut: a chunk ends only where the next event starts a new history
            chunks, cur = [], []
            for ev in events:
                if boundary(ev) and len(cur) >= chunk:
                    chunks.append(cur)
                    cur = []
                cur.append(ev)
            if cur:
                chunks.append(cur)
        paths = []
        for ci, ch in enumerate(chunks):
            p = os.path.join(work, 'trace%d.ndjson' % ci)
            with open(p, 'w') as fh:
                for ev in ch:
                    fh.write(json.dumps(ev, separators=(',', ':')) + '\n')
            paths.append(p)
        jobs = jobs or min(len(chunks), max(1, (os.cpu_count() or 4)))
        rejected = {}
        consumed = 0

        def one(p):
            return tlc.run(module, cfg, workers=1, env={'TRACE_FILE': p}, timeout=timeout, coverage=False, heap='3g')
        with cf.ThreadPoolExecutor(max_workers=jobs) as ex:
            results = list(ex.map(one, paths))
        for k, r in enumerate(results):
            if r.error and 'heap space' in str(r.error):
                # a chunk that did not fit next to its neighbours: once more, alone, with a large heap (the failing file is kept for inspection)
                try:
                    os.makedirs(REPLAY, exist_ok=True)
                    if os.path.getsize(paths[k]) < 200 * 2 ** 20:
                        shutil.copy(paths[k], os.path.join(REPLAY, 'heap-%s-%s.ndjson' % (module, self.pid)))
                except Exception:
                    pass
                self.log('V %s: chunk %d ran out of heap (%d bytes of trace); retried alone with 12g' % (module, k, os.path.getsize(paths[k])))
                results[k] = tlc.run(module, cfg, workers=1, env={'TRACE_FILE': paths[k]}, timeout=timeout, coverage=False, heap='12g')
        for ch, r in zip(chunks, results):
            if r.error or r.violated:
                self.machinery('trace validation %s failed: %s' % (module, r.error or ('violated ' + str(r.violated) + '\n' + (r.trace_text or '')[:3000])))
                continue
            done = [v for v in r.printed('DONE')]
            n_done = done[-1][1] if done else 0
            if n_done != len(ch):
                self.machinery('trace validation %s consumed %d of %d events\n%s' % (module, n_done, len(ch), r.stdout[-1500:]))
                continue
            consumed += n_done
            self.states += r.distinct
            self.transitions += r.transitions
            for v in r.printed('VERDICT'):
                rejected[v[1]] = (v[2], v[3] if len(v) > 3 else None)
        self.validated += consumed
        self.log('V %s: %d events in %d chunks, %d rejected' % (module, consumed, len(chunks), len(rejected)))
        return rejected

    # -- finish --------------------------------------------------------------------------------
    def finish(self, rule, explanation=None, level='model_checking', trusted=None):
        os.makedirs(REPLAY, exist_ok=True)
        wall = time.time() - self.t0
        lines = []
        for fid, (n, what) in sorted(self.known_hit.items()):
            lines.append('KNOWN-FINDING: property=%s %s [%s] (%d cases)' % (self.pid, what, fid, n))
        seen = 0
        import glob
        for old in glob.glob(os.path.join(REPLAY, '%s-%s-*.json' % (self.pid, self.tier))):
            try:
                os.remove(old)
            except FileNotFoundError:          # another run of the same check removed it first
                pass
        for i, v in enumerate(self.violations):
            if i >= int(os.environ.get('VERIF_MAX_REPLAYS', '25')):
                break
            p = os.path.join(REPLAY, '%s-%s-%d.json' % (self.pid, self.tier, i))
            with open(p, 'w') as fh:
                json.dump(v, fh, indent=1, default=str)
            lines.append('VIOLATION property=%s replay=%s' % (self.pid, p))
            lines.append('  leg=%s clause=%s what=%s' % (v['leg'], v.get('clause'), str(v['what'])[:300]))
            seen += 1
        if len(self.violations) > seen:
            lines.append('  ... %d more violations not written' % (len(self.violations) - seen))
        cov = {
            'states': self.states,
            'transitions': self.transitions,
            'traces_validated_against_impl': self.replayed + self.validated,
            'replayed_spec_to_code': self.replayed,
            'validated_code_to_spec': self.validated,
            'samples': self.samples or ['(no sample recorded)'],
            'rule': rule,
            'model_runs': self.model_runs,
            'counters': self.counters,
            'exhaustive': bool(self.exhaustive),
            'known_findings_hit': {k: v[0] for k, v in self.known_hit.items()},
            'notes': self.notes,
            'drift': self.drift[:20],
            'trusted_base': trusted or ['TLC 1.8 + CommunityModules', 'NumPy semantics', 'harness projection (sfverif.project)'],
        }
        if explanation:
            cov['explanation'] = explanation
        ev = {'property_id': self.pid, 'tier': self.tier, 'seed': self.seed, 'level': level, 'coverage': cov,
              'assumptions': self.assumptions, 'wall_s': round(wall, 2), 'violations': len(self.violations)}
        os.makedirs(EVID, exist_ok=True)
        with open(os.path.join(EVID, self.pid + '.json'), 'w') as fh:
            json.dump(ev, fh, indent=1, default=str)
        for ln in lines:
            print(ln)
        if self.machinery_errors:
            print('MACHINERY-FAILURE property=%s: %d errors (first: %s)' % (self.pid, len(self.machinery_errors), self.machinery_errors[0][:500]))
            return 2
        if self.violations:
            return 1
        print('OK property=%s tier=%s states=%d replayed=%d validated=%d wall=%.1fs' % (
            self.pid, self.tier, self.states, self.replayed, self.validated, wall))
        return 0


def cases_from_dump(path, var='cs', res='res', pending=('pending',)):
    '''Yield (case, expected) from a dump of an MC instance whose states are <<case, res>>.'''
    for st in tlaval.iter_dump(path):
        r = tlaval.plain(st[res])
        if (isinstance(r, list) and tuple(r) == tuple(pending)) or (isinstance(r, dict) and r.get('k') == 'pending'):
            continue
        yield tlaval.plain(st[var]), r


def generic_replay(mod, rec):
    '''Re-run one recorded violation against the current tree and print both results.'''
    case = rec.get('case') or {}
    cs = case.get('cs', case)
    lay = case.get('layout') if isinstance(case, dict) else None
    if not hasattr(mod, 'run_case'):
        print('no single-case replay for this property; re-run the check')
        return 2
    try:
        act = mod.run_case(cs, lay) if lay is not None else mod.run_case(cs)
    except TypeError:
        act = mod.run_case(cs)
    if hasattr(mod, 'normalise'):
        act = mod.normalise(act)
    print('case     :', json.dumps(cs)[:2000])
    print('expected :', json.dumps(rec.get('expected'))[:2000])
    print('recorded :', json.dumps(rec.get('actual'))[:2000])
    print('now      :', json.dumps(act)[:2000])
    return 0
