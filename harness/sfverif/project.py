'''The projection function: real objects <-> the abstract (TLA+/JSON) state.

Values are tagged tuples (JSON arrays) so that TLC can hold heterogeneous values in one set/sequence
and compare them without type errors, and so that nothing in a trace is a JSON null / float / big int
(TLC's JsonDeserialize rejects null, truncates non-integers and wraps ints >= 2**31).
'''
import datetime
import math
from fractions import Fraction

import numpy as np

import static_frame as sf
from static_frame.core.index_base import IndexBase

INT_MAX = 2 ** 31 - 1

# ---------------------------------------------------------------------------------------------
# values


def enc(v):
    '''Python / NumPy element -> tagged list.'''
    if v is None:
        return ['none']
    if isinstance(v, (bool, np.bool_)):
        return ['b', 1 if v else 0]
    if isinstance(v, np.timedelta64):
        if np.isnat(v):
            return ['nat']
        unit = np.datetime_data(v.dtype)[0]
        t = int(v.astype(np.int64))
        return ['m', unit, t] if abs(t) <= INT_MAX else ['m', unit, str(t)]
    if isinstance(v, (int, np.integer)):
        v = int(v)
        if -INT_MAX <= v <= INT_MAX:
            return ['i', v]
        return ['I', str(v)]
    if isinstance(v, (float, np.floating)):
        v = float(v)
        if math.isnan(v):
            return ['nan']
        if math.isinf(v):
            return ['inf', 1 if v > 0 else -1]
        n, d = v.as_integer_ratio()
        if abs(n) <= INT_MAX and d <= INT_MAX:
            return ['f', n, d]
        return ['F', v.hex()]
    if isinstance(v, (complex, np.complexfloating)):
        v = complex(v)
        return ['c', enc(v.real), enc(v.imag)]
    if isinstance(v, (str, np.str_)):
        return ['s', str(v)]
    if isinstance(v, (bytes, np.bytes_)):
        return ['y', bytes(v).decode('latin1')]
    if isinstance(v, np.datetime64):
        if np.isnat(v):
            return ['nat']
        unit = np.datetime_data(v.dtype)[0]
        t = int(v.astype(np.int64))
        return ['d', unit, t] if abs(t) <= INT_MAX else ['d', unit, str(t)]
    if isinstance(v, np.timedelta64):
        if np.isnat(v):
            return ['nat']
        unit = np.datetime_data(v.dtype)[0]
        t = int(v.astype(np.int64))
        return ['m', unit, t] if abs(t) <= INT_MAX else ['m', unit, str(t)]
    if isinstance(v, datetime.datetime):
        return ['pdt', v.isoformat()]
    if isinstance(v, datetime.timedelta):
        return ['m', 'us', int(v / datetime.timedelta(microseconds=1))] if abs(int(v / datetime.timedelta(microseconds=1))) <= INT_MAX else ['m', 'us', str(int(v / datetime.timedelta(microseconds=1)))]
    if isinstance(v, datetime.date):
        # what a datetime64[D] element becomes in an object array; equal to the datetime64 it came from
        return ['d', 'D', v.toordinal() - 719163]
    if isinstance(v, tuple):
        return ['t', [enc(x) for x in v]]
    if isinstance(v, np.ndarray):
        return ['arr', [enc(x) for x in v.tolist()]] if v.dtype != object else ['arr', [enc(x) for x in v]]
    if isinstance(v, list):
        return ['l', [enc(x) for x in v]]
    if isinstance(v, Fraction):
        return ['q', v.numerator, v.denominator]
    return ['o', type(v).__name__, repr(v)]


def dec(t):
    '''tagged list -> Python element (the value a caller would supply).'''
    k = t[0]
    if k == 'none':
        return None
    if k == 'b':
        return bool(t[1])
    if k == 'i':
        return int(t[1])
    if k == 'I':
        return int(t[1])
    if k == 'nan':
        return float('nan')
    if k == 'inf':
        return float('inf') if t[1] > 0 else float('-inf')
    if k == 'f':
        return t[1] / t[2]
    if k == 'F':
        return float.fromhex(t[1])
    if k == 'c':
        return complex(dec(t[1]), dec(t[2]))
    if k == 's':
        return t[1]
    if k == 'y':
        return t[1].encode('latin1')
    if k == 'nat':
        return np.datetime64('NaT')
    if k == 'd':
        return np.datetime64(int(t[2]), t[1])
    if k == 'm':
        return np.timedelta64(int(t[2]), t[1])
    if k == 'pd':
        return datetime.date.fromisoformat(t[1])
    if k == 'pdt':
        return datetime.datetime.fromisoformat(t[1])
    if k == 't':
        return tuple(dec(x) for x in t[1])
    if k == 'l':
        return [dec(x) for x in t[1]]
    raise ValueError('cannot decode %r' % (t,))


def enc_seq(it):
    return [enc(x) for x in it]


# ---------------------------------------------------------------------------------------------
# dtypes: [kind, size-or-unit]

def enc_dtype(dt):
    dt = np.dtype(dt)
    k = dt.kind
    if k == 'b':
        return ['b', 8]
    if k in 'iufc':
        return [k, dt.itemsize * 8]
    if k == 'U':
        return ['U', dt.itemsize // 4]
    if k == 'S':
        return ['S', dt.itemsize]
    if k in 'Mm':
        return [k, np.datetime_data(dt)[0]]
    if k == 'O':
        return ['O', 0]
    return ['?', str(dt)]


def dec_dtype(t):
    k, s = t
    if k == 'b':
        return np.dtype(bool)
    if k in 'iufc':
        return np.dtype('%s%d' % (k, s // 8))
    if k == 'U':
        return np.dtype('<U%d' % s)
    if k == 'S':
        return np.dtype('S%d' % s)
    if k == 'M':
        return np.dtype('datetime64[%s]' % s) if s != 'generic' else np.dtype('datetime64')
    if k == 'm':
        return np.dtype('timedelta64[%s]' % s) if s != 'generic' else np.dtype('timedelta64')
    if k == 'O':
        return np.dtype(object)
    raise ValueError(t)


def make_array(vals, dt_tok, writeable=False):
    '''Build a 1-D array of the given dtype token from encoded values.'''
    dt = dec_dtype(dt_tok)
    n = len(vals)
    if dt.kind == 'O':
        a = np.empty(n, dtype=object)
        for i, v in enumerate(vals):
            a[i] = dec(v)
    else:
        py = [dec(v) for v in vals]
        a = np.array(py, dtype=dt) if n else np.empty(0, dtype=dt)
    a.flags.writeable = writeable
    return a


def enc_array(a):
    '''1-D array -> list of encoded elements (typed by the array's dtype).'''
    if a.dtype.kind == 'O':
        return [enc(x) for x in a]
    if a.dtype.kind in 'Mm':
        return [enc(x) for x in a]
    return [enc(x) for x in a]  # iteration yields numpy scalars: keeps bool/int/float class


# ---------------------------------------------------------------------------------------------
# indices

def build_index(spec, default_cls=None):
    '''spec: list of encoded labels, or {"cls":..., "labels":[...], "name":...}.  None -> None (auto index).'''
    if spec is None:
        return None
    if isinstance(spec, dict):
        cls_name = spec.get('cls', 'Index')
        labels = spec['labels']
        name = dec(spec['name']) if spec.get('name') is not None else None
    else:
        cls_name, labels, name = None, spec, None
    if cls_name is None:
        if labels and all(l[0] == 't' for l in labels):
            cls_name = 'IndexHierarchy'
        else:
            cls_name = 'Index'
    cls = getattr(sf, cls_name)
    py = [dec(l) for l in labels]
    if cls_name.startswith('IndexHierarchy'):
        return _build_hierarchy(cls, py, name)
    if cls_name in ('IndexAuto',):
        return sf.Index(range(len(py)), loc_is_iloc=True, name=name)
    return cls(py, name=name)


_ROUTE_TICK = [0]


def _build_hierarchy(cls, py, name):
    '''The same tuple labels through rotating construction routes: how a hierarchy was built (from labels, from a product, from
    per-label Index objects that are shared or separate) must never be observable.  Deterministic: a counter picks the route.'''
    _ROUTE_TICK[0] += 1
    tick = _ROUTE_TICK[0]
    if py and all(len(t) == 3 for t in py):
        # depth 3: a full product in product order is, every other time, built by from_product (its level objects are shared);
        # any tree is, every third time, built from a nested mapping
        import itertools
        levels = []
        for d in range(3):
            seen = []
            for t in py:
                if t[d] not in seen:
                    seen.append(t[d])
            levels.append(seen)
        try:
            if list(itertools.product(*levels)) == [tuple(t) for t in py] and tick % 2 == 0:
                return cls.from_product(*levels, name=name)
            if len(set(map(tuple, py))) == len(py) and tick % 3 == 0:
                tree = {}
                for a, b, c in py:
                    tree.setdefault(a, {}).setdefault(b, []).append(c)
                ih = cls.from_tree(tree, name=name)
                if [tuple(x) for x in ih] == [tuple(t) for t in py]:
                    return ih
        except Exception:
            pass
        return cls.from_labels(py, name=name)
    if not py or any(len(t) != 2 for t in py):
        return cls.from_labels(py, name=name)
    outer = []
    for t in py:
        if t[0] not in outer:
            outer.append(t[0])
    inner = {o: [t[1] for t in py if t[0] == o] for o in outer}
    grouped = [t for o in outer for t in py if t[0] == o] == list(py) and len(set(py)) == len(py)
    if not grouped:
        return cls.from_labels(py, name=name)
    product = all(inner[o] == inner[outer[0]] for o in outer)
    routes = ['labels', 'labels', 'items_separate']
    if product:
        routes = ['labels', 'product', 'items_shared', 'product', 'items_separate']
    route = routes[tick % len(routes)]
    try:
        if route == 'product':
            ih = cls.from_product(outer, inner[outer[0]], name=name)
        elif route == 'items_shared':
            shared = sf.Index(inner[outer[0]])
            ih = cls.from_index_items((o, shared) for o in outer).rename(name)
        elif route == 'items_separate':
            ih = cls.from_index_items((o, sf.Index(inner[o])) for o in outer).rename(name)
        else:
            return cls.from_labels(py, name=name)
    except Exception:
        return cls.from_labels(py, name=name)
    return ih


def labels_of(ix):
    '''Labels of an index as encoded values (hierarchical: tuples).'''
    if ix.depth > 1:
        return [enc(tuple(l)) for l in ix]
    return [enc(l) for l in ix.values] if ix.values.dtype.kind != 'O' else [enc(l) for l in ix]


def proj_index(ix):
    return {'cls': type(ix).__name__, 'labels': labels_of(ix), 'name': enc(ix.name), 'depth': ix.depth}


# ---------------------------------------------------------------------------------------------
# containers

def raw_columns(f):
    '''Ground-truth column arrays of a Frame read straight off the blocks.'''
    for b in f._blocks._blocks:
        if b.ndim == 1:
            yield b
        else:
            for j in range(b.shape[1]):
                yield b[:, j]


def layout_of(f):
    return [[1 if b.ndim == 1 else b.shape[1], b.ndim] for b in f._blocks._blocks]


def proj_frame(f, with_layout=False):
    cols = [{'dt': enc_dtype(a.dtype), 'vals': enc_array(a)} for a in raw_columns(f)]
    out = {'index': labels_of(f.index), 'columns': labels_of(f.columns), 'cols': cols, 'name': enc(f.name)}
    if with_layout:
        out['layout'] = layout_of(f)
    return out


def proj_series(s):
    return {'index': labels_of(s.index), 'vals': enc_array(s.values), 'dt': enc_dtype(s.values.dtype), 'name': enc(s.name)}


def proj(obj):
    '''Generic result projection: {"k": kind, ...}.'''
    if isinstance(obj, sf.Frame):
        d = proj_frame(obj)
        d['k'] = 'frame'
        return d
    if isinstance(obj, sf.Series):
        d = proj_series(obj)
        d['k'] = 'series'
        return d
    if isinstance(obj, IndexBase):
        d = proj_index(obj)
        d['k'] = 'index'
        return d
    if isinstance(obj, np.ndarray):
        if obj.ndim == 1:
            return {'k': 'array', 'dt': enc_dtype(obj.dtype), 'vals': enc_array(obj)}
        return {'k': 'array2', 'dt': enc_dtype(obj.dtype), 'rows': [enc_array(r) for r in obj]}
    return {'k': 'elem', 'v': enc(obj)}


ERR_LOOKUP = (KeyError, IndexError)


def err_category(e):
    from static_frame.core import exception as X
    if isinstance(e, (X.ErrorInitIndexNonUnique,)):
        return 'init_nonunique'
    if isinstance(e, X.ErrorInit):
        return 'init'
    if isinstance(e, (KeyError, IndexError)) or type(e).__name__ in ('LocInvalid', 'LocEmpty'):
        return 'lookup'
    if type(e).__name__ == 'StoreFileMutation':
        return 'store_mutation'
    if isinstance(e, TypeError):
        return 'type'
    if isinstance(e, ValueError):
        return 'value'
    if isinstance(e, NotImplementedError):
        return 'notimpl'
    if isinstance(e, RuntimeError):
        return 'runtime'
    return 'other:' + type(e).__name__


def proj_err(e):
    return {'k': 'err', 'cat': err_category(e)}


def compositions(n):
    '''All compositions of n (ordered lists of positive ints).'''
    if n == 0:
        yield []
        return
    for first in range(1, n + 1):
        for rest in compositions(n - first):
            yield [first] + rest


def layouts_for(dts):
    '''All block layouts [[width, ndim], ...] of the columns with dtype tokens dts in which every block is
    dtype-homogeneous; width-1 blocks come both as 1-D and as 2-D.'''
    n = len(dts)
    out = []
    for comp in compositions(n):
        pos = 0
        ok = True
        opts = []
        for w in comp:
            seg = dts[pos:pos + w]
            pos += w
            if any(d != seg[0] for d in seg):
                ok = False
                break
            opts.append([[w, 2]] if w > 1 else [[1, 1], [1, 2]])
        if not ok:
            continue
        def rec(i, acc):
            if i == len(opts):
                out.append(list(acc))
                return
            for o in opts[i]:
                acc.append(o)
                rec(i + 1, acc)
                acc.pop()
        rec(0, [])
    return out


def build_blocks(cols, layout, nrows):
    '''cols: [{"dt":tok,"vals":[...]}]; layout: [[width, ndim]...] -> list of arrays (read-only).'''
    arrays = []
    pos = 0
    for w, nd in layout:
        seg = cols[pos:pos + w]
        pos += w
        if nd == 1:
            assert w == 1
            arrays.append(make_array(seg[0]['vals'], seg[0]['dt']))
        else:
            parts = [make_array(c['vals'], c['dt']) for c in seg]
            dt = parts[0].dtype
            a = np.empty((nrows, w), dtype=dt)
            for j, p in enumerate(parts):
                a[:, j] = p
            a.flags.writeable = False
            arrays.append(a)
    assert pos == len(cols), 'layout does not cover the columns'
    return arrays


def build_frame(af, layout=None, cls=None):
    '''af: abstract frame {"index","columns","cols","name"}; layout None -> one 1-D block per column.'''
    cls = cls or sf.Frame
    nrows = len(af['index']) if af.get('index') is not None else (len(af['cols'][0]['vals']) if af['cols'] else 0)
    cols = af['cols']
    if layout is None:
        layout = [[1, 1]] * len(cols)
    # index_auto / columns_auto: labels are 0..n-1 and the container builds its own auto-integer (map-less) index
    index = None if af.get('index_auto') else build_index(af.get('index'))
    columns = None if af.get('columns_auto') else build_index(af.get('columns'), )
    if cls is sf.FrameGO and columns is not None:
        columns = sf.IndexGO(columns) if columns.depth == 1 else sf.IndexHierarchyGO(columns)
    name = dec(af['name']) if af.get('name') is not None else None
    if not cols:
        return cls(index=index, columns=columns, name=name)
    arrays = build_blocks(cols, layout, nrows)
    # a grow-only Frame is, every other time, GROWN to its final shape: trailing 1-D blocks are appended column by column, so that the
    # container carries the internal state of a grown one (pending index cache, appended blocks) - unobservable by every property
    _ROUTE_TICK[0] += 1
    k = 0
    if cls is sf.FrameGO and columns is not None and columns.depth == 1 and not af.get('columns_auto') and _ROUTE_TICK[0] % 2 == 0:
        # (only columns whose dtype is the dtype of every other block are appended: TypeBlocks.append deliberately turns the row dtype
        #  into object when dtypes differ, where construction in one go resolves them - recorded as C03-grown-row-dtype and probed there)
        kinds = {a.dtype for a in arrays}
        while len(kinds) == 1 and k < len(layout) - 1 and k < 2 and list(layout[len(layout) - 1 - k]) == [1, 1]:
            k += 1
    if k:
        labels = list(columns)
        tb = sf.TypeBlocks.from_blocks(arrays[:len(arrays) - k])
        f = cls(tb, index=index, columns=sf.IndexGO(labels[:len(labels) - k]), name=name, own_data=True)
        for lab, a in zip(labels[len(labels) - k:], arrays[len(arrays) - k:]):
            f[lab] = a
        return f
    tb = sf.TypeBlocks.from_blocks(arrays)
    f = cls(tb, index=index, columns=columns, name=name, own_data=True)
    return f


def build_series(a_s, cls=None):
    cls = cls or sf.Series
    arr = make_array(a_s['vals'], a_s['dt'])
    name = dec(a_s['name']) if a_s.get('name') is not None else None
    return cls(arr, index=None if a_s.get('index_auto') else build_index(a_s.get('index')), name=name)
