'''C05 hierarchical index: tree and table views agree; per-level selection is exact; grow-only histories.'''
import itertools

import json

import numpy as np

import static_frame as sf

from .. import core, project as P, tlaval
from . import common as C

ALPH = [[['s', 'A'], ['s', 'B'], ['s', 'C'], ['s', 'D'], ['s', 'E']], [['i', 1], ['i', 2], ['i', 3]], [['s', 'x'], ['s', 'y']], [['d', 'D', 18000], ['d', 'D', 18001]]]


def rand_rows(rng, depth, n):
    '''a random tree-ordered label set (ragged fan-out, inner labels repeated under different parents)'''
    def build(d, budget):
        if budget <= 0:
            return []
        labs = rng.sample(ALPH[d], rng.randint(1, len(ALPH[d])))
        out = []
        for l in labs:
            if d == depth - 1:
                out.append([l])
            else:
                sub = build(d + 1, max(1, budget // len(labs)))
                out += [[l] + r for r in sub]
        return out
    rows = build(0, n)
    return rows[:max(n, 1)]


def tup(r):
    return tuple(P.dec(x) for x in r)


def build_ih(rows, route, go=False):
    cls = sf.IndexHierarchyGO if go else sf.IndexHierarchy
    labels = [tup(r) for r in rows]
    if route == 'from_labels':
        return cls.from_labels(labels)
    if route == 'from_labels_gen':
        return cls.from_labels(x for x in labels)
    if route == 'from_tree':
        def tree(rs, d):
            if d == len(rows[0]) - 1:
                return tuple(P.dec(r[d]) for r in rs)
            out = {}
            for r in rs:
                out.setdefault(P.dec(r[d]), []).append(r)
            return {k: tree(v, d + 1) for k, v in out.items()}
        return cls.from_tree(tree(rows, 0))
    if route == 'from_index_items':
        groups = {}
        for r in rows:
            groups.setdefault(P.dec(r[0]), []).append(r)
        def sub(rs):
            if len(rows[0]) == 2:
                return sf.Index([P.dec(r[1]) for r in rs])
            return sf.IndexHierarchy.from_labels([tuple(P.dec(x) for x in r[1:]) for r in rs])
        return cls.from_index_items((k, sub(v)) for k, v in groups.items())
    if route == 'set_index_hierarchy':
        f = sf.Frame.from_records(labels, columns=list(range(len(rows[0]))))
        ih = f.set_index_hierarchy(list(range(len(rows[0])))).index
        return cls(ih) if go else ih
    if route == 'copy_ctor':
        return cls(sf.IndexHierarchy.from_labels(labels))
    if route == 'from_go':
        return cls(sf.IndexHierarchyGO.from_labels(labels))
    if route == 'iloc_all':
        return cls.from_labels(labels).iloc[:]
    if route == 'concat_then_select':
        extra = labels + [tuple('Z' if isinstance(x, str) else x for x in labels[-1][:1]) + labels[-1][1:]] if isinstance(labels[-1][0], str) else labels
        ih = sf.IndexHierarchy.from_labels(extra)
        r = ih.iloc[:len(labels)]
        return cls(r) if go else r
    raise ValueError(route)


ROUTES = ['from_labels', 'from_labels_gen', 'from_tree', 'from_index_items', 'set_index_hierarchy', 'copy_ctor', 'from_go', 'iloc_all', 'concat_then_select']


def observe(ih, rows, absent):
    try:
        n = len(rows)
        it = [[P.enc(x) for x in t] for t in ih]
        vals = [[P.enc(x) for x in r] for r in ih.values] if n else []
        return {'k': 'obs', 'iter': it, 'len': len(ih), 'depth': ih.depth, 'values': vals,
                'at_depth': [[P.enc(x) for x in ih.values_at_depth(d)] for d in range(ih.depth)] if n else [],
                'lookup': [int(ih.loc_to_iloc(tup(r))) for r in rows],
                'member': [bool(tup(r) in ih) for r in rows],
                'member_absent': [bool(tup(r) in ih) for r in absent]}
    except Exception as e:
        return {'k': 'err', 'cat': P.err_category(e), 'msg': str(e)[:120]}


def py_sel(sel):
    k = sel[0]
    if k == 'all':
        return slice(None)
    if k == 'loc':
        return P.dec(sel[1])
    if k == 'loclist':
        return [P.dec(x) for x in sel[1]]
    if k == 'locslice':
        return slice(None if sel[1][0] == 'none' else P.dec(sel[1]), None if sel[2][0] == 'none' else P.dec(sel[2]))
    raise ValueError(sel)


def norm_positions(r, n):
    if isinstance(r, slice):
        return list(range(*r.indices(n)))
    if isinstance(r, (int, np.integer)):
        return [int(r)]
    if isinstance(r, np.ndarray) and r.dtype == bool:
        return [int(i) for i in np.flatnonzero(r)]
    return [int(x) for x in r]


def auto_rows(rng):
    '''depth 2, every leaf index is the auto-integer labelling 0..k-1 of its parent (ragged: k differs between parents)'''
    outers = rng.sample(ALPH[0], rng.randint(2, 3))
    return [[o, ['i', k]] for o in outers for k in range(rng.choice([1, 2, 3, 6]))]


def build_auto(rows, route):
    '''the leaves are map-less (loc_is_iloc) Index objects, as Frame.from_concat_items / from_index_items produce them'''
    outers, sizes = [], {}
    for r in rows:
        o = P.dec(r[0])
        if o not in outers:
            outers.append(o)
        sizes[o] = sizes.get(o, 0) + 1
    if route == 'auto_index_items':
        return sf.IndexHierarchy.from_index_items((o, sf.Index(range(sizes[o]), loc_is_iloc=True)) for o in outers)
    return sf.Frame.from_concat_items((o, sf.Frame(np.zeros((sizes[o], 1)), columns=('p',))) for o in outers).index


def auto_key(rng, rows):
    present = []
    for r in rows:
        if r[0] not in present:
            present.append(r[0])
    q = rng.random()
    outer = ['all'] if q < 0.4 else (['loc', rng.choice(present)] if q < 0.8 else ['loclist', rng.sample(present, rng.randint(1, len(present)))])
    q = rng.random()
    if q < 0.15:
        inner = ['all']
    elif q < 0.55:
        inner = ['loc', ['i', rng.randint(0, 6)]]
    elif q < 0.75:
        inner = ['loclist', [['i', x] for x in rng.sample(range(0, 7), rng.randint(1, 3))]]
    else:
        # a list that names the label just past the end of some leaf (its length) next to a label every leaf holds
        sizes = {}
        for r in rows:
            sizes[json.dumps(r[0])] = sizes.get(json.dumps(r[0]), 0) + 1
        edge = rng.choice(sorted(set(sizes.values())))
        inner = ['loclist', [['i', x] for x in rng.sample([0, edge], 2)] if rng.random() < 0.7 else [['i', edge]]]
    return [outer, inner]


def run_select(rows, key, via, layout_rng=None, build=None):
    labels = [tup(r) for r in rows]
    ih = sf.IndexHierarchy.from_labels(labels) if build is None else build()
    n = len(rows)
    try:
        if key[0] == 'mask':
            hk = np.array(key[1], dtype=bool)
        else:
            hk = sf.HLoc[tuple(py_sel(s) for s in key)]
        if via == 'loc_to_iloc':
            return {'k': 'positions', 'ps': norm_positions(ih.loc_to_iloc(hk), n)}
        # labels are matched by their encoded value: a single selected row comes back with its date leaf as a datetime.date (equal to, but
        # hashing differently from, the datetime64 that iteration yields)
        import json as _json
        _k = lambda t: _json.dumps([P.enc(x) for x in t])
        pos = {_k(t): i for i, t in enumerate(labels)}
        if via == 'ih_loc':
            r = ih.loc[hk]
            got = [tuple(x) for x in r] if isinstance(r, sf.IndexHierarchy) else [tuple(r)]
        elif via == 'series':
            s = sf.Series(np.arange(n), index=ih)
            r = s[hk] if key[0] != 'mask' else s.loc[hk]
            return {'k': 'positions', 'ps': [int(x) for x in (r.values if isinstance(r, sf.Series) else [r])]}
        else:
            f = sf.Frame(np.arange(n * 2).reshape(n, 2), index=ih, columns=('p', 'q'))
            r = f.loc[hk]
            vals = r['p'].values if isinstance(r, sf.Frame) else [r['p']]
            return {'k': 'positions', 'ps': [int(x) // 2 for x in vals]}
        return {'k': 'positions', 'ps': [pos[_k(t)] for t in got]}
    except Exception as e:
        return {'k': 'err', 'cat': P.err_category(e), 'msg': str(e)[:100]}


def rand_key(rng, rows):
    depth = len(rows[0])
    if rng.random() < 0.15:
        # a list selector above the innermost depth naming every label present there in a shuffled order, everything below selected whole:
        # the per-leaf parts then tile the index but not in ascending order
        d = rng.randrange(0, depth - 1)
        present = []
        for r in rows:
            if r[d] not in present:
                present.append(r[d])
        order = list(present)
        rng.shuffle(order)
        return [['all']] * d + [['loclist', order]] + [['all']] * (depth - d - 1)
    if rng.random() < 0.12:
        return ['mask', [rng.random() < 0.5 for _ in rows]]
    key = []
    for d in range(depth):
        labs = [l for l in ALPH[d]]
        present = []
        for r in rows:
            if r[d] not in present:
                present.append(r[d])
        q = rng.random()
        if q < 0.3:
            key.append(['all'])
        elif q < 0.55:
            key.append(['loc', rng.choice(present if rng.random() < 0.9 else labs)])
        elif q < 0.8:
            k = rng.randint(1, min(4, len(labs)))
            key.append(['loclist', rng.sample(labs, k)])
        else:
            a = ['none'] if rng.random() < 0.3 else rng.choice(present)
            b = ['none'] if rng.random() < 0.3 else rng.choice(present)
            key.append(['locslice', a, b])
    return key


def absent_tuples(rng, rows):
    depth = len(rows[0])
    out = []
    for _ in range(3):
        t = [rng.choice(ALPH[d]) for d in range(depth)]
        if t not in rows:
            out.append(t)
    if rng.random() < 0.3:
        out.append(list(rows[0]) + [['s', 'extra']])          # a key with more components than the depth names no label
    if depth >= 2 and rng.random() < 0.4:
        r = rng.choice(rows)
        out.append(list(r[:rng.randint(1, depth - 1)]))          # ... and neither does a proper prefix of a label
    return out


def go_history(ctx, eid):
    '''a grow-only hierarchy driven through appends / extends with reads (cache materialisation) in between'''
    rng = ctx.rng
    depth = rng.choice([2, 3, 3])
    route = rng.choice(['from_labels', 'from_product', 'from_tree', 'empty'])
    if route == 'from_product':
        levels = [rng.sample(ALPH[d], rng.randint(1, 2)) for d in range(depth)]
        rows = [list(t) for t in itertools.product(*levels)]
        ih = sf.IndexHierarchyGO.from_product(*[[P.dec(x) for x in lv] for lv in levels])
    elif route == 'empty':
        rows = rand_rows(rng, depth, 1)[:1]
        ih = sf.IndexHierarchyGO.from_labels([tup(r) for r in rows])
    else:
        rows = rand_rows(rng, depth, rng.randint(1, 5))
        ih = build_ih(rows, route, go=True)
    events = []
    absent = absent_tuples(rng, rows)
    events.append({'id': eid + len(events), 'kind': 'views', 'rows': list(rows), 'absent': absent, 'obs': observe(ih, rows, absent), 'route': 'go:' + route})
    for step in range(rng.randint(2, 7)):
        q = rng.random()
        prev = list(rows)
        if q < 0.65:
            # append: mostly a tuple that extends the last branch at some depth, sometimes one that would break the tree
            last = rows[-1]
            cut = rng.randint(0, depth - 1)
            t = list(last[:cut]) + [rng.choice(ALPH[d]) for d in range(cut, depth)]
            if rng.random() < 0.2:
                t = [rng.choice(ALPH[d]) for d in range(depth)]
            act = {'name': 'append', 't': t}
            try:
                ih.append(tup(t))
                outcome = 'ok'
            except Exception:
                outcome = 'rejected'
        elif q < 0.8:
            outer_new = [l for l in ALPH[0] + [['s', 'D'], ['s', 'E']] if l not in [r[0] for r in rows]]
            if not outer_new:
                continue
            o = rng.choice(outer_new)
            extra = [[o] + r[1:] for r in rand_rows(rng, depth, 3)]
            extra = [list(x) for x in dict.fromkeys(tuple(map(str, r)) for r in extra)] and extra
            seen, ex2 = set(), []
            for r in extra:
                if str(r) not in seen:
                    seen.add(str(r))
                    ex2.append(r)
            # keep tree order inside the extension
            ex2 = sorted(ex2, key=lambda r: [str(x) for x in r[:-1]])
            try:
                other = sf.IndexHierarchy.from_labels([tup(r) for r in ex2])
            except Exception:
                continue
            act = {'name': 'extend', 'rows': ex2}
            try:
                ih.extend(other)
                outcome = 'ok'
            except Exception:
                outcome = 'rejected'
        else:
            # a read that materialises the cached arrays (values / display / iloc) or one that must not need them
            try:
                rng.choice([lambda: ih.values, lambda: len(ih), lambda: list(ih), lambda: repr(ih), lambda: ih.iloc[0], lambda: ih.values_at_depth(depth - 1), lambda: tup(rows[0]) in ih])()
            except Exception:
                pass
            continue
        try:
            now = [[P.enc(x) for x in t] for t in ih]
        except Exception as e:
            now = [['broken', str(e)[:60]]]
        events.append({'id': eid + len(events), 'kind': 'grow', 'prev': prev, 'act': act, 'outcome': outcome, 'rows': now})
        rows = now if (now and now[0] and now[0][0] != 'broken') else rows
        if now and now[0] and now[0][0] == 'broken':
            break
        absent = absent_tuples(rng, rows)
        if rng.random() < 0.5:
            # an index built FROM the grown hierarchy before anything re-reads it (its cached table may be stale at this point): every
            # view of the new index must already describe the grown sequence of tuples
            name, mk = rng.choice([('IndexHierarchy(go)', lambda: sf.IndexHierarchy(ih)), ('IndexHierarchyGO(go)', lambda: sf.IndexHierarchyGO(ih)),
                                   ('rename', lambda: ih.rename('r')), ('copy', lambda: ih.copy()), ('to_static_via_series', lambda: sf.Series(list(range(len(rows))), index=ih).index),
                                   ('frame_columns', lambda: sf.Frame.from_records([list(range(len(rows)))], columns=ih).columns)])
            d_rows, d_absent = list(rows), absent
            if rng.random() < 0.45:
                # derivations that change the labels in a stated way (a new outer level, the sorted order, the per-depth arrays put together again)
                zed = ['s', 'Z']
                key = lambda r: [P.dec(x) for x in r]
                name, mk, d_rows, d_absent = rng.choice([
                    ('level_add', lambda: ih.level_add('Z'), [[zed] + list(r) for r in rows], [[zed] + list(a) for a in absent if len(a) == len(rows[0])]),
                    ('sort', lambda: ih.sort(), sorted(rows, key=key), absent),
                    ('sort_descending', lambda: ih.sort(ascending=False), sorted(rows, key=key, reverse=True), absent),
                    ('values_at_depth', lambda: sf.IndexHierarchy.from_labels(list(zip(*[ih.values_at_depth(k).tolist() for k in range(len(rows[0]))]))) if ALPH[3][0] not in [r[-1] for r in rows] and len(rows[0]) < 4
                        else sf.IndexHierarchy(ih), list(rows), absent),
                    ('series_sort_index', lambda: sf.Series(list(range(len(rows))), index=ih).sort_index().index, sorted(rows, key=key), absent),
                ])
            try:
                d = mk()
                obs = observe(d, d_rows, d_absent)
            except Exception as e:
                obs = {'k': 'err', 'cat': P.err_category(e), 'msg': str(e)[:80]}
            events.append({'id': eid + len(events), 'kind': 'views', 'rows': list(d_rows), 'absent': d_absent, 'obs': obs, 'route': 'go:derived_' + name})
        events.append({'id': eid + len(events), 'kind': 'views', 'rows': list(rows), 'absent': absent, 'obs': observe(ih, rows, absent), 'route': 'go:after_' + act['name']})
    return events


def _bounds_ok(cs):
    '''slice selectors whose bounds are absent under some parent are outside the claim (they raise LocInvalid)'''
    rows, key = cs['rows'], cs['key']
    def rec(P, d):
        if d >= len(key) or not P:
            return True
        labs = []
        for p in P:
            if rows[p][d] not in labs:
                labs.append(rows[p][d])
        s = key[d]
        if s[0] == 'locslice':
            for b in (s[1], s[2]):
                if b[0] != 'none' and b not in labs:
                    return False
        if s[0] == 'all':
            picks = labs
        elif s[0] == 'loc':
            picks = [s[1]] if s[1] in labs else []
        elif s[0] == 'loclist':
            picks = [x for x in s[1] if x in labs]
        else:
            a = 0 if s[1][0] == 'none' else labs.index(s[1])
            b = len(labs) - 1 if s[2][0] == 'none' else labs.index(s[2])
            picks = labs[a:b + 1]
        return all(rec([p for p in P if rows[p][d] == l], d + 1) for l in picks)
    return rec(list(range(len(rows))), 0)


def main(ctx):
    quick = ctx.tier == 'quick'
    r = ctx.model_check('MC_C05', 'MC_C05_quick.cfg', dump=True, timeout=6000)
    if not quick:
        ctx.model_check('MC_C05', 'MC_C05_thorough.cfg', dump=False, timeout=12000, heap='16g')
    if r.ok and r.dump:
        n = 0
        for st in tlaval.iter_dump(r.dump):
            res = tlaval.plain(st['res'])
            if res.get('k') != 'positions' or not res['ps']:
                continue
            if not _bounds_ok(tlaval.plain(st['cs'])):
                continue
            if quick and ctx.rng.random() > 0.25:
                continue
            cs = tlaval.plain(st['cs'])
            n += 1
            via = ctx.rng.choice(['loc_to_iloc', 'ih_loc', 'series', 'frame'])
            act = run_select(cs['rows'], cs['key'], via)
            ctx.replayed += 1
            if act.get('k') != 'positions' or act['ps'] != res['ps']:
                ctx.violation('R', 'hierarchical selection differs from the specification', case={'rows': cs['rows'], 'key': cs['key'], 'via': via}, expected=res, actual=act)
            if n <= 2:
                ctx.sample({'leg': 'R', 'case': cs, 'expected': res})
        ctx.exhaustive = not quick
    events = []
    for i in range(3200 if quick else 30000):
        if ctx.rng.random() < 0.12:
            # hierarchies whose leaves are auto-integer (map-less) indices: a label beyond a leaf's length is absent THERE
            rows = auto_rows(ctx.rng)
            route = ctx.rng.choice(['auto_index_items', 'auto_concat_items'])
            if ctx.rng.random() < 0.4:
                absent = [[r[0], ['i', k]] for r in rows[:1] for k in (6, 7)] + [[['s', 'ZZ'], ['i', 0]], rows[0] + [['s', 'extra']]]
                absent = [a for a in absent if a not in rows]
                try:
                    obs = observe(build_auto(rows, route), rows, absent)
                except Exception as e:
                    obs = {'k': 'err', 'cat': P.err_category(e), 'msg': str(e)[:100]}
                events.append({'id': len(events), 'kind': 'views', 'rows': rows, 'absent': absent, 'obs': obs, 'route': route})
                ctx.count('V_views_auto_leaves')
            else:
                key = auto_key(ctx.rng, rows)
                via = ctx.rng.choice(['loc_to_iloc', 'ih_loc', 'series', 'frame'])
                events.append({'id': len(events), 'kind': 'select', 'rows': rows, 'key': key, 'ismask': False, 'via': via,
                               'res': run_select(rows, key, via, build=lambda: build_auto(rows, route))})
                ctx.count('V_select_auto_leaves')
            continue
        if ctx.rng.random() < 0.04:
            # four or five adjacent outer labels, a list selector that keeps the first and the last in place and reorders the interior:
            # the selected blocks tile one contiguous range although they are not in index order
            outers = ctx.rng.sample(ALPH[0], ctx.rng.randint(4, 5))
            rows = [[o, i] for o in outers for i in ctx.rng.sample(ALPH[1], ctx.rng.randint(1, 2))]
            interior = outers[1:-1]
            while len(interior) > 1 and interior == outers[1:-1]:
                ctx.rng.shuffle(interior)
            key = [['loclist', [outers[0]] + interior + [outers[-1]]], ['all']]
            via = ctx.rng.choice(['loc_to_iloc', 'ih_loc', 'series', 'frame'])
            events.append({'id': len(events), 'kind': 'select', 'rows': rows, 'key': key, 'ismask': False, 'via': via, 'res': run_select(rows, key, via)})
            ctx.count('V_select_reordered_tiling')
            continue
        depth = ctx.rng.choice([2, 2, 3, 4])
        rows = rand_rows(ctx.rng, depth, ctx.rng.randint(1, 9))
        q = ctx.rng.random()
        if q < 0.3:
            route = ctx.rng.choice(ROUTES if depth == 2 else [r for r in ROUTES if r != 'from_index_items'])
            absent = absent_tuples(ctx.rng, rows)
            try:
                ih = build_ih(rows, route, go=ctx.rng.random() < 0.3)
                obs = observe(ih, rows, absent)
            except Exception as e:
                obs = {'k': 'err', 'cat': P.err_category(e), 'msg': str(e)[:100]}
            events.append({'id': len(events), 'kind': 'views', 'rows': rows, 'absent': absent, 'obs': obs, 'route': route})
            ctx.count('V_views')
        elif q < 0.8:
            key = rand_key(ctx.rng, rows)
            via = ctx.rng.choice(['loc_to_iloc', 'ih_loc', 'series', 'frame'])
            events.append({'id': len(events), 'kind': 'select', 'rows': rows, 'key': key, 'ismask': key[0] == 'mask', 'via': via, 'res': run_select(rows, key, via)})
            ctx.count('V_select')
        else:
            events += go_history(ctx, len(events))
            ctx.count('V_go_histories')
    for k, ev in enumerate(events):
        ev['id'] = k
    rej = ctx.validate_events('Trace_C05', 'Trace.cfg', events, chunk=500)
    for ev in events:
        if ev['id'] in rej:
            ctx.violation('V', 'recorded %s event violates %s' % (ev['kind'], rej[ev['id']][0]), case={k: ev[k] for k in ev if k not in ('obs', 'res', 'id')},
                          actual=ev.get('obs') or ev.get('res') or {'rows': ev.get('rows'), 'outcome': ev.get('outcome')}, clause=rej[ev['id']][0], expected=rej[ev['id']][1])
    ctx.sample({'leg': 'V', 'event': {k: events[0][k] for k in ('kind', 'rows') if k in events[0]}})
    return ctx.finish(rule='M/R: every tree-ordered label set of depth 2 with <=4 rows (thorough: depth 3) x every combination of per-level selectors (label, list in either order, slice, all); R replays through loc_to_iloc / ih.loc / Series / Frame; V: random trees of depth 2-4 (ragged, repeated inner labels, date level) through 9 construction routes (all views compared), random per-level selections incl. innermost masks, and grow-only histories (append / extend with reads materialising the caches in between)')
