'''C10 equals is a content equivalence; HE variants honour the hash contract.'''
import copy

import numpy as np

import static_frame as sf

from .. import core, project as P
from . import common as C

SER_CLS = {'Series': sf.Series, 'SeriesHE': sf.SeriesHE}
FRM_CLS = {'Frame': sf.Frame, 'FrameGO': sf.FrameGO, 'FrameHE': sf.FrameHE}


def restore(obj, item):
    '''same labels, another storage of the index array: a wider string dtype, another integer width, floats for whole numbers, object'''
    how = item.get('index_storage')
    labels = [P.dec(x) for x in item['index']]
    if not how or not labels:
        return obj
    if all(isinstance(x, str) for x in labels):
        arr = np.array(labels, dtype='<U9') if how != 'object' else np.array(labels, dtype=object)
    elif all(isinstance(x, int) and not isinstance(x, bool) for x in labels):
        arr = np.array(labels, dtype={'int32': np.int32, 'float': np.float64, 'wide': np.int16 if max(abs(x) for x in labels) < 30000 else np.int32, 'object': object}[how])
    else:
        return obj
    arr.flags.writeable = False
    return obj.relabel(index=sf.Index(arr))


def build(item, layout=None):
    if item['kind'] == 'series':
        return restore(P.build_series({'index': item['index'], 'vals': item['vals'], 'dt': item['dt'], 'name': item['name']}, cls=SER_CLS[item['cls']]), item)
    af = {'index': item['index'], 'columns': item['columns'], 'cols': item['cols'], 'name': item['name']}
    return restore(P.build_frame(af, layout, cls=FRM_CLS[item['cls']]), item)


def variants(rng, base):
    '''single-point mutations of a container: one cell, one label, dtype, name, class, missing values'''
    out = [base, copy.deepcopy(base)]
    cols = [base] if base['kind'] == 'series' else base['cols']

    def mut(fn):
        v = copy.deepcopy(base)
        try:
            fn(v)
            out.append(v)
        except (IndexError, KeyError, ValueError):
            pass

    def cell(v, newval=None, to_dtype=None):
        cs = [v] if v['kind'] == 'series' else v['cols']
        c = rng.choice(cs)
        i = rng.randrange(len(c['vals']))
        c['vals'][i] = newval
        if to_dtype:
            c['dt'] = to_dtype
    nrows = len(base['index'])
    if nrows:
        def one_cell(v):
            cs = [v] if v['kind'] == 'series' else v['cols']
            c = rng.choice(cs)
            i = rng.randrange(nrows)
            k = c['dt'][0]
            c['vals'][i] = {'i': ['i', 7], 'f': ['f', 7, 2], 'U': ['s', 'q'], 'O': ['i', 7], 'b': ['b', 1 - c['vals'][i][1]] if c['vals'][i][0] == 'b' else ['b', 1]}[k]
        mut(one_cell)
        # NaN on one side, number on the other; NaN on both; None vs NaN (object columns)
        def nan_one(v):
            cs = [v] if v['kind'] == 'series' else v['cols']
            fl = [c for c in cs if c['dt'][0] in 'fO']
            c = rng.choice(fl)
            c['vals'][rng.randrange(nrows)] = ['nan']
        mut(nan_one)
        mut(nan_one)
        def none_one(v):
            cs = [v] if v['kind'] == 'series' else v['cols']
            ob = [c for c in cs if c['dt'][0] == 'O']
            c = rng.choice(ob)
            c['vals'][rng.randrange(nrows)] = ['none']
        mut(none_one)
        def relabel(v):
            i = rng.randrange(nrows)
            v['index'][i] = ['s', 'ZZ'] if v['index'][i][0] == 's' else ['i', 999]
        mut(relabel)
        def swap_labels(v):
            if nrows >= 2:
                v['index'][0], v['index'][1] = v['index'][1], v['index'][0]
            else:
                raise IndexError
        mut(swap_labels)
        def int_to_float(v):
            cs = [v] if v['kind'] == 'series' else v['cols']
            ints = [c for c in cs if c['dt'][0] == 'i']
            c = rng.choice(ints)
            c['dt'] = ['f', 64]
            c['vals'] = [['f', x[1], 1] for x in c['vals']]
        mut(int_to_float)
    mut(lambda v: v.__setitem__('name', ['s', 'other']))
    def other_class(v):
        v['cls'] = rng.choice([c for c in (SER_CLS if v['kind'] == 'series' else FRM_CLS) if c != v['cls']])
    mut(other_class)
    if base['kind'] == 'frame' and base['columns']:
        def recol(v):
            v['columns'][0] = ['s', 'ZZ'] if v['columns'][0][0] == 's' else ['i', 999]
        mut(recol)
        mut(lambda v: (v['index'].pop(), [c['vals'].pop() for c in v['cols']]))
    return out


def gen_items(rng):
    if rng.random() < 0.4:
        s = C.rand_series(rng, 4, kinds='ifO', na=0.2, index_kind=rng.choice(['str', 'int']), min_n=0)
        base = {'kind': 'series', 'cls': rng.choice(list(SER_CLS)), 'name': s['name'], 'index': s['index'], 'dt': s['dt'], 'vals': s['vals']}
    else:
        f = C.rand_frame(rng, 3, 3, kinds='ifOU', na=0.2, index_kind=rng.choice(['str', 'int']), columns_kind='str', min_rows=0, min_cols=0)
        base = {'kind': 'frame', 'cls': rng.choice(list(FRM_CLS)), 'name': f['name'], 'index': f['index'], 'columns': f['columns'], 'cols': f['cols']}
    items = variants(rng, base)
    rng.shuffle(items)
    return items[:7]


# ---- indices on their own: one content, many construction routes (shared / separate level objects) ---------------

def _hier_routes(labels):
    '''construction routes applicable to these depth-2 tuple labels (already in tree order)'''
    py = [P.dec(l) for l in labels]
    outer = []
    for o, _ in py:
        if o not in outer:
            outer.append(o)
    inner = {o: [i for oo, i in py if oo == o] for o in outer}
    first = inner[outer[0]]
    product = all(inner[o] == first for o in outer)
    R = ['from_labels', 'from_labels_copy', 'from_tree', 'from_index_items_separate', 'level_add_drop', 'from_frame_columns']
    if product:
        R += ['from_product', 'from_product', 'from_index_items_shared', 'from_product_copy']
    return R, outer, inner, first


def build_index_item(item):
    cls = getattr(sf, item['cls'])
    name = P.dec(item['name'])
    labels = item['index']
    if item['depth'] == 1:
        if any(l[0] in ('d', 'nat') for l in labels):
            arr = np.array([np.datetime64('NaT') if l[0] == 'nat' else P.dec(l) for l in labels], dtype='datetime64[D]')
            arr.flags.writeable = False
            return cls(arr, name=name)
        return cls([P.dec(l) for l in labels], name=name)
    py = [P.dec(l) for l in labels]
    if item.get('lcls'):
        # a date level: the class of the Index at each depth is part of the content (compare_class), the route is not
        ctors = tuple(getattr(sf, c) for c in item['lcls'])
        if item['route'] == 'from_index_items':
            outer = []
            for o, _ in py:
                if o not in outer:
                    outer.append(o)
            ih = cls.from_index_items((o, ctors[1](np.array([i for oo, i in py if oo == o], dtype='datetime64[D]'))) for o in outer).rename(name)
        else:
            ih = cls.from_labels(py, name=name, index_constructors=ctors)
        if item.get('read'):
            ih.values, ih.loc_to_iloc(py[0])          # ordinary read-only use: the label table is materialised
        return ih
    R, outer, inner, first = _hier_routes(labels)
    route = item['route'] if item['route'] in R else 'from_labels'
    if route == 'from_labels':
        return cls.from_labels(py, name=name)
    if route == 'from_labels_copy':
        return cls.from_labels(py, name=name).copy()
    if route == 'from_tree':
        return cls.from_tree({o: inner[o] for o in outer}, name=name)
    if route == 'from_index_items_separate':
        return cls.from_index_items(((o, sf.Index(inner[o])) for o in outer)).rename(name)
    if route == 'from_index_items_shared':
        shared = sf.Index(first)
        return cls.from_index_items(((o, shared) for o in outer)).rename(name)
    if route == 'from_product':
        return cls.from_product(outer, first, name=name)
    if route == 'from_product_copy':
        return cls.from_product(outer, first, name=name).copy()
    if route == 'level_add_drop':
        return cls.from_labels(py).level_add('X').level_drop(1).rename(name)
    if route == 'from_frame_columns':
        f = sf.Frame.from_records([[0] * len(py)], columns=sf.IndexHierarchy.from_labels(py))
        ih = f.columns
        return ih.rename(name) if cls is sf.IndexHierarchy else cls(ih, name=name)
    raise ValueError(route)


def gen_index_items(rng):
    '''a family of indices: the same content through several routes, plus single-point mutants (one label under an
    early / late parent, one label dropped, name, class)'''
    name = rng.choice([['none'], ['s', 'nm']])
    r0 = rng.random()
    if r0 < 0.12:
        # hierarchies with a date level: equal labels under different per-depth Index classes, read or not read before the comparison
        outer = rng.sample([['s', 'x'], ['s', 'y']], rng.randint(1, 2))
        days = [['d', 'D', 18000 + v] for v in sorted(rng.sample(range(10), rng.randint(1, 3)))]
        labels = [['t', [o, d]] for o in outer for d in days]
        items = []
        for lc in (['Index', 'IndexDate'], ['Index', 'Index'], ['Index', 'IndexDate'], ['Index', 'Index']):
            items.append({'kind': 'index', 'cls': 'IndexHierarchy', 'name': name, 'index': copy.deepcopy(labels), 'depth': 2, 'lcls': lc,
                          'route': rng.choice(['from_labels', 'from_index_items']), 'read': rng.random() < 0.7})
        m = copy.deepcopy(items[0])
        m['index'][-1][1][1] = ['d', 'D', 18099]
        items.append(m)
        items.append(dict(copy.deepcopy(items[1]), cls='IndexHierarchyGO'))
        rng.shuffle(items)
        return items
    if r0 < 0.24:
        # labels that hold a missing value (NaT in datetime labels, NaN in float labels): two missing labels at the same position are
        # equal exactly when skipna is requested; separately built indices, several classes
        if rng.random() < 0.6:
            labels = [['d', 'D', 18000 + v] for v in rng.sample(range(20), rng.randint(1, 3))]
            labels.insert(rng.randrange(len(labels) + 1), ['nat'])
            classes = ['IndexDate', 'IndexDateGO', 'Index']
            other = ['d', 'D', 18100]
        else:
            labels = [['f', 2 * v + 1, 2] for v in rng.sample(range(8), rng.randint(1, 3))]
            labels.insert(rng.randrange(len(labels) + 1), ['nan'])
            classes = ['Index', 'IndexGO']
            other = ['f', 99, 2]
        base = {'kind': 'index', 'cls': rng.choice(classes), 'name': name, 'index': labels, 'depth': 1, 'route': 'flat'}
        items = [base, copy.deepcopy(base), dict(copy.deepcopy(base), cls=rng.choice(classes)), dict(copy.deepcopy(base), cls=rng.choice(classes), name=['s', 'other'])]
        k = next(i for i, l in enumerate(labels) if l[0] in ('nat', 'nan'))
        m = copy.deepcopy(base)
        m['index'][k] = other                      # the missing label replaced by a value
        items.append(m)
        m = copy.deepcopy(base)
        m['index'] = [l for l in m['index'] if l[0] not in ('nat', 'nan')] + [m['index'][k]]          # the missing label moved to the end
        items.append(m)
        m = copy.deepcopy(base)
        m['index'] = [l for l in m['index'] if l[0] not in ('nat', 'nan')]
        items.append(m)
        rng.shuffle(items)
        return items[:8]
    if r0 < 0.4:
        labels = C.rand_labels(rng, rng.randint(0, 4), rng.choice(['str', 'int']))
        base = {'kind': 'index', 'cls': rng.choice(['Index', 'IndexGO']), 'name': name, 'index': labels, 'depth': 1, 'route': 'flat'}
        items = [base, dict(base), dict(base, cls='IndexGO' if base['cls'] == 'Index' else 'Index'), dict(base, name=['s', 'other'])]
        if labels:
            m = copy.deepcopy(base)
            m['index'][rng.randrange(len(labels))] = ['s', 'ZZ'] if labels[0][0] == 's' else ['i', 999]
            items.append(m)
            m = copy.deepcopy(base)
            m['index'].pop()
            items.append(m)
            m = copy.deepcopy(base)
            m['index'] = list(reversed(m['index']))
            items.append(m)
    else:
        outer = rng.sample([['s', 'x'], ['s', 'y'], ['s', 'z']], rng.randint(2, 3))
        pool = [['i', 1], ['i', 2], ['i', 3]]
        first = rng.sample(pool, rng.randint(1, 3))
        if rng.random() < 0.65:
            inner = [list(first) for _ in outer]
        else:
            inner = [rng.sample(pool, rng.randint(1, 3)) for _ in outer]
        labels = [['t', [o, i]] for o, ins in zip(outer, inner) for i in ins]
        base = {'kind': 'index', 'cls': rng.choice(['IndexHierarchy', 'IndexHierarchy', 'IndexHierarchyGO']), 'name': name, 'index': labels, 'depth': 2, 'route': 'from_labels'}
        routes = _hier_routes(labels)[0]
        items = [dict(base, route=rng.choice(routes)) for _ in range(3)]
        # one label changed under ONE parent (early parents first: siblings are walked last to first)
        for _ in range(3):
            m = copy.deepcopy(base)
            k = rng.randrange(len(outer)) if rng.random() < 0.4 else 0
            rows = [i for i, l in enumerate(m['index']) if l[1][0] == outer[k]]
            taken = [m['index'][i][1][1] for i in rows]
            free = [x for x in pool + [['i', 9]] if x not in taken]
            if free:
                m['index'][rng.choice(rows)][1][1] = rng.choice(free)
            m['route'] = rng.choice(['from_labels', 'from_tree', 'from_index_items_separate'])
            items.append(m)
        m = copy.deepcopy(base)
        if len(m['index']) > 1:
            m['index'].pop()
            items.append(m)
        items.append(dict(base, name=['s', 'other'], route=rng.choice(routes)))
        items.append(dict(base, cls='IndexHierarchyGO' if base['cls'] == 'IndexHierarchy' else 'IndexHierarchy', route=rng.choice(routes)))
    rng.shuffle(items)
    return items[:8]


# ---- Series that are views into ONE buffer (rows / columns of a square single-block Frame, a renamed Series): sharing memory is not content
_SHARED = {}


def gen_view_items(rng):
    n = 3
    labels = [['s', x] for x in rng.sample(['a', 'b', 'c', 'd'], n)]
    if rng.random() < 0.5:
        m = [[['i', rng.choice([1, 2, 3, 4, 7])] for _ in range(n)] for _ in range(n)]
        dt = ['i', 64]
    else:
        m = [[(['nan'] if rng.random() < 0.25 else ['f', rng.choice([1, 3, 5]), 2]) for _ in range(n)] for _ in range(n)]
        dt = ['f', 64]
    fam = rng.randrange(10 ** 9)
    items = []
    for i in range(2):
        items.append({'kind': 'series', 'cls': 'Series', 'name': labels[i], 'index': labels, 'dt': dt, 'vals': [m[i][j] for j in range(n)], 'fam': fam, 'via': ['row', i]})
        items.append({'kind': 'series', 'cls': 'Series', 'name': labels[i], 'index': labels, 'dt': dt, 'vals': [m[j][i] for j in range(n)], 'fam': fam, 'via': ['col', i]})
    items.append(dict(items[0], name=['s', 'renamed'], via=['row_renamed', 0]))
    items.append(dict(items[1], via=['col_copy', 0]))
    _SHARED[fam] = (labels, m, dt)
    return items


def build_view_item(it):
    labels, m, dt = _SHARED[it['fam']]
    key = ('frame', it['fam'])
    if key not in _SHARED:
        arr = P.make_array([v for row in m for v in row], dt).reshape(len(labels), len(labels))
        arr.flags.writeable = False
        _SHARED[key] = sf.Frame(arr, index=[P.dec(l) for l in labels], columns=[P.dec(l) for l in labels])
    f = _SHARED[key]
    how, i = it['via']
    lab = P.dec(labels[i])
    if how == 'row':
        return f.loc[lab]
    if how == 'col':
        return f[lab]
    if how == 'row_renamed':
        return f.loc[lab].rename('renamed')
    return sf.Series(f[lab].values.copy(), index=f.index, name=lab)


def gen_bus_items(rng):
    '''Buses over the same labels whose Frames differ in exactly one respect (stored dtype with equal values, name, class, one cell, a NaN
    against a None) or in none: a Bus is equal to another exactly when, label by label, its Frames are - under the same options'''
    import copy as _copy
    for _ in range(30):
        fam = [it for it in gen_items(rng) if it['kind'] == 'frame' and it['cls'] != 'FrameGO' and it['cols'] and it['index']]
        if fam:
            break
    else:
        return None
    base = fam[0]
    vs = [_copy.deepcopy(base)]
    v = _copy.deepcopy(base)          # the same values stored in another dtype
    for c in v['cols']:
        if c['dt'][0] == 'i':
            c['dt'] = ['f', 64]
            c['vals'] = [['f', x[1], 1] if x[0] == 'i' else x for x in c['vals']]
            break
        if c['dt'][0] == 'U':
            c['dt'] = ['U', c['dt'][1] + 3]
            break
    vs.append(v)
    v = _copy.deepcopy(base)
    v['name'] = ['s', 'other'] if base['name'] != ['s', 'other'] else ['none']
    vs.append(v)
    v = _copy.deepcopy(base)
    v['cls'] = 'FrameHE' if base['cls'] != 'FrameHE' else 'Frame'
    vs.append(v)
    vs += [_copy.deepcopy(x) for x in fam[1:3]]
    labels = [['s', 'f1'], ['s', 'f2']]
    out = []
    for var in vs:
        frames = [_copy.deepcopy(base), var] if rng.random() < 0.7 else [var, _copy.deepcopy(base)]
        out.append({'kind': 'bus', 'cls': 'Bus', 'name': rng.choice([['none'], ['none'], ['s', 'bn']]), 'index': labels, 'frames': frames})
    return out


def build_bus_item(rng, it):
    frames = [build(fr, layouts_for_item(rng, fr)) for fr in it['frames']]
    return sf.Bus(sf.Series.from_items(zip([P.dec(x) for x in it['index']], frames), dtype=object, name=P.dec(it['name'])))


def layouts_for_item(rng, it):
    if it['kind'] != 'frame':
        return None
    return C.rand_layout(rng, it)


def main(ctx):
    quick = ctx.tier == 'quick'
    r = ctx.model_check('MC_C10', 'MC_C10_quick.cfg', dump=True, timeout=3000)
    ctx.model_check('MC_C10', 'MC_C10_neg.cfg', expect_violation='AsBuiltSymmetric', coverage=False)
    if r.ok and r.dump:
        n = 0
        for cs, exp in core.cases_from_dump(r.dump):
            if quick and ctx.rng.random() > 0.5:
                continue
            n += 1
            o = cs['opts']
            kw = dict(compare_name=o['name'], compare_dtype=o['dtype'], compare_class=o['class'], skipna=o['skipna'])
            for as_frame in (False, True):
                if as_frame:
                    mk = lambda it: P.build_frame({'index': it['index'], 'columns': [['s', 'c']], 'cols': [{'dt': it['dt'], 'vals': it['vals']}], 'name': it['name']}, [[1, ctx.rng.choice([1, 2])]])
                else:
                    mk = build
                a, b = mk(cs['a']), mk(cs['b'])
                act = {'k': 'bool', 'ab': bool(a.equals(b, **kw)), 'ba': bool(b.equals(a, **kw))}
                ctx.replayed += 1
                if act != exp:
                    ctx.violation('R', 'equals differs from the content predicate', case={'cs': cs, 'as_frame': as_frame}, expected=exp, actual=act)
            if n <= 2:
                ctx.sample({'leg': 'R', 'case': cs, 'expected': exp})
        ctx.exhaustive = not quick
    events = []
    for i in range(520 if quick else 10000):
        if i % 11 == 5:
            items = gen_view_items(ctx.rng)
            objs = [build_view_item(it) for it in items]
            for it in items:
                it.pop('fam'), it.pop('via')
            ctx.count('V_view_family')
        elif i % 13 in (7, 2, 10):
            items = gen_bus_items(ctx.rng)
            if items is None:
                continue
            objs = [build_bus_item(ctx.rng, it) for it in items]
            ctx.count('V_bus_family')
        elif i % 4 == 3:
            items = gen_index_items(ctx.rng)
            objs = [build_index_item(it) for it in items]
            for it, o in zip(items, objs):
                it.setdefault('lcls', [])
                it.pop('read', None)
                it['dt'] = [P.enc_dtype(o.values.dtype)] if it['depth'] == 1 else [P.enc_dtype(x) for x in o.dtypes.values]
            ctx.count('V_index_family')
        else:
            items = gen_items(ctx.rng)
            objs = [build(it, layouts_for_item(ctx.rng, it)) for it in items]
        opts = {'name': ctx.rng.random() < 0.3, 'dtype': ctx.rng.random() < 0.3, 'class': ctx.rng.random() < 0.3, 'skipna': ctx.rng.random() < 0.7}
        if items[0]['kind'] == 'bus' and ctx.rng.random() < 0.5:
            opts['dtype'] = True          # (the option that only the Frames inside can answer)
        kw = dict(compare_name=opts['name'], compare_dtype=opts['dtype'], compare_class=opts['class'], skipna=opts['skipna'])
        try:
            m = [[bool(a.equals(b, **kw)) for b in objs] for a in objs]
        except Exception as e:
            ctx.violation('V', 'equals raised', case={'items': items, 'opts': opts}, actual=P.proj_err(e), clause='error')
            continue
        events.append({'id': len(events), 'kind': 'matrix', 'items': items, 'm': m, 'opts': opts})
        ctx.count('V_matrix')
        if i % 3 == 0 and items[0]['kind'] not in ('index', 'bus'):
            # HE variants of every item
            hitems = [dict(it, cls='SeriesHE' if it['kind'] == 'series' else 'FrameHE') for it in items]
            # equal labels held in differently stored index arrays are the same labels: == and hash must not see the storage
            for it in list(hitems[:3]):
                hitems.append(dict(it, index_storage=ctx.rng.choice(['wide', 'int32', 'float', 'object'])))
            hobjs = [build(it, layouts_for_item(ctx.rng, it)) for it in hitems]
            try:
                eq = [[(a == b) for b in hobjs] for a in hobjs]
                ne = [[(a != b) for b in hobjs] for a in hobjs]
                plain = all(isinstance(x, bool) for row in eq + ne for x in row)
                hashes = [hash(a) % 1000003 for a in hobjs]
                # set / dict behaviour must agree with ==
                distinct = []
                for a in hobjs:
                    if not any(a == d for d in distinct):
                        distinct.append(a)
                setlen = len(set(hobjs))
            except Exception as e:
                ctx.violation('V', 'HE comparison raised', case={'items': hitems}, actual=P.proj_err(e), clause='error')
                continue
            if not plain:
                ctx.violation('V', '== / != of an HE container is not a plain Boolean', case={'items': hitems}, clause='not_boolean')
                continue
            if setlen != len(distinct):
                ctx.violation('V', 'set membership disagrees with ==', case={'items': hitems}, actual={'set_len': setlen, 'distinct_by_eq': len(distinct)}, clause='set_membership')
            events.append({'id': len(events), 'kind': 'he', 'items': hitems, 'eq': [[bool(x) for x in r] for r in eq], 'ne': [[bool(x) for x in r] for r in ne], 'hashes': hashes})
            ctx.count('V_he')
    rej = ctx.validate_events('Trace_C10', 'Trace.cfg', events, chunk=150)
    for ev in events:
        if ev['id'] in rej:
            ctx.violation('V', 'recorded comparison matrix violates ' + rej[ev['id']][0], case={'items': ev['items'], 'opts': ev.get('opts')},
                          actual=ev.get('m') or {'eq': ev.get('eq'), 'hashes': ev.get('hashes')}, clause=rej[ev['id']][0])
    ctx.sample({'leg': 'V', 'event': {k: events[0][k] for k in ('kind', 'm', 'opts') if k in events[0]}, 'n_items': len(events[0]['items'])})
    return ctx.finish(rule='M/R: every ordered pair of one-column containers of length 2 over {0,1,1.0,NaN,None} x dtype {i,f,O} x skipna x compare_dtype (transitivity over all thirds), replayed as Series and as Frame in both directions; V: families of up to 7 single-point mutants (one cell / label / dtype / name / class / NaN / None / shape, random layouts) of random containers, the full equals matrix and, for HE variants, ==, !=, hash and set behaviour')
