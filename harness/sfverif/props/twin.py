'''Twin sweep (C02 / C09): a grow-only container brought to its labels by a HISTORY (construction, reads that materialise its caches,
appends / extends / column assignments, no read at the end) next to a twin built AT ONCE from the same final labels.  One public
call is made on both - on the grown one first, as the first thing that touches it after the last growth - and the two results must be
the same observable.  What a container answers is a function of the labels (and data) it holds, not of how it came to hold them:
that is the abstraction SFIndex / SFGo are written over (Value(ix) is the label sequence; caches are not state of the model), and
every rejected event is a method that trusted a cache the growth had outdated.'''
import copy
import json
import pickle

import numpy as np
import static_frame as sf

from .. import project as P

HLoc = sf.HLoc


def _proj(x, depth=0):
    '''a JSON-able observable of whatever a call hands back (class names of containers included: grow-only-ness is observable)'''
    if isinstance(x, sf.Quilt):
        return {'quilt': _proj(x.to_frame(), depth + 1), 'axis': x._axis, 'retain': x._retain_labels}
    if isinstance(x, sf.Bus):
        return {'bus': [_proj(l, depth + 1) for l in x.index], 'frames': [_proj(f, depth + 1) for f in x.values], 'name': str(x.name)}
    if isinstance(x, sf.Frame):
        return {'frame': x.__class__.__name__, 'index': _proj(x.index, depth + 1), 'columns': _proj(x.columns, depth + 1),
                'cols': [[P.enc(v) for v in a] for a in P.raw_columns(x)], 'shape': list(x.shape), 'name': P.enc(x.name) if not isinstance(x.name, tuple) else str(x.name)}
    if isinstance(x, sf.Series):
        return {'series': x.__class__.__name__, 'index': _proj(x.index, depth + 1), 'vals': [_proj(v, depth + 1) for v in x.values], 'name': str(x.name)}
    if isinstance(x, P.IndexBase):
        return {'index': x.__class__.__name__, 'labels': [_proj(l, depth + 1) for l in x], 'len': len(x), 'depth': x.depth, 'name': str(x.name)}
    if isinstance(x, np.ndarray):
        return {'array': list(x.shape), 'vals': [_proj(v, depth + 1) for v in x.reshape(-1)]}
    if isinstance(x, (tuple, list)):
        return [_proj(v, depth + 1) for v in x]
    if isinstance(x, dict):
        return {str(k): _proj(v, depth + 1) for k, v in x.items()}
    if isinstance(x, type):
        return x.__name__
    if hasattr(x, '__next__') or (hasattr(x, '__iter__') and not isinstance(x, (str, bytes))):
        return [_proj(v, depth + 1) for v in x]
    try:
        e = P.enc(x)
        if isinstance(e, list) and e and e[0] == 'o':
            return {'object': type(x).__name__}          # (an interface object: its class, not its address)
        return e
    except Exception:
        return {'object': type(x).__name__}


def _call(fn, obj):
    try:
        return _proj(fn(obj))
    except Exception as e:
        return {'err': P.err_category(e)}


# ---- flat grow-only indices -----------------------------------------------------------------------------------------------------
def _flat_methods(labels, absent):
    last = labels[-1]
    return {
        'values': lambda ix: ix.values, 'len': len, 'iter': list, 'reversed': lambda ix: list(reversed(ix)), 'positions': lambda ix: ix.positions,
        'contains_all': lambda ix: [l in ix for l in labels + absent], 'loc_to_iloc_last': lambda ix: ix.loc_to_iloc(last),
        'loc_to_iloc_list': lambda ix: ix.loc_to_iloc(labels[::-1]), 'iloc_last': lambda ix: ix.iloc[-1], 'iloc_rev': lambda ix: ix.iloc[::-1],
        'loc_slice': lambda ix: ix.loc[labels[0]:last], 'copy': lambda ix: ix.copy(), 'rename': lambda ix: ix.rename('r'), 'sort': lambda ix: ix.sort(),
        'sort_desc': lambda ix: ix.sort(ascending=False), 'union_self': lambda ix: ix.union(ix), 'intersection_last': lambda ix: ix.intersection([last]),
        'difference_none': lambda ix: ix.difference([]), 'isin': lambda ix: ix.isin([last]), 'roll': lambda ix: ix.roll(1), 'static': lambda ix: sf.Index(ix),
        'go': lambda ix: sf.IndexGO(ix), 'to_series': lambda ix: ix.to_series(), 'pickle': lambda ix: pickle.loads(pickle.dumps(ix)), 'deepcopy': lambda ix: copy.deepcopy(ix),
        'equals_fresh': lambda ix: ix.equals(sf.Index(labels)), 'head': lambda ix: ix.head(2), 'tail': lambda ix: ix.tail(1), 'shape': lambda ix: ix.shape,
        'level_add': lambda ix: ix.level_add('Z'), 'series_owner': lambda ix: sf.Series(np.arange(len(labels)), index=ix), 'display': lambda ix: len(str(ix).split('\n')),
        'loc_searchsorted': lambda ix: ix.iloc_searchsorted(last) if all(labels[i] < labels[i + 1] for i in range(len(labels) - 1)) else 0,
        'eq': lambda ix: ix == np.array(labels, dtype=object), 'iter_label': lambda ix: list(ix.iter_label()), 'dtype': lambda ix: str(ix.dtype.kind),
        'min_max': lambda ix: [ix.min(), ix.max()], 'drop_last': lambda ix: ix.drop.iloc[-1], 'astype_object': lambda ix: ix.astype(object),
        'fillna': lambda ix: ix.fillna(last), 'label_widths': lambda ix: list(ix.label_widths_at_depth(0)),
    }


def flat_pair(rng):
    kind = rng.choice(['s', 'i', 'i_auto'])
    pool = ['a', 'b', 'c', 'd', 'e', 'f', 'g'] if kind == 's' else list(range(0, 9))
    n = rng.randint(2, 5)
    labels = rng.sample(pool, n) if kind != 'i_auto' else list(range(n))
    k0 = rng.randint(0, n - 1)
    if kind == 'i_auto':
        stale = sf.IndexGO(range(k0), loc_is_iloc=True) if k0 else sf.IndexGO(())
    else:
        stale = sf.IndexGO(labels[:k0])
    touches = [lambda ix: ix.values, lambda ix: len(ix), lambda ix: list(ix), lambda ix: repr(ix), lambda ix: ix.positions, lambda ix: None, lambda ix: None]
    hist = ['init%d' % k0]
    rest = labels[k0:]
    while rest:
        if rng.random() < 0.5:
            rng.choice(touches)(stale)
            hist.append('touch')
        if len(rest) >= 2 and rng.random() < 0.4:
            m = rng.randint(2, len(rest))
            stale.extend(rest[:m])
            hist.append('extend%d' % m)
            rest = rest[m:]
        else:
            stale.append(rest[0])
            hist.append('append')
            rest = rest[1:]
    fresh = sf.IndexGO(labels)
    absent = ['zz'] if kind == 's' else [99]
    return stale, fresh, _flat_methods(labels, absent), {'kind': 'IndexGO:' + kind, 'labels': [P.enc(l) for l in labels], 'history': hist}


# ---- hierarchical grow-only indices ---------------------------------------------------------------------------------------------
def _hier_methods(labels, absent, depth):
    last = labels[-1]
    first = labels[0]
    return {
        'values': lambda ix: ix.values, 'len': len, 'iter': list, 'reversed': lambda ix: list(reversed(ix)), 'positions': lambda ix: ix.positions,
        'contains_all': lambda ix: [l in ix for l in labels + absent], 'loc_to_iloc_last': lambda ix: ix.loc_to_iloc(last),
        'loc_to_iloc_hloc_outer': lambda ix: ix.loc_to_iloc(HLoc[last[0]]), 'iloc_last': lambda ix: ix.iloc[-1], 'iloc_rev_first': lambda ix: ix.iloc[:2],
        'copy': lambda ix: ix.copy(), 'rename': lambda ix: ix.rename('r'), 'sort': lambda ix: ix.sort(), 'sort_desc': lambda ix: ix.sort(ascending=False),
        'union_self': lambda ix: ix.union(ix), 'intersection_self': lambda ix: ix.intersection(ix), 'isin': lambda ix: ix.isin([last]), 'roll0': lambda ix: ix.roll(0),
        'static': lambda ix: sf.IndexHierarchy(ix), 'go': lambda ix: sf.IndexHierarchyGO(ix), 'pickle': lambda ix: pickle.loads(pickle.dumps(ix)),
        'deepcopy': lambda ix: copy.deepcopy(ix), 'equals_fresh': lambda ix: ix.equals(sf.IndexHierarchy.from_labels(labels)), 'shape': lambda ix: ix.shape,
        'level_add': lambda ix: ix.level_add('Z'), 'flat': lambda ix: ix.flat(), 'values_at_depth_last': lambda ix: ix.values_at_depth(depth - 1),
        'values_at_depth_0': lambda ix: ix.values_at_depth(0), 'label_widths0': lambda ix: list(ix.label_widths_at_depth(0)), 'iter_label0': lambda ix: list(ix.iter_label(0)),
        'iter_label_all': lambda ix: list(ix.iter_label()), 'dtypes': lambda ix: [str(d.kind) for d in ix.dtypes.values], 'depth': lambda ix: ix.depth,
        'to_frame': lambda ix: ix.to_frame(), 'to_frame_go': lambda ix: ix.to_frame_go(), 'series_owner': lambda ix: sf.Series(np.arange(len(labels)), index=ix),
        'frame_columns_owner': lambda ix: sf.Frame.from_records([list(range(len(labels)))], columns=ix), 'rehierarch': lambda ix: ix.rehierarch(list(range(depth))[::-1]),
        'display': lambda ix: len(str(ix).split('\n')), 'loc_first': lambda ix: ix.loc[HLoc[first[0]]], 'head': lambda ix: ix.head(2), 'tail': lambda ix: ix.tail(1),
        'drop_last': lambda ix: ix.drop.iloc[-1], 'astype_object': lambda ix: ix.astype(object), 'index_types': lambda ix: [c.__name__ for c in ix.index_types.values],
        'fillna': lambda ix: ix.fillna(0), 'names': lambda ix: list(ix.names), 'size': lambda ix: ix.size, 'nbytes_positive': lambda ix: ix.nbytes > 0,
        'eq_values': lambda ix: (ix.values == np.array(labels, dtype=object)).all(), 'sort_key': lambda ix: ix.sort(key=lambda i: i),
    }


def hier_pair(rng):
    depth = rng.choice([2, 2, 3])
    outers = rng.sample(['A', 'B', 'C', 'D'], rng.randint(1, 3))
    labels = []
    for o in outers:
        for m in (rng.sample([1, 2, 3], rng.randint(1, 2))):
            if depth == 2:
                labels.append((o, m))
            else:
                for u in rng.sample(['x', 'y'], rng.randint(1, 2)):
                    labels.append((o, m, u))
    if len(labels) < 2:
        labels.append((outers[-1], 9) if depth == 2 else (outers[-1], 9, 'x'))
    n = len(labels)
    k0 = rng.randint(1, n - 1)
    route = rng.choice(['labels', 'labels', 'product_like'])
    stale = sf.IndexHierarchyGO.from_labels(labels[:k0])
    touches = [lambda ix: ix.values, lambda ix: len(ix), lambda ix: list(ix), lambda ix: repr(ix), lambda ix: ix.iloc[0], lambda ix: ix.values_at_depth(0), lambda ix: None]
    hist = ['init%d' % k0]
    rest = labels[k0:]
    while rest:
        if rng.random() < 0.6:
            rng.choice(touches)(stale)
            hist.append('touch')
        # extend only with a block that opens a NEW outer label (what IndexHierarchyGO.extend accepts); otherwise append one by one
        j = 1
        while j < len(rest) and rest[j][0] == rest[0][0]:
            j += 1
        seen_outer = rest[0][0] in [l[0] for l in labels[:n - len(rest)]]
        if not seen_outer and j >= 2 and rng.random() < 0.5:
            stale.extend(sf.IndexHierarchy.from_labels(rest[:j]))
            hist.append('extend%d' % j)
            rest = rest[j:]
        else:
            stale.append(rest[0])
            hist.append('append')
            rest = rest[1:]
    fresh = sf.IndexHierarchyGO.from_labels(labels)
    absent = [('Z', 1) if depth == 2 else ('Z', 1, 'x'), (labels[0][0], 77) if depth == 2 else (labels[0][0], 77, 'x')]
    return stale, fresh, _hier_methods(labels, absent, depth), {'kind': 'IndexHierarchyGO:%d' % depth, 'labels': [P.enc(l) for l in labels], 'history': hist}


def lazy_pair(rng):
    '''a static IndexHierarchy that has never been read (its label table is built on first use) next to one whose table was materialised:
    the same abstraction - what is cached is not state - on the static side'''
    depth = rng.choice([2, 2, 3])
    outers = rng.sample(['A', 'B', 'C', 'D'], rng.randint(1, 3))
    inner = rng.sample([1, 2, 3], rng.randint(1, 3))
    product = rng.random() < 0.5
    labels = []
    for o in outers:
        for m in (inner if product else rng.sample([1, 2, 3], rng.randint(1, 2))):
            if depth == 2:
                labels.append((o, m))
            else:
                for u in (['x', 'y'] if product else rng.sample(['x', 'y'], rng.randint(1, 2))):
                    labels.append((o, m, u))
    if len(labels) < 2:
        return hier_pair(rng)
    routes = ['labels', 'tree'] + (['product'] if product else []) + (['items_shared'] if product and depth == 2 else []) + (['items'] if depth == 2 else [])

    def build(route):
        cls = sf.IndexHierarchy
        if route == 'labels':
            return cls.from_labels(labels)
        if route == 'product':
            return cls.from_product(outers, inner) if depth == 2 else cls.from_product(outers, inner, ['x', 'y'])
        if depth == 2:
            tree = {o: [l[1] for l in labels if l[0] == o] for o in outers}
        else:
            tree = {o: {m: [l[2] for l in labels if l[0] == o and l[1] == m] for m in dict.fromkeys(l[1] for l in labels if l[0] == o)} for o in outers}
        if route == 'tree':
            return cls.from_tree(tree)
        if route == 'items_shared' and depth == 2:
            shared = sf.Index(inner)
            return cls.from_index_items((o, shared) for o in outers)
        return cls.from_index_items((o, sf.Index(tree[o])) for o in outers)
    route = rng.choice(routes)
    unread = build(route)
    read = build(rng.choice(routes))
    rng.choice([lambda ix: ix.values, lambda ix: repr(ix), lambda ix: list(ix), lambda ix: ix.iloc[0]])(read)
    absent = [('Z', 1) if depth == 2 else ('Z', 1, 'x')]
    return unread, read, _hier_methods(labels, absent, depth), {'kind': 'IndexHierarchy(unread):%d' % depth, 'labels': [P.enc(l) for l in labels], 'history': [route]}


# ---- an index DERIVED by operations against the same labels built directly ------------------------------------------------------------
def _rebuild(ix):
    labels = list(ix)
    if ix.depth > 1:
        return sf.IndexHierarchy.from_labels(labels, name=ix.name)
    if ix.__class__ in (sf.Index, sf.IndexGO):
        return sf.Index(labels, name=ix.name)
    return ix.__class__(labels, name=ix.name)


def derived_pair(rng):
    '''an index that is the RESULT of one or two public operations (selections with steps, sorts, rolls, level edits, set operations, the index of a
    Series / Frame that went through them) next to an index built directly from the same labels: results are ordinary containers'''
    kind = rng.choice(['flat_s', 'flat_i', 'auto', 'auto', 'date', 'hier2', 'hier3', 'hier3', 'hier4', 'hier4'])
    if kind == 'flat_s':
        base = sf.Index(rng.sample(['a', 'b', 'c', 'd', 'e', 'f'], rng.randint(3, 6)))
    elif kind == 'flat_i':
        base = sf.Index(rng.sample(range(20), rng.randint(3, 6)))
    elif kind == 'auto':
        base = sf.Series(list(range(rng.randint(3, 7)))).index
    elif kind == 'date':
        base = sf.IndexDate(sorted('2020-01-%02d' % d for d in rng.sample(range(1, 28), rng.randint(3, 6))))
    else:
        depth = int(kind[-1])
        pools = [['A', 'B', 'C'], [1, 2, 3], ['x', 'y'], [10, 20]][:depth]
        labels = []

        def rec(prefix, d):
            if d == depth:
                labels.append(tuple(prefix))
                return
            for v in rng.sample(pools[d], rng.randint(1, len(pools[d]))):
                rec(prefix + [v], d + 1)
        rec([], 0)
        labels = labels[:9]
        if len(labels) < 2:
            labels = [tuple(p[0] for p in pools), tuple(p[-1] for p in pools)]
        base = sf.IndexHierarchy.from_labels(labels)
    n = len(base)
    hier = base.depth > 1
    via = rng.choice(['index', 'series', 'frame_index', 'frame_columns'])
    if via == 'index':
        obj = base
        get = lambda o: o
    elif via == 'series':
        obj = sf.Series(np.arange(n), index=base)
        get = lambda o: o.index
    elif via == 'frame_index':
        obj = sf.Frame(np.arange(2 * n).reshape(n, 2), index=base, columns=('p', 'q'))
        get = lambda o: o.index
    else:
        obj = sf.Frame(np.arange(2 * n).reshape(2, n), index=('p', 'q'), columns=base)
        get = lambda o: o.columns
    col = via == 'frame_columns'
    sel = lambda o, key: (o.iloc[:, key] if col else o.iloc[key])
    steps = {
        'iloc_step2': lambda o: sel(o, slice(None, None, 2)), 'iloc_rev': lambda o: sel(o, slice(None, None, -1)), 'iloc_tail': lambda o: sel(o, slice(1, None)),
        'iloc_head': lambda o: sel(o, slice(0, max(2, n - 1))), 'iloc_list': lambda o: sel(o, sorted(rng.sample(range(n), max(2, n - 1)))),
        'iloc_mask': lambda o: sel(o, np.array([i != 1 for i in range(len(get(o)))])), 'copy': lambda o: o.copy() if via == 'index' else o,
        'rename': lambda o: o.rename('r'), 'roll': lambda o: (o.roll(1) if via == 'index' else o.roll(0 if col else 1, 1 if col else 0, include_index=not col, include_columns=col) if via.startswith('frame') else o.roll(1, include_index=True)),
        'drop_first': lambda o: (o.drop.iloc[0] if not col else o.drop.iloc[:, 0]),
    }
    if via == 'index':
        steps.update({'sort': lambda o: o.sort(), 'sort_desc': lambda o: o.sort(ascending=False), 'union_self': lambda o: o.union(o), 'intersection_self': lambda o: o.intersection(o),
                      'difference_first': lambda o: o.difference(o.iloc[:1]) if len(o) > 2 else o})
    else:
        steps.update({'sort': lambda o: (o.sort_columns() if col else o.sort_index()), 'sort_desc': lambda o: (o.sort_columns(ascending=False) if col else o.sort_index(ascending=False)),
                      'reindex_rev': lambda o: (o.reindex(columns=list(get(o))[::-1]) if col else o.reindex(list(get(o))[::-1])) if not hier else o})
    if hier:
        ax = {'columns': 'Z'} if col else {'index': 'Z'}
        steps.update({'level_add': lambda o: o.level_add('Z') if via == 'index' else (o.relabel_level_add('Z') if via == 'series' else o.relabel_level_add(**ax)),
                      'level_drop_leaf': lambda o: (o.level_drop(-1) if via == 'index' else o.relabel_level_drop(-1) if via == 'series' else o.relabel_level_drop(**{list(ax)[0]: -1})),
                      'level_drop_outer': lambda o: (o.level_drop(1) if via == 'index' else o.relabel_level_drop(1) if via == 'series' else o.relabel_level_drop(**{list(ax)[0]: 1})),
                      'rehierarch': lambda o: (o.rehierarch(list(range(get(o).depth))[::-1]) if via in ('index', 'series') else o.rehierarch(**{list(ax)[0]: list(range(get(o).depth))[::-1]}))})
    hist = [kind, via]
    level_steps = [k for k in steps if k.startswith('level_') or k == 'rehierarch']
    for _ in range(rng.randint(1, 2)):
        name = rng.choice(level_steps) if level_steps and rng.random() < 0.5 else rng.choice(sorted(steps))
        obj = steps[name](obj)          # (a step the labels do not admit - duplicates after a leaf is dropped, say - raises: the event is then a history that raised, on both sides)
        hist.append(name)
    derived = get(obj)
    if len(derived) < 1:
        raise ValueError('empty')
    rebuilt = _rebuild(derived)
    labels = list(derived)
    if derived.depth > 1:
        absent = [tuple(['Q'] + list(labels[0][1:]))]
        methods = _hier_methods(labels, absent, derived.depth)
    else:
        absent = ['zz' if isinstance(labels[0], str) else (np.datetime64('1999-01-01') if kind == 'date' else 999)]
        methods = _flat_methods(labels, absent)
        methods.pop('equals_fresh', None)
    methods.pop('equals_fresh', None)
    if rng.random() < 0.5:          # half of the calls are lookups: positions are where a derived index keeps hidden state (offsets, maps, the map-less form)
        methods = {k: v for k, v in methods.items() if k.startswith(('contains', 'loc_to_iloc', 'iloc_', 'values', 'loc_', 'positions', 'reversed'))}
    return derived, rebuilt, methods, {'kind': 'derived:' + kind, 'labels': [P.enc(l) for l in labels], 'history': hist}


# ---- a Frame that is the RESULT of operations against the same table built directly ------------------------------------------------
FRAME_STEPS = {
    'iloc_cols_step': lambda f: f.iloc[:, ::2], 'iloc_cols_rev': lambda f: f.iloc[:, ::-1], 'iloc_rows_rev': lambda f: f.iloc[::-1], 'iloc_block': lambda f: f.iloc[1:, 1:] if min(f.shape) > 1 else f,
    'cols_list': lambda f: f[list(f.columns)[::-1][:max(1, f.shape[1] - 1)]], 'drop_col': lambda f: f.drop.iloc[:, 0] if f.shape[1] > 1 else f, 'transpose': lambda f: f.T,
    'sort_columns_desc': lambda f: f.sort_columns(ascending=False), 'sort_index_desc': lambda f: f.sort_index(ascending=False), 'roll': lambda f: f.roll(1, 1), 'shift': lambda f: f.shift(1, 0, fill_value=0),
    'assign_col': lambda f: f.assign[f.columns[0]](0), 'assign_iloc': lambda f: f.assign.iloc[0, 0](7), 'astype_float': lambda f: f.astype(float), 'fillna': lambda f: f.fillna(0), 'neg': lambda f: -f,
    'add_self': lambda f: f + f, 'clip': lambda f: f.clip(lower=0, upper=3), 'round': lambda f: round(f, 1), 'reindex_cols': lambda f: f.reindex(columns=list(f.columns)[::-1]),
    'insert_after': lambda f: f.insert_after(f.columns[-1], f.iloc[:, :1].relabel(columns=('ins',))), 'from_concat_rows': lambda f: sf.Frame.from_concat((f, f.relabel(index=lambda l: ('z', l)))),
    'from_concat_cols': lambda f: sf.Frame.from_concat((f, f.relabel(columns=lambda l: ('z', l))), axis=1), 'head': lambda f: f.head(2), 'mask_fill': lambda f: f.fillna(1).cumsum(),
    'rename': lambda f: f.rename('r'), 'relabel_cols': lambda f: f.relabel(columns=lambda c: ('k', c)), 'dropna_cols': lambda f: f.dropna(axis=1, condition=np.all), 'isna': lambda f: f.isna(),
    'set_index': lambda f: f.set_index(f.columns[0], drop=True) if f.shape[1] > 1 and f.iloc[:, 0].isna().sum() == 0 and len(set(f.iloc[:, 0].values.tolist())) == len(f) else f,
}


def frame_derived_pair(rng):
    '''EXPLORATORY, not wired into any check: a numeric Frame (some block layout) taken through one to three public operations, against a Frame built
    directly from the labels and columns the result shows.  On the unchanged tree it differs only where the block LAYOUT is observable by design or by a
    known finding (bloc order, the dtype a fill / clip leaves in a multi-column block), which the C03 sweep already classifies; kept for the next round.'''
    from . import common as C
    f0 = C.rand_frame(rng, 4, 5, kinds=rng.choice(['if', 'i', 'f', 'ifb']), min_rows=1, min_cols=1, na=rng.choice([0.0, 0.3]), index_kind=rng.choice(['str', 'int']), columns_kind='str', name=False)
    lay = C.rand_layout(rng, f0)
    d = P.build_frame(f0, lay)
    hist = []
    for _ in range(rng.randint(1, 3)):
        name = rng.choice(sorted(FRAME_STEPS))
        d = FRAME_STEPS[name](d)
        hist.append(name)
    if d.shape[0] < 1 or d.shape[1] < 1:
        raise ValueError('empty')
    arrays = [a.copy() for a in P.raw_columns(d)]
    for a in arrays:
        a.flags.writeable = False
    rebuilt = sf.Frame.from_items(zip(range(len(arrays)), arrays), index=sf.Index(list(d.index), name=d.index.name) if d.index.depth == 1 else d.index.__class__.from_labels(list(d.index), name=d.index.name), name=d.name)
    cols = sf.Index(list(d.columns), name=d.columns.name) if d.columns.depth == 1 else d.columns.__class__.from_labels(list(d.columns), name=d.columns.name)
    rebuilt = rebuilt.relabel(columns=cols)
    labels = list(d.columns)
    last, first = labels[-1], labels[0]
    methods = {
        'values': lambda f: f.values, 'shape': lambda f: f.shape, 'dtypes': lambda f: f.dtypes, 'iloc_last_col': lambda f: f.iloc[:, -1], 'iloc_cols_rev': lambda f: f.iloc[:, ::-1], 'loc_last': lambda f: f.loc[:, last],
        'row0': lambda f: f.iloc[0], 'transpose': lambda f: f.T, 'iter_array0': lambda f: list(f.iter_array(axis=0)), 'iter_array1': lambda f: list(f.iter_array(axis=1)), 'to_pairs0': lambda f: f.to_pairs(0),
        'sort_columns': lambda f: f.sort_columns(), 'drop_last': lambda f: f.drop[last], 'assign_last': lambda f: f.assign[last](0), 'astype_float': lambda f: f.astype(float), 'fillna': lambda f: f.fillna(0),
        'isna': lambda f: f.isna(), 'roll_cols': lambda f: f.roll(0, 1), 'shift_cols': lambda f: f.shift(0, 1, fill_value=0), 'neg': lambda f: -f, 'add1': lambda f: f + 1, 'eq_self': lambda f: (f == f).values,
        'reindex_rev': lambda f: f.reindex(columns=labels[::-1]), 'from_concat_self': lambda f: sf.Frame.from_concat((f, f), axis=1, columns=range(2 * len(labels))), 'iter_element_items': lambda f: list(f.iter_element_items()),
        'bloc': lambda f: f.bloc[f.notna()], 'assign_bloc': lambda f: f.assign.bloc[f.isna()](0), 'equals_rebuilt': lambda f: f.equals(rebuilt, compare_dtype=True), 'insert_before': lambda f: f.insert_before(first, f.iloc[:, :1].relabel(columns=('nw',))),
        'to_frame_go_grow': lambda f: _grown(f), 'pickle': lambda f: pickle.loads(pickle.dumps(f)), 'clip': lambda f: f.clip(lower=0, upper=2), 'iloc_cell_last': lambda f: f.iloc[-1, -1], 'count': lambda f: f.count(),
        'head': lambda f: f.head(1), 'contains': lambda f: [c in f.columns for c in labels], 'columns_loc_to_iloc': lambda f: f.columns.loc_to_iloc(last), 'index_loc_to_iloc': lambda f: f.index.loc_to_iloc(f.index.values[-1] if f.index.depth == 1 else tuple(f.index.values[-1])),
    }
    return d, rebuilt, methods, {'kind': 'derived_frame', 'labels': [P.enc(l) for l in labels], 'history': hist + [str(lay)]}


def _grown(f):
    g = f.to_frame_go()
    g['__new__' if f.columns.depth == 1 else tuple(['__new__'] * f.columns.depth)] = np.arange(len(f.index))
    return g


# ---- grow-only Frames -----------------------------------------------------------------------------------------------------------
def _frame_methods(cols, hier):
    last = cols[-1]
    first = cols[0]
    m = {
        'values': lambda f: f.values, 'shape': lambda f: f.shape, 'columns': lambda f: list(f.columns), 'columns_values': lambda f: f.columns.values, 'dtypes': lambda f: f.dtypes,
        'iloc_last_col': lambda f: f.iloc[:, -1], 'iloc_cols_rev': lambda f: f.iloc[:, ::-1], 'loc_last': lambda f: f.loc[:, last], 'getitem_last': lambda f: f[last],
        'sort_columns': lambda f: f.sort_columns(), 'sort_columns_desc': lambda f: f.sort_columns(ascending=False), 'transpose': lambda f: f.T, 'to_frame': lambda f: f.to_frame(),
        'to_frame_go': lambda f: f.to_frame_go(), 'to_frame_he': lambda f: f.to_frame_he(), 'iter_array0': lambda f: list(f.iter_array(axis=0)),
        'iter_series0': lambda f: [s.name for s in f.iter_series(axis=0)], 'iter_tuple1': lambda f: [tuple(t) for t in f.iter_tuple(axis=1, constructor=tuple)],
        'sum0': lambda f: f.sum(), 'sum1': lambda f: f.sum(axis=1), 'head': lambda f: f.head(1), 'reindex_rev': lambda f: f.reindex(columns=cols[::-1]),
        'drop_last': lambda f: f.drop[last], 'drop_iloc_first': lambda f: f.drop.iloc[:, 0], 'rename': lambda f: f.rename('r'), 'relabel_same': lambda f: f.relabel(columns=lambda c: c),
        'astype_float': lambda f: f.astype(float), 'equals_fresh_values': lambda f: f.values.tolist(), 'to_pairs0': lambda f: f.to_pairs(0), 'row0': lambda f: f.iloc[0],
        'pickle': lambda f: pickle.loads(pickle.dumps(f)), 'deepcopy': lambda f: copy.deepcopy(f), 'round': lambda f: round(f), 'abs': lambda f: abs(f), 'neg': lambda f: -f,
        'add1': lambda f: f + 1, 'fillna': lambda f: f.fillna(0), 'isna': lambda f: f.isna(), 'roll_cols': lambda f: f.roll(0, 1), 'shift_cols': lambda f: f.shift(0, 1, fill_value=0),
        'cumsum1': lambda f: f.cumsum(axis=1), 'loc_max1': lambda f: f.loc_max(axis=1), 'contains': lambda f: [c in f.columns for c in cols], 'len_columns': lambda f: len(f.columns),
        'columns_loc_to_iloc': lambda f: f.columns.loc_to_iloc(last), 'columns_copy': lambda f: f.columns.copy(), 'columns_static': lambda f: sf.Index(f.columns) if not hier else sf.IndexHierarchy(f.columns),
        'assign_last': lambda f: f.assign[last](0), 'mask_last': lambda f: f.mask[last], 'insert_after_last': lambda f: f.insert_after(last, f[[first]].relabel(columns=[('N', 0) if hier else 'N'])),
        'set_index_first': lambda f: f.set_index(first), 'unset_index': lambda f: f.unset_index(), 'iter_group_first': lambda f: [k for k, _ in f.iter_group_items(first)],
        'from_concat_self': lambda f: type(f).from_concat((f, f.relabel(index=lambda i: i + 100))), 'display': lambda f: len(str(f).split('\n')), 'size': lambda f: f.size,
        'sort_values_last': lambda f: f.sort_values(last, ascending=False), 'clip': lambda f: f.clip(lower=0, upper=3), 'isin': lambda f: f.isin([1]), 'count': lambda f: f.count(),
        'drop_duplicated1': lambda f: f.drop_duplicated(axis=1), 'bloc': lambda f: f.bloc[f > 1], 'via_T_add': lambda f: f.via_T + sf.Series(np.arange(len(f.index)), index=f.index),
    }
    if hier:
        m.update({'columns_level_add': lambda f: f.relabel_level_add(columns='Z'), 'columns_flat': lambda f: f.relabel_flat(columns=True), 'hloc_outer': lambda f: f.loc[:, HLoc[last[0]]],
                  'columns_values_at_depth': lambda f: f.columns.values_at_depth(1), 'columns_rehierarch': lambda f: f.rehierarch(columns=[1, 0]),
                  'columns_label_widths': lambda f: list(f.columns.label_widths_at_depth(0)), 'pivot_stack': lambda f: f.pivot_stack()})
    return m


def frame_pair(rng):
    hier = rng.random() < 0.5
    if hier:
        cols = []
        for o in rng.sample(['A', 'B', 'C'], rng.randint(1, 3)):
            for m in rng.sample([1, 2, 3], rng.randint(1, 2)):
                cols.append((o, m))
        if len(cols) < 2:
            cols.append((cols[0][0], 9))
    else:
        cols = rng.sample(['a', 'b', 'c', 'd', 'e'], rng.randint(2, 4))
    nr = rng.randint(1, 3)
    data = {c: np.array([rng.randint(0, 4) for _ in range(nr)], dtype=np.int64) for c in cols}
    k0 = rng.randint(1, len(cols) - 1)

    def build(cs):
        if hier:
            return sf.FrameGO.from_items(((c, data[c]) for c in cs), columns_constructor=sf.IndexHierarchyGO.from_labels)
        return sf.FrameGO.from_items((c, data[c]) for c in cs)
    stale = build(cols[:k0])
    touches = [lambda f: f.columns.values, lambda f: repr(f), lambda f: f.values, lambda f: len(f.columns), lambda f: list(f.columns), lambda f: f.iloc[:, 0], lambda f: None]
    hist = ['init%d' % k0]
    rest = cols[k0:]
    while rest:
        if rng.random() < 0.6:
            rng.choice(touches)(stale)
            hist.append('touch')
        if not hier and len(rest) >= 2 and rng.random() < 0.3:
            stale.extend_items((c, data[c]) for c in rest[:2])
            hist.append('extend_items2')
            rest = rest[2:]
        else:
            stale[rest[0]] = data[rest[0]]
            hist.append('setitem')
            rest = rest[1:]
    fresh = build(cols)
    return stale, fresh, _frame_methods(cols, hier), {'kind': 'FrameGO:' + ('hier' if hier else 'flat'), 'labels': [P.enc(c) for c in cols], 'history': hist}


FRAME_AUTO_LEFT_OUT = {'sum', 'prod', 'min', 'max', 'mean', 'median', 'std', 'var', 'all', 'any', 'cumsum', 'cumprod', 'loc_min', 'loc_max', 'iloc_min', 'iloc_max', 'cov', 'count'}
AUTO_SKIP = {'append', 'extend', 'extend_items', 'mloc', 'memory', 'interface', 'to_clipboard', 'to_hdf5', 'to_parquet', 'to_arrow', 'to_xarray', 'to_pandas', 'to_xlsx', 'to_sqlite',
             'to_html_datatables', 'to_npz', 'to_npy', 'to_msgpack', 'to_pickle', 'to_csv', 'to_tsv', 'to_delimited', 'to_latex', 'to_html', 'to_markdown', 'to_rst', 'to_json', 'sample'}


def _auto_methods(obj):
    '''every public attribute of the class, read (and called without arguments when callable; iterators are run): found, not listed'''
    def mk(name):
        def fn(o):
            v = getattr(o, name)
            if callable(v) and not isinstance(v, type):
                v = v()
            return v
        return fn
    return {'auto:' + a: mk(a) for a in dir(obj) if not a.startswith('_') and a not in AUTO_SKIP}


# ---- a Bus over a store, loaded piecemeal under max_persist, against a Bus holding the same Frames in memory ------------------------
# (what is loaded is observable by design through status / dtypes / shapes / mloc / nbytes / display; relabelling or moving the Frames of a Bus that is
#  still backed by a store - relabel, rename, roll, shift - is outside the property: deferred Frames are later fetched under the NEW labels)
BUS_LISTED_OUT = {'dtypes', 'shapes', 'roll', 'rename', 'relabel', 'display', 'shift'}
BUS_SKIP = {'status', 'mloc', 'nbytes', 'max_persist', 'store', 'STATIC', 'dtypes', 'shapes', 'display', 'display_tall', 'display_wide', 'relabel', 'rename', 'roll', 'shift', 'name', 'to_zip_pickle', 'to_zip_csv', 'to_zip_tsv', 'to_zip_parquet', 'to_zip_npz', 'to_sqlite', 'to_hdf5', 'to_xlsx',
            'unpersist', 'from_items', 'from_frames', 'from_dict', 'from_series', 'from_concat', 'from_zip_pickle', 'from_zip_csv', 'from_zip_tsv', 'from_zip_parquet', 'from_zip_npz',
            'from_sqlite', 'from_hdf5', 'from_xlsx'}


def _bus_methods(labels):
    last, first = labels[-1], labels[0]
    return {
        'keys': lambda b: list(b.keys()), 'values': lambda b: list(b.values), 'items': lambda b: list(b.items()), 'len': len, 'iter': list, 'reversed': lambda b: list(reversed(b)),
        'getitem_last': lambda b: b[last], 'getitem_list_rev': lambda b: b[labels[::-1]], 'loc_slice': lambda b: b.loc[first:last], 'iloc_last': lambda b: b.iloc[-1],
        'iloc_rev': lambda b: b.iloc[::-1], 'iloc_list': lambda b: b.iloc[[len(labels) - 1, 0]], 'mask': lambda b: b[np.array([i % 2 == 0 for i in range(len(labels))])],
        'contains': lambda b: [l in b for l in labels + ['zz']], 'get_absent': lambda b: b.get('zz', None), 'get_last': lambda b: b.get(last), 'shapes': lambda b: b.shapes,
        'dtypes': lambda b: b.dtypes, 'index': lambda b: b.index, 'head': lambda b: b.head(1), 'tail': lambda b: b.tail(2), 'equals_twin': lambda b: b.equals(sf.Bus.from_frames(list(b.values))),
        'sort_index_desc': lambda b: b.sort_index(ascending=False), 'roll': lambda b: b.roll(1, include_index=True), 'rename': lambda b: b.rename('r'), 'drop_first': lambda b: b.drop.iloc[0],
        'drop_last_label': lambda b: b.drop[last], 'reindex_rev': lambda b: b.reindex(labels[::-1]), 'relabel': lambda b: b.relabel(lambda l: l + '_x'), 'to_series': lambda b: b.to_series(),
        'iter_element': lambda b: list(b.iter_element()), 'iter_element_items': lambda b: list(b.iter_element_items()), 'size': lambda b: b.size, 'shape': lambda b: b.shape,
        'apply_shape': lambda b: b.iter_element().apply(lambda f: f.shape), 'display': lambda b: len(str(b).split('\n')), 'shift': lambda b: len(b.shift(1, fill_value=b[first])),
    }


def bus_pair_factory(workdir):
    counter = [0]

    def bus_pair(rng):
        import os
        n = rng.randint(2, 5)
        labels = ['f%d' % i for i in rng.sample(range(9), n)]
        frames = []
        for l in labels:
            nr, nc = rng.randint(1, 3), rng.randint(1, 3)
            frames.append(sf.Frame(np.array([[rng.randint(0, 9) for _ in range(nc)] for _ in range(nr)], dtype=np.int64), index=tuple('r%d' % i for i in range(nr)),
                                   columns=tuple('c%d' % j for j in range(nc)), name=l))
        counter[0] += 1
        fp = os.path.join(workdir, 'twin%d.zip' % counter[0])
        sf.Bus.from_frames(frames).to_zip_pickle(fp)
        mp = rng.choice([None, 1, 1, 2, 3, n])
        lazy = sf.Bus.from_zip_pickle(fp, max_persist=mp)
        hist = ['max_persist=%s' % mp]
        for _ in range(rng.randint(0, 6)):
            q = rng.random()
            if q < 0.4:
                lazy[rng.choice(labels)]
                hist.append('get')
            elif q < 0.6:
                lazy.iloc[rng.randrange(n)]
                hist.append('iloc')
            elif q < 0.8:
                lazy[rng.sample(labels, rng.randint(1, n))].values
                hist.append('list')
            else:
                lazy.status
                hist.append('status')
        memory = sf.Bus.from_frames(frames)

        def cleanup():
            try:
                os.remove(fp)
            except OSError:
                pass
        info = {'kind': 'Bus:zip_pickle', 'labels': [P.enc(l) for l in labels], 'history': hist, '_cleanup': cleanup}
        return lazy, memory, {k: v for k, v in _bus_methods(labels).items() if k not in BUS_LISTED_OUT}, info
    return bus_pair


# ---- a Quilt over a lazily loaded Bus against a Quilt over the same Frames in memory --------------------------------------------------
QUILT_SKIP = {'status', 'bus', 'mloc', 'nbytes', 'STATIC', 'from_frames', 'from_items', 'from_zip_pickle', 'from_zip_csv', 'from_zip_tsv', 'from_zip_parquet', 'from_zip_npz',
              'from_sqlite', 'from_hdf5', 'from_xlsx', 'to_zip_pickle', 'to_zip_csv', 'to_zip_tsv', 'to_zip_parquet', 'to_zip_npz', 'to_sqlite', 'to_hdf5', 'to_xlsx', 'unpersist',
              'display', 'display_tall', 'display_wide'}


def _quilt_methods(rows, cols):
    last = rows[-1]
    return {
        'values': lambda q: q.values, 'shape': lambda q: q.shape, 'index': lambda q: q.index, 'columns': lambda q: q.columns, 'to_frame': lambda q: q.to_frame(),
        'iloc_last_row': lambda q: q.iloc[-1], 'iloc_rows_rev': lambda q: q.iloc[::-1], 'iloc_cell': lambda q: q.iloc[len(rows) - 1, 0], 'loc_last': lambda q: q.loc[last],
        'loc_rows': lambda q: q.loc[[rows[0], last]], 'getitem_col': lambda q: q[cols[0]], 'iter_array1': lambda q: list(q.iter_array(axis=1)), 'iter_series0': lambda q: list(q.iter_series(axis=0)),
        'iter_tuple1': lambda q: [tuple(t) for t in q.iter_tuple(axis=1, constructor=tuple)], 'head': lambda q: q.head(2), 'tail': lambda q: q.tail(2), 'size': lambda q: q.size,
        'iter_window': lambda q: list(q.iter_window(size=2)), 'iter_window_array_items': lambda q: list(q.iter_window_array_items(size=2, step=2)), 'items': lambda q: list(q.items()),
        'keys': lambda q: list(q.keys()), 'contains': lambda q: [c in q for c in cols + ['zz']], 'get': lambda q: q.get(cols[-1]), 'sum_via_frame': lambda q: q.to_frame().sum(),
        'iter_series_apply': lambda q: q.iter_series(axis=1).apply(lambda s: s.sum()), 'len': len, 'iloc_block': lambda q: q.iloc[1:, :1], 'equals_frame': lambda q: q.to_frame().equals(q.iloc[:, :]),
    }


def quilt_pair_factory(workdir):
    counter = [0]

    def quilt_pair(rng):
        import os
        n = rng.randint(2, 4)
        labels = ['f%d' % i for i in rng.sample(range(9), n)]
        cols = ['c0', 'c1', 'c2'][:rng.randint(1, 3)]
        frames, rows = [], []
        for k, l in enumerate(labels):
            nr = rng.randint(1, 3)
            ix = tuple('r%d_%d' % (k, i) for i in range(nr))
            rows += list(ix)
            frames.append(sf.Frame(np.array([[rng.randint(0, 9) for _ in cols] for _ in range(nr)], dtype=np.int64), index=ix, columns=tuple(cols), name=l))
        counter[0] += 1
        fp = os.path.join(workdir, 'qtwin%d.zip' % counter[0])
        sf.Bus.from_frames(frames).to_zip_pickle(fp)
        mp = rng.choice([None, 1, 1, 2, n])
        lazy = sf.Quilt.from_zip_pickle(fp, max_persist=mp, axis=0, retain_labels=False)
        hist = ['max_persist=%s' % mp]
        for _ in range(rng.randint(0, 4)):
            q = rng.random()
            if q < 0.5:
                lazy.iloc[rng.randrange(len(rows))]
                hist.append('row')
            elif q < 0.8:
                lazy.loc[sorted(rng.sample(rows, rng.randint(1, len(rows))), key=rows.index)]          # (in axis order: a key that revisits a member is the known finding C19-quilt-key-order)
                hist.append('rows')
            else:
                lazy.shape
                hist.append('shape')
        memory = sf.Quilt(sf.Bus.from_frames(frames), axis=0, retain_labels=False)

        def cleanup():
            try:
                os.remove(fp)
            except OSError:
                pass
        return lazy, memory, _quilt_methods(rows, cols), {'kind': 'Quilt:zip_pickle', 'labels': [P.enc(l) for l in labels], 'history': hist, '_cleanup': cleanup}
    return quilt_pair


def events(rng, n, kinds):
    '''n twin events over the given pair builders; each: one method, called on the grown container first'''
    out = []
    for i in range(n):
        mk = rng.choice(kinds)
        try:
            stale, fresh, methods, info = mk(rng)
        except Exception as e:
            if mk.__name__ in ('derived_pair', 'frame_derived_pair'):
                continue          # (a derivation the labels do not admit)
            out.append({'kind': 'twin', 'what': 'history_raised', 'info': {'builder': mk.__name__}, 'stale': json.dumps({'err': P.err_category(e), 'msg': str(e)[:80]}), 'fresh': '"built"'})
            continue
        if rng.random() < (0.15 if mk.__name__ == 'derived_pair' else 0.35):
            methods = _auto_methods(fresh)
            if mk.__name__ == 'frame_derived_pair':          # (the reductions are layout-dependent over object rows: classified under the named operations of C03 / C15)
                methods = {k: v for k, v in methods.items() if k.split(':')[1] not in FRAME_AUTO_LEFT_OUT}
            if isinstance(fresh, sf.Bus):
                methods = {k: v for k, v in methods.items() if k.split(':')[1] not in BUS_SKIP}
            if isinstance(fresh, sf.Quilt):
                methods = {k: v for k, v in methods.items() if k.split(':')[1] not in QUILT_SKIP}
        name = rng.choice(sorted(methods))
        fn = methods[name]
        a = _call(fn, stale)
        b = _call(fn, fresh)
        cleanup = info.pop('_cleanup', None)
        if cleanup:
            cleanup()
        out.append({'kind': 'twin', 'what': name, 'info': info, 'stale': json.dumps(a, sort_keys=True, default=str), 'fresh': json.dumps(b, sort_keys=True, default=str)})
    return out
