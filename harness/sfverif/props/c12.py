'''C12 sorting: permutation of whole rows, keys ordered, stable (descending = exact reverse).
V is essential: NumPy's non-stable kinds are stable below 17 elements, so the large, tie-heavy inputs come
from the harness and TLC evaluates the declarative statement on each recorded (keys, order).'''
import json

import numpy as np

import static_frame as sf

from .. import core, project as P
from . import common as C

LAB = ['a', 'b', 'c', 'd', 'e', 'f', 'g', 'h', 'i', 'j', 'k', 'l']


def run_case(cs, layout=None):
    op = cs['op']
    asc = cs['ascending']
    try:
        if op in ('s_sort_index_key', 'f_sort_index_key'):
            kc = [[P.dec(v) for v in col] for col in cs['keycols']]
            form = cs['keyform']
            if form == 'array1':
                key = lambda ix: np.array(kc[0])
            elif form == 'array2':
                key = lambda ix: np.array(list(zip(*kc)))
            else:
                key = lambda ix: sf.IndexHierarchy.from_labels(list(zip(*kc)))
            if op == 's_sort_index_key':
                obj = P.build_series(cs['s'])
                src = cs['s']['index']
            else:
                obj = P.build_frame(cs['f'], layout)
                src = cs['f']['index']
            r = obj.sort_index(ascending=asc, key=key)
            dst = P.labels_of(r.index)
        elif op.startswith('s_'):
            s = P.build_series(cs['s'])
            if op == 's_sort_index' and cs.get('via_index'):
                # the index sorted on its own (IndexHierarchy.sort / Index.sort): the same arrangement, labels and per-depth dtypes as sort_index
                ix2 = s.index.sort(ascending=asc)
                canon = lambda lab: json.dumps([[x[0] if x[0] != 'f' or x[2] != 1 else 'i', x[1]] + list(x[2:] if not (x[0] == 'f' and x[2] == 1) else []) for x in (lab[1] if lab[0] == 't' else [lab])])
                where = {canon(l): i for i, l in enumerate(cs['s']['index'])}
                order0 = [where.get(canon(l), 0) for l in P.labels_of(ix2)]
                r = sf.Series(s.values[order0] if len(order0) else s.values, index=ix2, name=s.name)
            else:
                r = s.sort_index(ascending=asc) if op == 's_sort_index' else s.sort_values(ascending=asc)
            src, dst = cs['s']['index'], P.labels_of(r.index)
        else:
            f = P.build_frame(cs['f'], layout)
            if op == 'f_sort_index':
                r = f.sort_index(ascending=asc)
                src, dst = cs['f']['index'], P.labels_of(r.index)
            elif op == 'f_sort_columns':
                if cs.get('grown'):
                    k = len(f.columns) - cs['grown']
                    g = f.iloc[:, :k].to_frame_go()
                    if cs.get('read_first'):
                        g.columns.values
                    for lab in list(f.columns)[k:]:
                        g[lab] = f[lab].values
                    f = g
                r = f.sort_columns(ascending=asc)
                src, dst = cs['f']['columns'], P.labels_of(r.columns)
            elif op == 'f_sort_values':
                by = [P.dec(x) for x in cs['by']]
                # a key function that leaves the keys as they are, handing them back as the container it got or as a plain array
                kf = {'container': (lambda x: x), 'values': (lambda x: x.values)}.get(cs.get('keyfn'))
                r = f.sort_values(by if len(by) > 1 else by[0], ascending=asc, **({'key': kf} if kf else {}))
                src, dst = cs['f']['index'], P.labels_of(r.index)
            else:
                by = [P.dec(x) for x in cs['by']]
                kf = {'container': (lambda x: x), 'values': (lambda x: x.values)}.get(cs.get('keyfn'))
                r = f.sort_values(by if len(by) > 1 else by[0], ascending=asc, axis=0, **({'key': kf} if kf else {}))
                src, dst = cs['f']['columns'], P.labels_of(r.columns)
        pos = {json.dumps(l): i for i, l in enumerate(src)}
        order = [pos.get(json.dumps(l), -1) for l in dst]
        return P.proj(r), order
    except Exception as e:
        return P.proj_err(e), []


def _keyvals(rng, n, kind, distinct):
    if kind == 'i':
        return {'dt': ['i', 64], 'vals': [['i', rng.randrange(distinct)] for _ in range(n)]}
    if kind == 'f':
        from fractions import Fraction
        def fv():
            q = Fraction(rng.randrange(-distinct, distinct), rng.choice([1, 2]))
            return ['f', q.numerator, q.denominator]
        return {'dt': ['f', 64], 'vals': [['nan'] if rng.random() < 0.15 else fv() for _ in range(n)]}
    if kind == 'U':
        vs = [['s', rng.choice(['x', 'yy', 'zzz', '', 'q r'])] for _ in range(n)]
        return {'dt': ['U', 3], 'vals': vs}
    if kind == 'b':
        return {'dt': ['b', 8], 'vals': [['b', rng.randrange(2)] for _ in range(n)]}


def gen_case(rng, big=True):
    n = rng.choice([0, 1, 2, 5, 18, 33, 64, 100, 150]) if big else rng.randint(0, 6)
    r = rng.random()
    asc = rng.random() < 0.6
    if r < 0.2:
        col = _keyvals(rng, n, rng.choice('ifUb'), rng.choice([2, 3, 5]))
        s = {'index': [['i', i] for i in range(n)], 'vals': col['vals'], 'dt': col['dt'], 'name': ['s', 'nm']}
        return {'op': 's_sort_values', 's': s, 'ascending': asc}, None
    if r < 0.26 and n:
        # a hierarchical index whose depths are numeric with different dtypes (int64 above float64, or float64 above int64), sorted on its own
        n2 = min(n, 12)
        outer = [rng.randrange(4) for _ in range(n2)]
        firsts = []
        for o in outer:
            if o not in firsts:
                firsts.append(o)
        flip = rng.random() < 0.5
        rows = []
        for o in firsts:
            k = outer.count(o)
            for x in rng.sample(range(1, 40, 2), k):
                rows.append(['t', [['i', o], ['f', x, 2]]] if not flip else ['t', [['f', 2 * o + 1, 2], ['i', x]]])
        col = _keyvals(rng, len(rows), 'i', 5)
        s = {'index': rows, 'vals': col['vals'], 'dt': col['dt'], 'name': ['none']}
        return {'op': 's_sort_index', 's': s, 'ascending': asc, 'via_index': True}, None
    if r < 0.3:
        labels = [['i', x] for x in rng.sample(range(3 * n + 1), n)]
        col = _keyvals(rng, n, 'i', 5)
        s = {'index': labels, 'vals': col['vals'], 'dt': col['dt'], 'name': ['none']}
        return {'op': 's_sort_index', 's': s, 'ascending': asc}, None
    if r < 0.42:
        # sort_index with a key function returning a 1-D array, a 2-D array or an IndexHierarchy of depth 2..3
        form = rng.choice(['array1', 'array2', 'hier', 'hier'])
        depth = 1 if form == 'array1' else rng.choice([2, 3])
        n = min(n, 60)
        if form == 'hier':
            # unique tuples, equal outer labels contiguous (tree order), inner depths unsorted with ties on leading depths
            keys = []
            for o in rng.sample(['A', 'B', 'C', 'D'], rng.randint(1, 4)):
                for m in rng.sample(range(0, 4), rng.randint(1, 3)) if depth == 3 else [None]:
                    for x in rng.sample(range(0, 30), rng.randint(1, 4)):
                        keys.append((['s', o], ['i', m], ['i', x]) if depth == 3 else (['s', o], ['i', x]))
            if depth == 3:
                # the middle depth must be contiguous under its outer label as well
                pass
            keys = keys[:max(n, 1)]
            n = len(keys)
            keycols = [[k[d] for k in keys] for d in range(depth)]
        else:
            keycols = [[['i', rng.randrange(3)] for _ in range(n)] for _ in range(depth)]
        flat = rng.random() < 0.5
        labels = [['s', 'L%03d' % i] for i in range(n)] if flat else [['i', x] for x in rng.sample(range(3 * n + 1), n)]
        auto = rng.random() < 0.3          # the container's own auto-integer index (map-less): the labels ARE the positions before the sort, not after
        if auto:
            labels = [['i', i] for i in range(n)]
        if rng.random() < 0.5:
            col = _keyvals(rng, n, 'i', 5)
            s = {'index': labels, 'vals': col['vals'], 'dt': col['dt'], 'name': ['none']}
            if auto:
                s['index_auto'] = True
            return {'op': 's_sort_index_key', 's': s, 'ascending': asc, 'keyform': form, 'keycols': keycols}, None
        cols = [_keyvals(rng, n, rng.choice('if'), 3) for _ in range(2)]
        f = {'index': labels, 'columns': [['s', 'a'], ['s', 'b']], 'cols': cols, 'name': ['none']}
        if auto:
            f['index_auto'] = True
        return {'op': 'f_sort_index_key', 'f': f, 'ascending': asc, 'keyform': form, 'keycols': keycols}, C.rand_layout(rng, f)
    nk = rng.choice([1, 1, 2, 3])
    ncols = nk + rng.randint(0, 2)
    kinds = [rng.choice('iifUb') for _ in range(ncols)]
    cols = [_keyvals(rng, n, k, rng.choice([2, 3])) for k in kinds]
    cl = [['s', x] for x in rng.sample(LAB, ncols)]
    if r < 0.45:
        # hierarchical (depth 2) or flat index, sort_index
        if rng.random() < 0.5 and n:
            outer = [rng.choice(['A', 'B', 'C']) for _ in range(n)]
            labels, seen = [], set()
            for i, o in enumerate(outer):
                labels.append(['t', [['s', o], ['i', n - i]]])
            # IndexHierarchy needs tree order: group by outer keeping first appearance
            firsts = []
            for o in outer:
                if o not in firsts:
                    firsts.append(o)
            labels.sort(key=lambda t: firsts.index(t[1][0][1]))
        else:
            labels = [['i', x] for x in rng.sample(range(3 * n + 1), n)]
        f = {'index': labels, 'columns': cl, 'cols': cols, 'name': ['s', 'nm']}
        return {'op': 'f_sort_index', 'f': f, 'ascending': asc}, C.rand_layout(rng, f)
    f = {'index': [['i', i] for i in range(n)], 'columns': cl, 'cols': cols, 'name': ['s', 'nm']}
    if r < 0.55:
        if rng.random() < 0.5:
            # hierarchical column labels (tree ordered, unsorted), and - half of the time - a grow-only Frame whose last columns were added
            # after its column labels had been read: sorting must see every column the Frame holds
            nc2 = rng.randint(2, 6)
            tups = []
            for o in rng.sample(['B', 'A', 'C'], rng.randint(1, 3)):
                for x in rng.sample(range(1, 9), rng.randint(1, 3)):
                    tups.append(['t', [['s', o], ['i', x]]])
            tups = tups[:nc2]
            f = {'index': [['i', i] for i in range(n)], 'columns': tups, 'cols': [_keyvals(rng, n, 'i', 3) for _ in tups], 'name': ['s', 'nm']}
            cs = {'op': 'f_sort_columns', 'f': f, 'ascending': asc}
            if len(tups) >= 2 and rng.random() < 0.6:
                cs['grown'] = rng.randint(1, len(tups) - 1)
                cs['read_first'] = rng.random() < 0.8
            return cs, C.rand_layout(rng, f)
        return {'op': 'f_sort_columns', 'f': f, 'ascending': asc}, C.rand_layout(rng, f)
    if r < 0.9 or n == 0:
        by = rng.sample(cl, nk)
        cs = {'op': 'f_sort_values', 'f': f, 'by': by, 'ascending': asc}
        bykinds = {cols[[str(c) for c in cl].index(str(b))]['dt'][0] for b in by}
        if len(bykinds) == 1 and bykinds <= {'i', 'f'} and rng.random() < 0.5:
            cs['keyfn'] = rng.choice(['container', 'values'])
        return cs, C.rand_layout(rng, f)
    # axis 0: order the columns by the values of one or two rows (homogeneous int frame)
    m = rng.choice([3, 20, 40])
    cols = [{'dt': ['i', 64], 'vals': [['i', rng.randrange(3)] for _ in range(2)]} for _ in range(m)]
    f = {'index': [['s', 'r0'], ['s', 'r1']], 'columns': [['i', j] for j in range(m)], 'cols': cols, 'name': ['none']}
    by = rng.choice([[['s', 'r0']], [['s', 'r1'], ['s', 'r0']]])
    cs = {'op': 'f_sort_values_axis0', 'f': f, 'by': by, 'ascending': asc}
    if rng.random() < 0.5:
        cs['keyfn'] = rng.choice(['container', 'values'])
    return cs, C.rand_layout(rng, f)


def main(ctx):
    quick = ctx.tier == 'quick'
    r = ctx.model_check('MC_C12', 'MC_C12_quick.cfg' if quick else 'MC_C12_thorough.cfg', dump=True)
    if r.ok and r.dump:
        n = 0
        for cs, exp in core.cases_from_dump(r.dump):
            n += 1
            lays = P.layouts_for([c['dt'] for c in cs['f']['cols']]) if 'f' in cs else [None]
            for lay in lays:
                act, order = run_case(cs, lay)
                ctx.replayed += 1
                if act != exp:
                    ctx.violation('R', 'sort differs from the specification', case={'cs': cs, 'layout': lay}, expected=exp, actual=act)
            if n <= 2:
                ctx.sample({'leg': 'R', 'case': cs, 'expected': exp})
        ctx.exhaustive = True
    events, meta = [], {}
    for i in range(1500 if quick else 20000):
        cs, lay = gen_case(ctx.rng)
        res, order = run_case(cs, lay)
        events.append({'id': i, 'cs': cs, 'res': res, 'order': order})
        meta[i] = lay
        ctx.count('V_' + cs['op'])
    rej = ctx.validate_events('Trace_C12', 'Trace.cfg', events, chunk=40, timeout=3000)
    for ev in events:
        if ev['id'] in rej:
            ctx.violation('V', 'recorded sort violates ' + rej[ev['id']][0], case={'cs': ev['cs'], 'layout': meta[ev['id']]},
                          actual={'order': ev['order'], 'res_kind': ev['res'].get('k')}, clause=rej[ev['id']][0])
    ctx.sample({'leg': 'V', 'event_op': events[0]['cs']['op'], 'order': events[0]['order'][:20]})
    return ctx.finish(rule='M/R: every key sequence of length 3 (thorough 4) over {0,1,1/2,NaN}, one and two keys, both directions, on every layout; V: seeded random Series/Frames of 0..150 rows with 2-5 distinct key values (heavy ties), 1-3 key columns, flat and hierarchical labels, both axes; each recorded with its permutation')
