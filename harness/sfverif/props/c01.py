'''C01 immutability.
M: SFHeap (arrays / buffers / containers / caller references): AllFrozen, NoChange, CallerIsolated, ObtainedFrozen;
   negative control FilterBug.
R: TLC simulation behaviours of SFHeap replayed with real NumPy arrays and real containers (route tables per
   abstract action); plus the SFGo behaviours of C09 re-used: static containers derived from grow-only ones.
V: the interface sweep: every public name of Series / Frame / Index / IndexHierarchy (and HE / GO variants) called
   with an argument table, every live fixture deep-snapshotted before and after, every array reachable from the
   result probed for writeability; Trace_Heap checks NoChange and AllFrozen per recorded call.'''
import copy
import pickle
import types

import numpy as np

import static_frame as sf

from .. import core, project as P, tlc
from . import c09
from .goworld import World

# ---------------------------------------------------------------------------------------------
# R: SFHeap behaviours


def content(c):
    v = c.values
    return [int(x) for x in np.asarray(v).reshape(-1)]


CONSTRUCT_ROUTES = [
    lambda a: sf.Series(a),
    lambda a: sf.Series(a, index=('x', 'y')),
    lambda a: sf.Index(a),
    lambda a: sf.IndexGO(a),
    lambda a: sf.Frame(a.reshape(2, 1)),
    lambda a: sf.Frame(sf.TypeBlocks.from_blocks(a)),
    lambda a: sf.Frame.from_items((('x', a),)),
    lambda a: sf.FrameGO.from_items((('x', a),)),
    lambda a: sf.SeriesHE(a),
    lambda a: sf.Frame.from_concat((sf.Series(a, name='x'),), axis=1),
]
SHARE_ROUTES = [lambda c: c.iloc[:], lambda c: c.rename('r'), lambda c: c.iloc[0:2], lambda c: c.copy() if hasattr(c, 'copy') else c.iloc[:]]
COPY_ROUTES = [lambda c: copy.deepcopy(c), lambda c: pickle.loads(pickle.dumps(c)), lambda c: c.iloc[[0, 1]] if not isinstance(c, sf.Frame) else c.iloc[[0, 1], :]]
OBTAIN_SELF = [lambda c: c.values, lambda c: c.values]
OBTAIN_VIEW = [lambda c: c.values[:], lambda c: c.values.reshape(-1), lambda c: (c.index.values if hasattr(c, 'index') else c.values[:]) if False else c.values[::1]]


def replay_heap(ctx, states):
    arrays, conts = [], []
    hist = []
    for st in states[1:]:
        act = st['act']
        hist.append(act)
        name = act['name']
        problem = None
        try:
            if name == 'caller_new':
                a = np.array([0, 1])
                a.flags.writeable = act['w']
                arrays.append(a)
            elif name == 'construct':
                a = arrays[act['arr'] - 1]
                was_w = a.flags.writeable
                c = ctx.rng.choice(CONSTRUCT_ROUTES)(a)
                conts.append((c, content(c)))
                shared = np.shares_memory(np.asarray(c.values), a)
                if was_w and shared:
                    problem = 'writeable input array shared instead of copied'
                if len(st['arrs']) > len(arrays):
                    arrays.append(np.asarray(c.values).reshape(-1))      # the model's new array: the container's own
            elif name == 'caller_write':
                a = arrays[act['arr'] - 1]
                try:
                    a[0] = a[0] + 10
                    wrote = True
                except ValueError:
                    wrote = False
                if wrote != act['allowed']:
                    problem = 'caller write %s but the specification says %s' % ('succeeded' if wrote else 'was refused', 'allowed' if act['allowed'] else 'refused')
            elif name == 'obtain':
                c = conts[act['cont'] - 1][0]
                a = ctx.rng.choice(OBTAIN_VIEW if act['view'] else OBTAIN_SELF)(c)
                if len(st['arrs']) > len(arrays):
                    arrays.append(a.reshape(-1))
                if a.flags.writeable:
                    problem = 'array obtained from a container is writeable'
            elif name == 'derive':
                c = conts[act['cont'] - 1][0]
                d = ctx.rng.choice(SHARE_ROUTES if act['share'] else COPY_ROUTES)(c)
                conts.append((d, content(d)))
                arrays.append(np.asarray(d.values).reshape(-1))
        except Exception as e:
            problem = 'call raised %s: %s' % (type(e).__name__, str(e)[:100])
        # invariants on the real objects after every step
        if problem is None:
            for k, (c, born) in enumerate(conts):
                if content(c) != born:
                    problem = 'container %d changed: %r -> %r' % (k + 1, born, content(c))
                if np.asarray(c.values).flags.writeable:
                    problem = 'container %d holds a writeable array' % (k + 1)
        if problem:
            ctx.violation('R', 'real arrays / containers diverge from the heap specification: ' + problem, case={'history': hist}, clause='heap')
            return False
    return True


def replay_static(ctx, states):
    '''SFGo behaviour on the real code; C01 looks only at the static (non grow-only) objects: once created they never
    change, whatever is called on the objects they were derived from, and all their arrays stay read-only.'''
    w = World(states[0]['objs'][0])
    born = {}
    for k, st in enumerate(states[1:], 1):
        act = st['act']
        w.step(act)
        got, broken = w.snapshot()
        if len(got) != len(st['objs']):
            return      # a derivation failed (reported under C09): nothing more to learn here
        for i, o in enumerate(got):
            if not o['go']:
                born.setdefault(i, o)
                if o != born[i]:
                    ctx.violation('R', 'a static container changed after a call on another container', case={'history': [s['act'] for s in states[1:k + 1]], 'object': i + 1},
                                  expected=born[i], actual=o, clause='static_changed')
                    return
        bad = [b for b in broken if not got[int(b.split(':')[0][3:]) - 1]['go']]
        if bad:
            ctx.violation('R', 'integrity of a static container broken after a call on another container', case={'history': [s['act'] for s in states[1:k + 1]]},
                          actual={'broken': bad}, clause='static_integrity')
            return


# ---------------------------------------------------------------------------------------------
# V: interface sweep

def _table(ix):
    '''the label table of an index as its array routes show it (a hierarchy answers iteration from its levels and values / shape / dtypes from a
    table of its own: both are part of what a caller can observe)'''
    return {'values_shape': list(ix.values.shape), 'shape': list(ix.shape), 'depth': ix.depth,
            'dtypes': [P.enc_dtype(ix.values.dtype)] if ix.depth == 1 else [P.enc_dtype(x) for x in ix.dtypes.values],
            'row0': P.enc_array(ix.values[0]) if ix.depth > 1 and len(ix) else []}


def deep(obj):
    '''deep value snapshot of a container'''
    if isinstance(obj, sf.Frame):
        d = P.proj_frame(obj)
        d['cls'] = type(obj).__name__
        d['index_name'] = P.enc(obj.index.name)
        d['columns_name'] = P.enc(obj.columns.name)
        d['shape'] = list(obj.shape)
        d['index_table'] = _table(obj.index)
        d['columns_table'] = _table(obj.columns)
        return d
    if isinstance(obj, sf.Series):
        d = P.proj_series(obj)
        d['cls'] = type(obj).__name__
        d['index_name'] = P.enc(obj.index.name)
        d['index_table'] = _table(obj.index)
        return d
    d = P.proj_index(obj)
    d['dtype'] = P.enc_dtype(obj.values.dtype) if obj.depth == 1 else [P.enc_dtype(x) for x in obj.dtypes.values]
    d['table'] = _table(obj)
    return d


def reachable_arrays(x, depth=0, budget=None):
    '''arrays obtainable from a result'''
    if budget is None:
        budget = [40]
    out = []
    if budget[0] <= 0 or depth > 3:
        return out
    budget[0] -= 1
    try:
        if isinstance(x, np.ndarray):
            out.append(x)
        elif isinstance(x, sf.Frame):
            out += [x.values] if x.shape[1] else []
            out += list(x._blocks._blocks)
            out += reachable_arrays(x.index, depth + 1, budget) + reachable_arrays(x.columns, depth + 1, budget)
        elif isinstance(x, sf.Series):
            out += [x.values] + reachable_arrays(x.index, depth + 1, budget)
        elif isinstance(x, P.IndexBase):
            out += [x.values, x.positions]
            if x.depth > 1:
                out += [x.values_at_depth(d) for d in range(x.depth)]
        elif isinstance(x, (tuple, list)):
            for y in list(x)[:6]:
                out += reachable_arrays(y, depth + 1, budget)
        elif isinstance(x, dict):
            for y in list(x.values())[:6]:
                out += reachable_arrays(y, depth + 1, budget)
        elif isinstance(x, types.GeneratorType) or hasattr(x, '__next__'):
            for k, y in enumerate(x):
                if k >= 4:
                    break
                out += reachable_arrays(y, depth + 1, budget)
    except Exception:
        pass
    return out


def fixtures(rng):
    f = sf.Frame.from_records([[1, 1.5, 'a', True], [2, np.nan, 'b', False], [3, 3.5, 'c', True]], index=('x', 'y', 'z'), columns=('i', 'f', 's', 'b'), name='fx')
    f2 = sf.Frame(sf.TypeBlocks.from_blocks([np.arange(6).reshape(3, 2), np.array([0.5, 1.5, 2.5])]), index=sf.IndexDate.from_date_range('2020-01-01', '2020-01-03'), columns=('p', 'q', 'r'))
    ih = sf.IndexHierarchy.from_product(('A', 'B'), (1, 2), name='ih')
    f3 = sf.Frame(np.arange(8).reshape(4, 2), index=ih, columns=('u', 'v'))
    return {
        'series': sf.Series([10, 20, 30], index=('a', 'b', 'c'), name='sx'),
        'series_f': sf.Series([1.5, np.nan, 3.0], index=(1, 2, 3)),
        'series_he': sf.SeriesHE(['p', 'q'], index=(0, 1)),
        'frame': f,
        'frame_2d': f2,
        'frame_ih': f3,
        'frame_he': sf.FrameHE.from_records([[1, 2], [3, 4]], columns=('a', 'b')),
        'frame_empty': sf.Frame(index=('x',)),
        'series_auto': sf.Series([4, 5, 6, 7]),          # automatic (map-less) indices: labels are positions
        'frame_auto': sf.Frame(np.arange(6).reshape(3, 2)),
        'index': sf.Index(('a', 'b', 'c'), name='ix'),
        'index_int': sf.Index(range(4)),
        'index_date': sf.IndexDate(('2020-01-01', '2020-02-01')),
        'ih': ih,
    }


def arg_table(fx, name):
    s, f, ix = fx['series'], fx['frame'], fx['index']
    return [(), (0,), ('a',), (1,), ([0, 1],), (slice(None),), (lambda x: x,), (np.sum,), (2, 1), ('i',), (f,), (s,), (ix,), (1.5,), (('x', 'y', 'z'),),
            (np.array([True, False, True]),), ({'a': 'A'},), (float,), ('x', 's'), (['i', 'f'],), (0, 0), ((0, 1),), (None,), (sf.ILoc[0],)]


SELECTORS = ('loc', 'iloc', 'drop', 'mask', 'masked_array', 'assign', 'astype', 'bloc', 'interface')
KEYS = [0, slice(None), [0], 'a', ['a'], slice(1, None), np.array([True, False, True]), (0, 0), (slice(None), 0), 'i', ['i', 'f'], ('x', 'i'), sf.HLoc['A'], ('A', 1)]
DUNDERS = {'__add__', '__sub__', '__mul__', '__truediv__', '__floordiv__', '__mod__', '__pow__', '__eq__', '__ne__', '__lt__', '__le__', '__gt__', '__ge__',
           '__and__', '__or__', '__xor__', '__neg__', '__pos__', '__abs__', '__invert__', '__radd__', '__rsub__', '__rmul__', '__rtruediv__',
           '__rfloordiv__', '__getitem__', '__iter__', '__reversed__', '__contains__', '__len__', '__round__'}
SKIP = {'to_clipboard', 'to_hdf5', 'to_parquet', 'to_xlsx', 'to_sqlite', 'to_csv', 'to_tsv', 'to_delimited', 'to_html_datatables', 'to_msgpack', 'to_arrow',
        'to_pandas', 'from_pandas', 'to_xarray', 'to_zip_pickle', 'to_zip_csv', 'to_zip_tsv', 'to_zip_parquet', 'to_latex', 'display_wide', 'display_tall',
        'from_msgpack', 'from_hdf5', 'from_parquet', 'from_arrow', 'from_xlsx', 'from_sqlite', 'from_clipboard', 'from_csv', 'from_tsv', 'from_delimited', 'from_json_url',
        'to_html'}


def sweep(ctx, max_calls):
    fx = fixtures(ctx.rng)
    names = sorted(fx)
    events = []
    calls = []
    for tname in names:
        obj = fx[tname]
        for attr in sorted(a for a in dir(obj) if (not a.startswith('_') or a in DUNDERS) and a not in SKIP):
            calls.append((tname, attr))
    if len(calls) > max_calls:
        must = [c for c in calls if c[1].endswith('_go')]          # conversions to grow-only containers are always exercised (their results are grown below)
        calls = must + ctx.rng.sample([c for c in calls if c not in must], max(0, max_calls - len(must)))
    table_cache = arg_table(fx, None)
    base_snapshot = {k: deep(v) for k, v in fx.items()}
    fx_observed = fx
    for tname, attr in calls:
        # Containers cache lazily (a hierarchy materialises its label table on first use).  Every call on a hierarchical fixture, and a
        # fifth of the others, is therefore made on a FRESH, never observed twin; what is observable through it afterwards must be what
        # the observed twin showed before.
        fresh = tname in ('frame_ih', 'ih') or ctx.rng.random() < 0.2
        fx = fixtures(ctx.rng) if fresh else fx_observed
        if fresh:
            ctx.count('V_calls_on_unobserved_twin')
        obj = fx[tname]
        before = base_snapshot if fresh else {k: deep(v) for k, v in fx.items()}
        results = []
        outcome = 'ok'
        changed_twin = None
        twins = []
        try:
            member = getattr(obj, attr)
            results.append(member)
            if attr.startswith('iter_') or attr in SELECTORS or attr.startswith('via_'):
                for key in ctx.rng.sample(KEYS, 5):
                    try:
                        r = member[key] if attr in SELECTORS else member
                        results.append(r)
                        if callable(r):
                            for args in ctx.rng.sample(table_cache, 3):
                                try:
                                    results.append(r(*args))
                                except Exception:
                                    pass
                        if attr.startswith('iter_'):
                            try:
                                it = member() if callable(member) else member
                                results.append(list(it)[:3])
                                results.append(member(axis=1) if isinstance(obj, sf.Frame) else None)
                                results.append(member().apply(lambda x: x))
                            except Exception:
                                pass
                            break
                    except Exception:
                        pass
            elif callable(member):
                ok = 0
                for args in ctx.rng.sample(table_cache, len(table_cache)):
                    try:
                        if fresh and tname in ('frame_ih', 'ih'):
                            # every attempt is the FIRST thing that touches a never-observed twin (an attempt that raises half way may already
                            # have materialised the caches the next one would have met unset)
                            fxa = fixtures(ctx.rng)
                            twins.append(fxa)
                            results.append(getattr(fxa[tname], attr)(*args))
                        else:
                            results.append(member(*args))
                        ok += 1
                        if ok >= 3:
                            break
                    except Exception:
                        outcome = 'raised'
        except Exception:
            outcome = 'raised'
        # every grow-only container handed out by the call is GROWN (a column / a label appended): containers derived from a
        # static one - in either direction - must not share anything that growth changes
        grown = 0
        for r in _flatten_results(results):
            try:
                if isinstance(r, sf.FrameGO):
                    r['__grown__%d' % grown] = np.zeros(len(r.index), dtype=np.int64) if r.columns.depth == 1 else None
                    grown += 1
                elif isinstance(r, sf.IndexHierarchyGO):
                    r.append(tuple('__g%d' % d for d in range(r.depth)))
                    grown += 1
                elif isinstance(r, sf.IndexGO) and r.__class__ is sf.IndexGO:
                    r.append('__grown__%d' % grown)
                    grown += 1
            except Exception:
                pass
        if grown:
            ctx.count('V_results_grown', grown)
        # pickle / deepcopy round trips of the target and of some containers handed out: what comes back is read-only as well
        # (every array of it, the positions of an index that never built a label map included)
        trips = [obj] + [r for r in _flatten_results(results) if isinstance(r, (sf.Series, sf.Frame, P.IndexBase)) and ctx.rng.random() < 0.3][:4]
        for r in trips:
            try:
                results.append(pickle.loads(pickle.dumps(r)))
                results.append(copy.deepcopy(r))
                ctx.count('V_round_trips', 2)
            except Exception:
                pass
        arrays = []
        for r in results:
            arrays += reachable_arrays(r)
        own = []
        for v in fx.values():
            own += reachable_arrays(v)
        arrays += own
        flags = [bool(a.flags.writeable) for a in arrays]
        # a writeable array that aliases container data is the dangerous case: reported under its own clause
        alias = any(a.flags.writeable and any(np.shares_memory(a, o) for o in own if o.size and a.size) for a in arrays)
        for fxa in twins:          # (after the results were grown: a grow-only result may own what the twin still shows)
            snap = {k: deep(v) for k, v in fxa.items()}
            if snap != base_snapshot:
                changed_twin = snap
                break
        after = changed_twin if changed_twin is not None else {k: deep(v) for k, v in fx.items()}
        events.append({'id': len(events), 'kind': 'call', 'target': tname, 'attr': attr, 'outcome': outcome, 'before': before, 'after': after, 'flags': flags, 'wrote': False, 'alias': bool(alias)})
        ctx.count('V_calls')
        ctx.count('V_arrays_probed', len(flags))
    return events


def _flatten_results(results, depth=0):
    for r in results:
        if isinstance(r, (list, tuple)) and depth < 2:
            yield from _flatten_results(list(r)[:4], depth + 1)
        else:
            yield r


def _routes_1d(a, kind):
    '''every public way to hand a 1-D array to a constructor / functional update (name, thunk)'''
    ix3 = ('x', 'y', 'z')
    dt = a.dtype
    R = [
        ('Series', lambda: sf.Series(a)),
        ('Series_dtype_same', lambda: sf.Series(a, dtype=dt)),
        ('Series_index', lambda: sf.Series(a, index=ix3)),
        ('SeriesHE', lambda: sf.SeriesHE(a)),
        ('Series_from_concat', lambda: sf.Series.from_concat((sf.Series(a), sf.Series(a, index=(7, 8, 9))))),
        ('Frame_from_items', lambda: sf.Frame.from_items((('x', a),))),
        ('Frame_from_items_dtypes_same', lambda: sf.Frame.from_items((('x', a),), dtypes=dt)),
        ('Frame_from_items_dtypes_map', lambda: sf.Frame.from_items((('x', a), ('y', a)), dtypes={'x': dt})),
        ('Frame_from_dict', lambda: sf.Frame.from_dict({'x': a, 'y': a})),
        ('Frame_from_dict_dtypes_same', lambda: sf.Frame.from_dict({'x': a}, dtypes=(dt,))),
        ('Frame_from_fields', lambda: sf.Frame.from_fields((a, a), columns=('p', 'q'))),
        ('Frame_from_fields_dtypes_same', lambda: sf.Frame.from_fields((a,), columns=('p',), dtypes=dt)),
        ('Frame_from_records_rows', lambda: sf.Frame.from_records((a, a))),
        ('FrameGO_from_items', lambda: sf.FrameGO.from_items((('x', a),))),
        ('FrameGO_setitem', lambda: _go_set(a)),
        ('FrameGO_extend_items', lambda: _go_extend(a)),
        ('Frame_from_concat_series', lambda: sf.Frame.from_concat((sf.Series(a, name='x'),), axis=1)),
        ('Frame_from_series', lambda: sf.Frame.from_series(sf.Series(a, name='x'))),
        ('TypeBlocks_from_blocks', lambda: sf.Frame(sf.TypeBlocks.from_blocks(a))),
        ('TypeBlocks_from_blocks_two', lambda: sf.Frame(sf.TypeBlocks.from_blocks((a, a)))),
        ('Frame_assign_column', lambda: sf.Frame.from_dict({'x': (0, 0, 0)}).assign['x'](a)),
        ('Frame_assign_new_iloc', lambda: sf.Frame.from_dict({'x': (0, 0, 0), 'y': (1, 1, 1)}).assign.iloc[:, 1](a)),
        ('Frame_insert_after', lambda: sf.Frame.from_dict({'x': (0, 0, 0)}).insert_after('x', sf.Series(a, name='n'))),
        ('Series_assign_all', lambda: sf.Series((0, 0, 0)).assign[:](a)),
        ('Series_to_frame', lambda: sf.Series(a, name='x').to_frame()),
        ('Series_to_frame_go', lambda: sf.Series(a, name='x').to_frame_go()),
    ]
    if kind != 'obj':
        R += [
            ('Index', lambda: sf.Index(a)),
            ('Index_dtype_same', lambda: sf.Index(a, dtype=dt)),
            ('IndexGO', lambda: sf.IndexGO(a)),
            ('Series_index_array', lambda: sf.Series(range(3), index=a)),
            ('Frame_index_array', lambda: sf.Frame.from_dict({'x': (0, 0, 0)}, index=a)),
            ('Frame_columns_array', lambda: sf.Frame.from_records(((0, 0, 0),), columns=a)),
            ('Series_relabel_array', lambda: sf.Series((1, 2, 3)).relabel(a)),
            ('Frame_relabel_array', lambda: sf.Frame.from_dict({'x': (0, 0, 0)}).relabel(index=a)),
            ('Series_reindex_array', lambda: sf.Series((1, 2, 3), index=a.copy()).reindex(a)),
            ('IndexHierarchy_from_index_items', lambda: sf.IndexHierarchy.from_index_items((('A', sf.Index(a)),))),
        ]
    if kind in ('int', 'str'):
        R += [('IndexHierarchy_from_labels_zip', lambda: sf.IndexHierarchy.from_labels(zip(a, a))),
              ('IndexHierarchy_from_product', lambda: sf.IndexHierarchy.from_product(a, ('p', 'q')))]
    if kind == 'date':
        R += [('IndexDate', lambda: sf.IndexDate(a)), ('IndexDateGO', lambda: sf.IndexDateGO(a))]
    return R


def _go_set(a):
    f = sf.FrameGO.from_dict({'x': (0, 0, 0)})
    f['z'] = a
    return f


def _go_extend(a):
    f = sf.FrameGO.from_dict({'x': (0, 0, 0)})
    f.extend_items((('z', a), ('w', a)))
    return f


def _routes_2d(a):
    dt = a.dtype
    return [
        ('Frame', lambda: sf.Frame(a)),
        ('Frame_columns', lambda: sf.Frame(a, columns=('p', 'q'))),
        ('FrameGO', lambda: sf.FrameGO(a)),
        ('FrameHE', lambda: sf.FrameHE(a)),
        ('Frame_from_records_2d', lambda: sf.Frame.from_records(a)),
        ('Frame_from_records_2d_dtypes_same', lambda: sf.Frame.from_records(a, dtypes=(dt, dt))),
        ('TypeBlocks_2d', lambda: sf.Frame(sf.TypeBlocks.from_blocks(a))),
        ('Frame_from_concat_frames', lambda: sf.Frame.from_concat((sf.Frame(a),))),
        ('Frame_from_concat_arrays_cols', lambda: sf.Frame.from_concat((sf.Frame(a), sf.Frame(a, columns=('p', 'q'))), axis=1)),
        ('IndexHierarchy_from_labels_2d', lambda: sf.IndexHierarchy.from_labels(a)),
        ('IndexHierarchy_from_type_blocks', lambda: sf.IndexHierarchy._from_type_blocks(sf.TypeBlocks.from_blocks(a))),
        ('Frame_assign_block', lambda: sf.Frame.from_records(((0, 0), (0, 0), (0, 0))).assign.iloc[:, :](a)),
        ('Frame_structured', lambda: sf.Frame.from_structured_array(_structured(a))),
    ]


_STRUCT = {}


def _structured(a):
    '''a structured array that shares nothing with a; the caller then writes into THIS array (kept in _STRUCT)'''
    sa = np.array([(int(r[0]), float(r[1])) for r in a.tolist()], dtype=[('p', np.int64), ('q', np.float64)])
    _STRUCT['sa'] = sa
    return sa


def caller_write_events(ctx, n, start):
    '''arrays supplied by the caller: a later write (directly, or through the base the supplied array is a view of) must never be visible,
    and the constructor must not have changed the caller's array'''
    events = []
    rng = ctx.rng
    for i in range(n):
        if rng.random() < 0.08:
            # a 0-dimensional array handed over as the value to spread over an index
            a = rng.choice([np.array(3), np.array(1.5), np.array('ab'), np.array(True), np.array('2020-01-01', dtype='datetime64[D]')])
            name, thunk = rng.choice([('Series_0d_index', lambda: sf.Series(a, index=('x', 'y', 'z'))), ('SeriesHE_0d_index', lambda: sf.SeriesHE(a, index=('x', 'y'))),
                                      ('Series_0d_hier', lambda: sf.Series(a, index=sf.IndexHierarchy.from_product(('p', 'q'), (1, 2)))),
                                      ('Series_0d_to_frame', lambda: sf.Series(a, index=('x', 'y'), name='n').to_frame()),
                                      ('Frame_from_element_0d', lambda: sf.Frame.from_element(a, index=('x', 'y'), columns=('p',))),
                                      ('Series_from_element_0d', lambda: sf.Series.from_element(a, index=('x', 'y')))])
            before_a = a.copy()
            try:
                c = thunk()
            except Exception:
                ctx.count('V_caller_route_rejected')
                continue
            before = {'c': deep(c)}
            touched = not a.flags.writeable or not _same_array(a, before_a)
            a[()] = {'i': 99, 'f': -7.25, 'U': 'zz', 'b': False, 'M': np.datetime64('1999-09-09')}[a.dtype.kind]
            after = {'c': deep(c)}
            events.append({'id': start + len(events), 'kind': 'caller_write', 'target': '0d', 'attr': 'construct:' + name + ':own', 'outcome': 'ok', 'before': before, 'after': after,
                           'flags': [bool(x.flags.writeable) for x in reachable_arrays(c)], 'wrote': bool(after != before), 'alias': False, 'touched': bool(touched)})
            ctx.count('V_caller_write')
            ctx.count('V_caller_mode_0d')
            continue
        kind = rng.choice(['int', 'float', 'str', 'obj', 'date', '2d', '2d'])
        proto = {'int': np.array([1, 2, 3]), 'float': np.array([1.5, 2.5, 3.5]), 'str': np.array(['a', 'b', 'c']), 'obj': np.array([1, 'x', None], dtype=object),
                 'date': np.array(['2020-01-01', '2020-01-02', '2020-01-03'], dtype='datetime64[D]'), '2d': np.arange(6).reshape(3, 2)}[kind]
        mode = rng.choice(['own', 'own', 'view_col', 'view_slice', 'readonly'])
        if kind == '2d':
            base = np.zeros((5, 2), dtype=proto.dtype)
            base[1:4] = proto
            a = base[1:4] if mode.startswith('view') else proto.copy()
        else:
            if mode == 'view_col':
                base = np.empty((3, 2), dtype=proto.dtype)
                base[:, 0] = proto
                base[:, 1] = proto
                a = base[:, 0]
            elif mode == 'view_slice':
                base = np.concatenate([proto, proto])
                a = base[0:3]
            else:
                base = None
                a = proto.copy()
        if mode == 'readonly':
            a.flags.writeable = False
        _STRUCT.clear()
        name, thunk = rng.choice(_routes_2d(a) if kind == '2d' else _routes_1d(a, kind))
        before_a = a.copy()
        w_before = bool(a.flags.writeable)
        try:
            c = thunk()
        except Exception as e:  # a route that does not take this dtype / shape: not a caller-write case
            ctx.count('V_caller_route_rejected')
            continue
        before = {'c': deep(c)}
        # (1) the call itself must leave the caller's array as it was (content and flag)
        touched = bool(a.flags.writeable) != w_before or not _same_array(a, before_a)
        # (2) later writes by the caller
        wrote_visible = False
        target = _STRUCT.get('sa')
        if target is not None:
            target['p'][0] = 77
            target['q'][1] = -1.0
        elif mode.startswith('view'):
            if base.ndim == 2 and kind != '2d':
                base[0, 0] = base[1, 0]
                base[2, 0] = base[1, 0]
            elif kind == '2d':
                base[1, 0] = 99
                base[3, 1] = 98
            else:
                base[0] = base[1]
                base[2] = base[1]
        elif a.flags.writeable:
            if a.ndim == 1:
                a[0] = a[1]
                a[2] = a[1]
            else:
                a[0, 0] = 99
                a[2, 1] = 98
        wrote_visible = deep(c) != before['c']
        after = {'c': deep(c)}
        flags = [bool(x.flags.writeable) for x in reachable_arrays(c)]
        ev = {'id': start + len(events), 'kind': 'caller_write', 'target': kind, 'attr': 'construct:' + name + ':' + mode, 'outcome': 'ok', 'before': before, 'after': after,
              'flags': flags, 'wrote': bool(wrote_visible), 'alias': False, 'touched': bool(touched)}
        events.append(ev)
        ctx.count('V_caller_write')
        ctx.count('V_caller_mode_' + mode)
    return events


def _same_array(x, y):
    if x.dtype.kind == 'O':
        return x.tolist() == y.tolist()
    return bool(np.array_equal(x, y, equal_nan=True) if x.dtype.kind in 'fc' else np.array_equal(x, y))


def main(ctx):
    quick = ctx.tier == 'quick'
    # the shared positions buffer (PositionsAllocator) is re-allocated the first time an index needs more than its initial capacity:
    # every container built afterwards holds a view of the NEW buffer, so make that happen before any fixture exists
    big = sf.Index(np.arange(3000) * 2, name='big')
    if big.positions.flags.writeable or big.values.flags.writeable:
        ctx.violation('V', 'an index of 3000 labels hands out a writeable array', case={'target': 'Index(3000 labels)', 'attr': 'positions / values'}, clause='writeable_array')
    ctx.model_check('MC_C01', 'MC_C01_quick.cfg' if quick else 'MC_C01_thorough.cfg', timeout=6000, heap='12g')
    ctx.model_check('MC_C01', 'MC_C01_neg.cfg', expect_violation='AllFrozen', coverage=False)
    behaviours, out = tlc.simulate('MC_C01', 'MC_C01_thorough.cfg', num=300 if quick else 5000, depth=10, seed=ctx.seed % 100000)
    if not behaviours:
        ctx.machinery('TLC simulation produced no behaviour: ' + out[-500:])
    for b in behaviours:
        replay_heap(ctx, b)
        ctx.replayed += 1
    if behaviours:
        ctx.sample({'leg': 'R', 'behaviour': [s['act'] for s in behaviours[0][1:]]})
    # static containers derived from grow-only ones (the SFGo behaviours of C09): a static object never changes
    gob, out2 = tlc.simulate('MC_C09', 'MC_C09_sim.cfg', num=150 if quick else 3000, depth=9, seed=(ctx.seed + 7) % 100000)
    for b in gob:
        replay_static(ctx, b)
        ctx.replayed += 1
    # ---- V
    events = sweep(ctx, 2000 if quick else 100000)
    events += caller_write_events(ctx, 600 if quick else 12000, len(events))
    slim = [dict({k: ev[k] for k in ('id', 'kind', 'before', 'after', 'flags', 'wrote', 'alias')}, touched=bool(ev.get('touched', False))) for ev in events]
    rej = ctx.validate_events('Trace_Heap', 'Trace.cfg', slim, chunk=120)
    for ev in events:
        if ev['id'] in rej:
            changed = [k for k in ev['before'] if ev['before'][k] != ev['after'].get(k)]
            ctx.violation('V', 'call %s.%s violates %s' % (ev['target'], ev['attr'], rej[ev['id']][0]),
                          case={'target': ev['target'], 'attr': ev['attr'], 'changed': changed, 'writeable_arrays': sum(ev['flags'])},
                          expected={k: ev['before'][k] for k in changed}, actual={k: ev['after'][k] for k in changed}, clause=rej[ev['id']][0])
    ctx.sample({'leg': 'V', 'call': {k: events[0][k] for k in ('target', 'attr', 'outcome')}, 'arrays_probed': len(events[0]['flags'])})
    return ctx.finish(rule='M: SFHeap exhaustive (<=5 arrays, <=3 containers; thorough 6/4); R: simulation behaviours of SFHeap on real arrays/containers over route tables + SFGo behaviours (static objects derived from grow-only ones); V: interface sweep: every public name of 12 fixtures (Series/Frame/Index/IndexHierarchy/HE/GO, every dtype kind, 2-D blocks, hierarchical and date labels) called with an argument table (quick: 450 sampled names), all fixtures deep-snapshotted before/after, every array reachable from every result probed; plus caller-supplied arrays (own, read-only, or views of a base the caller keeps) handed to ~50 constructor / functional-update routes (with and without a matching dtype argument), then written directly or through the base: never visible, and the call must not change the array of the caller or its flag')
