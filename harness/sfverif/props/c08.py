'''C08 functional updates: assign / drop / mask / astype / relabel / rename / insert.'''
from . import common as C, ops

run_case = ops.run_case
ELEMS = [['i', 7], ['f', 1, 2], ['nan'], ['none'], ['s', 'xyz'], ['b', 1], ['i', 0], ['s', 'q']]


def _sorted_list_key(rng, n):
    k = rng.randint(0, n)
    return ['list', sorted(rng.sample(range(n), k))]


def rand_value_for(rng, f, rk, ck, via):
    '''A value whose shape fits the key (element always fits).'''
    r = rng.random()
    if r < 0.4:
        return ['elem', rng.choice(ELEMS)]
    single_r = rk[0] in ('int', 'loc') or (rk[0] == 'iloc' and rk[1][0] == 'int')
    single_c = ck[0] in ('int', 'loc') or (ck[0] == 'iloc' and ck[1][0] == 'int')
    if single_r == single_c:
        if not single_r and r < 0.8:
            # Frame value with partially overlapping / permuted labels
            idx = [l for l in f['index'] if rng.random() < 0.7] or [f['index'][0]]
            cols = [l for l in f['columns'] if rng.random() < 0.7] or [f['columns'][0]]
            rng.shuffle(idx)
            rng.shuffle(cols)
            if rng.random() < 0.3:
                cols.append(['s', 'ZZ'] if (not cols or cols[0][0] == 's') else ['i', 999])
            kind = rng.choice('if')
            mixed = rng.random() < 0.5          # value columns of different kinds (number next to text, Boolean next to number): every element must arrive as supplied
            return ['frame', {'index': idx, 'columns': cols, 'cols': [C.rand_column(rng, rng.choice('ifUb') if mixed else kind, len(idx)) for _ in cols], 'name': ['none']}]
        return ['elem', rng.choice(ELEMS)]
    labels = f['columns'] if single_r else f['index']
    sub = [l for l in labels if rng.random() < 0.75]
    rng.shuffle(sub)
    if rng.random() < 0.25:
        sub.append(['s', 'ZZ'] if (not sub or sub[0][0] == 's') else ['i', 999])
    col = C.rand_column(rng, rng.choice('ifU'), len(sub))
    return ['series', sub, col['vals'], col['dt']]


def gen_assign_frame_into_block(rng):
    '''a Frame value whose columns have different kinds, assigned into a proper subset of the rows of adjacent columns that share ONE
    2-D block of the target (plus an unrelated column): every addressed cell must arrive exactly as supplied'''
    nr = rng.randint(2, 4)
    w = rng.randint(2, 3)
    kind = rng.choice('if')
    cols = [C.rand_column(rng, kind, nr) for _ in range(w)] + [C.rand_column(rng, rng.choice('ifb'), nr)]
    f = {'index': C.rand_labels(rng, nr, 'str'), 'columns': C.rand_labels(rng, w + 1, 'str'), 'cols': cols, 'name': ['none']}
    lay = [[w, 2], [1, rng.choice([1, 2])]]
    rows = sorted(rng.sample(range(nr), rng.randint(1, nr - 1)))
    k = rng.randint(2, w)
    vkinds = rng.choice([('i', 'U'), ('U', 'i'), ('b', 'i'), ('i', 'b'), ('f', 'U'), ('b', 'U'), ('i', 'f')])
    vk = [vkinds[j % 2] for j in range(k)]
    val = {'index': [f['index'][r] for r in rows], 'columns': f['columns'][:k], 'cols': [C.rand_column(rng, vk[j], len(rows)) for j in range(k)], 'name': ['none']}
    via = rng.choice(['iloc', 'loc'])
    if via == 'iloc':
        rk, ck = ['list', rows], ['slice', ['i', 0], ['i', k], ['none']]
    else:
        rk, ck = ['loclist', [f['index'][r] for r in rows]], ['loclist', f['columns'][:k]]
    return {'op': 'f_assign', 'via': via, 'f': f, 'rk': rk, 'ck': ck, 'val': ['frame', val]}, lay


def gen_case(rng):
    r = rng.random()
    if r < 0.06:
        return gen_assign_frame_into_block(rng)
    ik = rng.choice(['str', 'int', 'intshift', 'auto'])
    if r < 0.62:
        f = C.rand_frame(rng, 4, 5, index_kind=ik, min_rows=1, min_cols=1)
        lay = C.rand_layout(rng, f)
        nr, nc = len(f['index']), len(f['columns'])
        via = rng.choice(['iloc', 'loc', 'loc', 'getitem'])
        if via == 'iloc':
            rk, ck = C.rand_iloc_key(rng, nr), C.rand_iloc_key(rng, nc)
        elif via == 'loc':
            rk, ck = C.rand_loc_key(rng, f['index']), C.rand_loc_key(rng, f['columns'])
        else:
            rk, ck = ['all'], C.rand_loc_key(rng, f['columns'])
        op = rng.choice(['f_assign', 'f_assign', 'f_drop', 'f_mask'])
        if op == 'f_drop':
            if via == 'getitem':
                rk = ['nokey']
            elif rng.random() < 0.5:
                ck = ['nokey']
            elif via == 'iloc' and rng.random() < 0.6:
                rk = ['nokey']
        cs = {'op': op, 'via': via, 'f': f, 'rk': rk, 'ck': ck}
        if op == 'f_assign':
            cs['val'] = rand_value_for(rng, f, rk, ck, via)
        return cs, lay
    if r < 0.70:
        f = C.rand_frame(rng, 3, 4, index_kind=ik, min_rows=1, min_cols=1)
        return {'op': 'f_assign_bloc', 'f': f, 'mask': [[rng.random() < 0.4 for _ in f['columns']] for _ in f['index']],
                'v': rng.choice(ELEMS)}, C.rand_layout(rng, f)
    if r < 0.74:
        # astype towards the dtype a multi-column block ALREADY has, addressed through several non-contiguous runs inside that block,
        # with further addressed columns in later blocks that do need converting (the per-block generator has to skip and resume)
        nr = rng.randint(1, 3)
        run = rng.randint(3, 5)
        tail = rng.randint(1, 3)
        kind_run, kind_tail = rng.choice([('f', 'i'), ('f', 'i'), ('i', 'b'), ('f', 'b')])          # (never float -> int: truncation is outside the model)
        cols = [C.rand_column(rng, kind_run, nr) for _ in range(run)]
        pre = [C.rand_column(rng, kind_tail, nr)] if rng.random() < 0.4 else []
        post = [C.rand_column(rng, kind_tail if rng.random() < 0.7 else kind_run, nr) for _ in range(tail)]
        allc = pre + cols + post
        f = {'index': C.rand_labels(rng, nr, ik), 'columns': C.rand_labels(rng, len(allc), 'str'), 'cols': allc, 'name': ['none']}
        lay = [[1, rng.choice([1, 2])] for _ in pre] + [[run, 2]] + [[1, rng.choice([1, 2])] for _ in post]
        inside = sorted(rng.sample(range(run), rng.randint(2, run - 1)))
        if all(b - a == 1 for a, b in zip(inside, inside[1:])):
            inside = [0, run - 1]
        pos = [len(pre) + p for p in inside] + [len(pre) + run + p for p in sorted(rng.sample(range(tail), rng.randint(1, tail)))]
        if pre and rng.random() < 0.5:
            pos = [0] + pos
        to = list(cols[0]['dt'])
        if rng.random() < 0.3:
            ck = ['mask', [j in pos for j in range(len(allc))]]
        else:
            ck = ['loclist', [f['columns'][p] for p in pos]]
        return {'op': 'f_astype', 'f': f, 'ck': ck, 'to': to}, lay
    if r < 0.78:
        f = C.rand_frame(rng, 3, 6, kinds='ib', index_kind=ik, min_cols=1)
        to = rng.choice([['f', 64], ['O', 0], ['i', 64]])
        if to == ['i', 64]:
            for c in f['cols']:
                pass
        ck = C.rand_loc_key(rng, f['columns'])
        if rng.random() < 0.4 and len(f['columns']) >= 3:
            # a non-contiguous list key towards a dtype that some columns already have
            pos = sorted(set(rng.sample(range(len(f['columns'])), rng.randint(2, len(f['columns'])))))
            ck = ['loclist', [f['columns'][p] for p in pos]]
            to = rng.choice([c['dt'] for c in f['cols']])
            if to[0] == 'b':
                to = ['i', 64]
        return {'op': 'f_astype', 'f': f, 'ck': ck, 'to': to}, C.rand_layout(rng, f)
    if r < 0.84:
        f = C.rand_frame(rng, 3, 4, index_kind=ik)
        def spec(labels):
            q = rng.random()
            if q < 0.4:
                return ['keep']
            if q < 0.7:
                new = C.rand_labels(rng, len(labels), rng.choice(['str', 'int']))
                if labels and rng.random() < 0.15:
                    new[0] = new[-1]
                return ['seq', new]
            frm = [l for l in labels if rng.random() < 0.5]
            return ['map', frm, [['s', 'M%d' % i] for i in range(len(frm))]]
        isp, csp = spec(f['index']), spec(f['columns'])
        if isp == ['keep'] and csp == ['keep']:
            isp = ['map', [], []]
        return {'op': 'f_relabel', 'f': f, 'ispec': isp, 'cspec': csp}, C.rand_layout(rng, f)
    if r < 0.87:
        f = C.rand_frame(rng, 3, 4, index_kind=ik)
        return {'op': 'f_rename', 'f': f, 'name': rng.choice([['s', 'new'], ['none'], ['i', 3]])}, C.rand_layout(rng, f)
    if r < 0.92:
        f = C.rand_frame(rng, 3, 4, index_kind='str', min_cols=1, min_rows=1, columns_kind='str')
        ins = C.rand_frame(rng, len(f['index']), 2, min_rows=len(f['index']), columns_kind='int', name=False)
        ins['index'] = list(f['index'])
        if rng.random() < 0.1 and ins['columns']:
            ins['columns'][0] = f['columns'][0]
        key = rng.choice(f['columns']) if rng.random() < 0.9 else ['s', 'ZZ']
        if rng.random() < 0.35:
            key = ['iloc', rng.randint(-len(f['columns']), len(f['columns']) - 1)]          # a position, negative ones counting from the end
        return {'op': 'f_insert', 'f': f, 'key': key, 'after': rng.random() < 0.5, 'ins': ins}, C.rand_layout(rng, f)
    s = C.rand_series(rng, 6, index_kind=ik, min_n=1)
    n = len(s['index'])
    via = rng.choice(['iloc', 'loc', 'getitem'])
    rk = C.rand_iloc_key(rng, n) if via == 'iloc' else C.rand_loc_key(rng, s['index'])
    op = rng.choice(['s_assign', 's_assign', 's_drop', 's_mask', 's_astype', 's_relabel', 's_rename', 's_insert', 's_insert'])
    cs = {'op': op, 'via': via, 's': s, 'rk': rk}
    if op == 's_assign':
        if rng.random() < 0.5 or rk[0] in ('int', 'loc') or (rk[0] == 'iloc' and rk[1][0] == 'int'):
            cs['val'] = ['elem', rng.choice(ELEMS)]
        else:
            sub = [l for l in s['index'] if rng.random() < 0.75]
            rng.shuffle(sub)
            col = C.rand_column(rng, rng.choice('ifU'), len(sub))
            cs['val'] = ['series', sub, col['vals'], col['dt']]
    elif op == 's_astype':
        s2 = C.rand_series(rng, 5, kinds='ib', index_kind=ik)
        cs = {'op': op, 's': s2, 'to': rng.choice([['f', 64], ['O', 0]])}
    elif op == 's_relabel':
        new = C.rand_labels(rng, n, 'str')
        cs = {'op': op, 's': s, 'ispec': rng.choice([['seq', new], ['map', s['index'][:1], [['s', 'M0']]]])}
    elif op == 's_rename':
        cs = {'op': op, 's': s, 'name': ['s', 'new']}
    elif op == 's_insert':
        k = rng.randint(0, 2)
        fresh = [['s', 'N%d' % j] for j in range(k)] if (not s['index'] or s['index'][0][0] == 's') else [['i', 900 + j] for j in range(k)]
        if k and rng.random() < 0.1:
            fresh[0] = s['index'][0]          # a label the Series already has: rejected
        col = C.rand_column(rng, rng.choice('ifU'), k)
        key = rng.choice(s['index']) if rng.random() < 0.6 else ['iloc', rng.randint(-n, n - 1)]          # a label, or a position (negative ones count from the end)
        cs = {'op': op, 's': s, 'key': key, 'after': rng.random() < 0.5, 'ins': {'index': fresh, 'vals': col['vals'], 'dt': col['dt'], 'name': ['none']}}
    return cs, None


def main(ctx):
    quick = ctx.tier == 'quick'
    r = ctx.model_check('MC_C08', 'MC_C08_quick.cfg' if quick else 'MC_C08_thorough.cfg', dump=True)
    if r.ok and r.dump:
        ops.replay_dump(ctx, r.dump, quick_layouts=2, violation_what='functional update differs from the specification', any_err=True)
        ctx.exhaustive = True
    ops.validate_random(ctx, gen_case, 4000 if quick else 80000, what='recorded functional update is not a step of the specification', any_err=True)
    return ctx.finish(rule='R: every assign/drop/mask/astype case of MC_C08 (keys x value shapes on a 3x3 frame; 4x4 thorough) on block layouts; V: seeded random frames/series x assign (element, labelled Series/Frame with partial/permuted labels) / assign.bloc / drop / mask / astype / relabel / rename / insert; the source container is re-projected after every call')
