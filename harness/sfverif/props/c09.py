'''C09 grow-only containers: append-only, all-or-nothing, never shared.
M: MC_C09 (required semantics) + the as-built instance as negative control.
R: TLC simulation behaviours of SFGo replayed step by step on real FrameGO / IndexGO / derived containers; after
   every step EVERY live object is projected (labels, data in step, membership and lookup of every universe label).
V: seeded random histories driven on the real code, validated line by line by Trace_Go.'''
from .. import core, tlc
from .goworld import World, NAMES

FRAME_ROUTES = ['to_frame', 'to_frame_go', 'iloc_all', 'getitem_all', 'rename', 'relabel', 'sort_columns', 'reindex', 'add0', 'deepcopy', 'pickle',
                'columns_static', 'columns_go', 'row_series', 'dtypes', 'transpose2', 'iter_series0', 'set_index_less']
FRAME_ROUTES_MORE = ['group_labels_first', 'group_labels_items_last', 'group_first', 'group_items_last', 'window_first', 'window_items_last', 'head1', 'tail1', 'loc_rows', 'drop_row',
                     'roll_rows', 'shift0', 'fillna0', 'sort_index', 'astype_same', 'assign_same', 'from_concat_self', 'isna_neg', 'mask_row', 'dropna', 'iter_frame_group_array', 'round0', 'neg_neg', 'clip_wide']
INDEX_ROUTES = ['index_static', 'index_go', 'copy', 'rename', 'iloc_all', 'sort', 'union_self', 'deepcopy', 'pickle', 'to_series']


def replay_behaviour(ctx, states, what):
    w = World(states[0]['objs'][0])
    for k, st in enumerate(states[1:], 1):
        act = st['act']
        outcome, exc = w.step(act)
        got, broken = w.snapshot()
        ctx.count('R_' + act['name'])
        if outcome != act['outcome'] or got != st['objs'] or broken:
            ctx.violation('R', what, case={'history': [s['act'] for s in states[1:k + 1]], 'init': states[0]['objs']},
                          expected={'outcome': act['outcome'], 'objs': st['objs']}, actual={'outcome': outcome, 'objs': got, 'broken': broken,
                                                                                             'exception': repr(exc)[:200] if exc else None},
                          clause='integrity' if broken else ('outcome' if outcome != act['outcome'] else 'state'))
            return False
    return True


def random_history(rng, steps, start_id):
    init = {'kind': rng.choice(['frame', 'frame', 'index']), 'go': True, 'labels': rng.sample([1, 2, 3, 4, 5], rng.randint(0, 2))}
    w = World(init)
    objs, broken = w.snapshot()
    events = [{'id': start_id, 'act': {'name': 'init', 'outcome': 'ok'}, 'objs': objs, 'broken': broken}]
    for _ in range(steps):
        n = len(w.objs)
        gos = [i + 1 for i, o in enumerate(objs) if o['go'] and o['kind'] in ('frame', 'index')]
        r = rng.random()
        if r < 0.35 and gos:
            act = {'name': 'append', 'target': rng.choice(gos), 'label': rng.randint(1, 5), 'sized': rng.random() < 0.85}
        elif r < 0.65 and gos:
            k = rng.choice([1, 2, 2, 3])
            ls = rng.sample([1, 2, 3, 4, 5], k)
            via = rng.choice(['frame', 'items', 'series']) if k > 1 else rng.choice(['frame', 'items', 'series'])
            if via == 'series':
                ls = ls[:1]
            act = {'name': 'extend', 'target': rng.choice(gos), 'labels': ls, 'via': via}
        else:
            src = rng.randint(1, n)
            if objs[src - 1]['kind'] == 'series' or n >= 9:
                continue
            route = rng.choice((FRAME_ROUTES + FRAME_ROUTES_MORE) if objs[src - 1]['kind'] == 'frame' else INDEX_ROUTES)
            act = {'name': 'derive', 'source': src, 'route': route}
        outcome, exc = w.step(act)
        objs, broken = w.snapshot()
        act = dict(act, outcome=outcome)
        events.append({'id': start_id + len(events), 'act': act, 'objs': objs, 'broken': broken})
    return events


def hier_columns_probes(ctx, n):
    '''FrameGO with hierarchical (IndexHierarchyGO) columns: growth calls that must be rejected (a Frame re-opening an outer label, of another
    depth, with flat columns; a duplicate label; a mis-sized value) leave labels and data in step, and a later valid growth lands under its label'''
    import numpy as np
    import static_frame as sf
    rng = ctx.rng
    for k in range(n):
        labels = [('a', 1), ('a', 2), ('b', 1)][:rng.randint(2, 3)]
        data = {lab: np.array([10 * j, 10 * j + 1]) for j, lab in enumerate(labels)}
        f = sf.FrameGO.from_items(((lab, data[lab]) for lab in labels), index=('r0', 'r1'), columns_constructor=sf.IndexHierarchyGO.from_labels)
        if rng.random() < 0.5:
            f.values, f.columns.values          # with and without materialised caches
        bad = rng.choice(['reopen_outer', 'other_depth', 'flat_columns', 'duplicate', 'mis_sized', 'reopen_setitem'])
        try:
            if bad == 'reopen_outer':
                f.extend(sf.Frame.from_items(((('a', 9), (7, 7)), (('c', 1), (8, 8))), index=('r0', 'r1'), columns_constructor=sf.IndexHierarchy.from_labels) if labels[-1][0] == 'b' else
                         sf.Frame.from_items(((('z', 1), (7, 7)), (('a', 9), (8, 8))), index=('r0', 'r1'), columns_constructor=sf.IndexHierarchy.from_labels))
            elif bad == 'other_depth':
                f.extend(sf.Frame.from_items(((('q', 1, 1), (7, 7)),), index=('r0', 'r1'), columns_constructor=sf.IndexHierarchy.from_labels))
            elif bad == 'flat_columns':
                f.extend(sf.Frame.from_items((('flat', (7, 7)),), index=('r0', 'r1')))
            elif bad == 'duplicate':
                f[labels[0]] = np.array([7, 7])
            elif bad == 'mis_sized':
                f[('q', 1)] = np.array([7, 7, 7])
            else:
                f[('a', 9)] = np.array([7, 7])          # re-opens the outer label a after b: not a tree in the given order
            outcome = 'accepted'
        except Exception as e:
            outcome = 'rejected:' + type(e).__name__
        problems = []
        if outcome == 'accepted' and not (bad == 'reopen_setitem' and labels[-1][0] == 'a') and not (bad == 'reopen_outer' and False):
            problems.append('growth that must be rejected was accepted')
        try:
            if outcome != 'accepted':
                if [tuple(c) for c in f.columns] != labels or f.shape != (2, len(labels)) or len(f._blocks._index) != len(labels) or len(f.dtypes) != len(labels) or f.values.shape != (2, len(labels)):
                    problems.append('labels and data out of step after a rejected call: columns %r shape %r blocks %d' % ([tuple(c) for c in f.columns], f.shape, len(f._blocks._index)))
                new = ('z', 5)
                f[new] = np.array([55, 56])
                if f[new].values.tolist() != [55, 56]:
                    problems.append('a later valid growth reads back %r under its label' % (f[new].values.tolist(),))
                for lab in labels:
                    if f[lab].values.tolist() != data[lab].tolist():
                        problems.append('column %r changed' % (lab,))
        except Exception as e:
            problems.append('container unusable after a rejected call: %s: %s' % (type(e).__name__, str(e)[:80]))
        ctx.count('V_hier_columns_probe_' + bad)
        if problems:
            ctx.violation('V', 'FrameGO with hierarchical columns: ' + problems[0], case={'probe': 'hier_columns', 'labels': [list(x) for x in labels], 'bad': bad}, actual={'outcome': outcome, 'problems': problems}, clause='rejected_growth_changed_container')


def main(ctx, pid='C09'):
    quick = ctx.tier == 'quick'
    ctx.model_check('MC_C09', 'MC_C09_quick.cfg' if quick else 'MC_C09_thorough.cfg', timeout=6000, heap='12g')
    ctx.model_check('MC_C09', 'MC_C09_asbuilt.cfg', expect_violation='AllOrNothing', coverage=False)
    # ---- R
    behaviours, out = tlc.simulate('MC_C09', 'MC_C09_sim.cfg', num=400 if quick else 6000, depth=9, seed=ctx.seed % 100000)
    if not behaviours:
        ctx.machinery('TLC simulation produced no behaviour: ' + out[-500:])
    for b in behaviours:
        replay_behaviour(ctx, b, 'real grow-only history diverges from the specification')
        ctx.replayed += 1
    if behaviours:
        ctx.sample({'leg': 'R', 'behaviour': [s['act'] for s in behaviours[0][1:]], 'final_objs': behaviours[0][-1]['objs']})
    # ---- V
    events = []
    hist_of = {}
    for h in range(150 if quick else 3000):
        evs = random_history(ctx.rng, ctx.rng.randint(8, 30), len(events))
        for e in evs:
            hist_of[e['id']] = evs
        events.extend(evs)
        ctx.count('V_histories')
    rej = ctx.validate_events('Trace_Go', 'Trace_Go.cfg', events, chunk=900, boundary=lambda ev: ev['act']['name'] == 'init')
    seen_hist = set()
    for ev in events:
        if ev['id'] in rej:
            evs = hist_of[ev['id']]
            if id(evs) in seen_hist:
                continue
            seen_hist.add(id(evs))
            k = [e['id'] for e in evs].index(ev['id'])
            ctx.violation('V', 'recorded grow-only history violates ' + rej[ev['id']][0],
                          case={'history': [e['act'] for e in evs[:k + 1]], 'objs_before': evs[k - 1]['objs'] if k else None},
                          expected=rej[ev['id']][1], actual={'objs': ev['objs'], 'broken': ev['broken'], 'outcome': ev['act'].get('outcome')}, clause=rej[ev['id']][0])
    # ---- V (twin sweep): one public call on a grown FrameGO (flat / hierarchical columns) or IndexHierarchyGO against the same call on a twin built at once
    if pid == 'C09':
        import json
        from . import twin
        tev = twin.events(ctx.rng, 1200 if quick else 30000, [twin.frame_pair, twin.frame_pair, twin.hier_pair])
        for k, ev in enumerate(tev):
            ev['id'] = k
            ctx.count('V_twin_' + ev['info'].get('kind', 'history').split(':')[0])
        trej = ctx.validate_events('Trace_C02', 'Trace.cfg', tev, chunk=600)
        for ev in tev:
            if ev['id'] in trej:
                ctx.violation('V', 'a call on a grown container differs from the same call on one built at once: %s' % ev['what'], case={'method': ev['what'], 'info': ev['info']},
                              actual=json.loads(ev['stale']), expected=json.loads(ev['fresh']), clause=trej[ev['id']][0])
    # ---- V (hierarchical): IndexHierarchyGO histories (append / extend at depth 2-3 with cache-materialising reads in between, indices built
    # from the grown hierarchy) are the SFHier part of the specification; the same recorded histories are validated here by Trace_C05
    if pid == 'C09':
        from . import c05
        hev = []
        for i in range(60 if quick else 1500):
            hev += c05.go_history(ctx, len(hev))
        for k, ev in enumerate(hev):
            ev['id'] = k
        rejh = ctx.validate_events('Trace_C05', 'Trace.cfg', hev, chunk=500)
        for ev in hev:
            if ev['id'] in rejh:
                ctx.violation('V', 'hierarchical grow-only history: recorded %s event violates %s' % (ev['kind'], rejh[ev['id']][0]), case={k: ev[k] for k in ev if k not in ('obs', 'id')},
                              actual=ev.get('obs') or {'rows': ev.get('rows'), 'outcome': ev.get('outcome')}, clause=rejh[ev['id']][0], expected=rejh[ev['id']][1])
        ctx.count('V_hierarchical_history_events', len(hev))
        hier_columns_probes(ctx, 120 if quick else 3000)
    ctx.sample({'leg': 'V', 'history': [e['act'] for e in events[:6]]})
    return ctx.finish(rule='M: SFGo (required semantics) exhaustive for 3 labels, <=2 (thorough 3) live objects, <=3 labels each, with action properties AppendOnly / AllOrNothing / Isolation; R: TLC simulation behaviours (depth 9, 4 labels, <=4 objects) replayed on real FrameGO/IndexGO and 28 derivation routes; V: random histories of 8-30 calls (5 labels, <=9 objects) validated by Trace_Go; every step projects every live object incl. membership/lookup probes of all universe labels, per-column dtypes and equals; plus IndexHierarchyGO histories (depth 2-3, reads in between, indices derived from the grown hierarchy) validated by Trace_C05; twin sweep: one of ~70 public calls on a grown FrameGO (flat / hierarchical columns, reads between the assignments, none at the end) against the same call on a twin built at once')
