'''Execution of one abstract call cs = {"op": ..., ...} on the real containers (shared by all single-call
properties).  The source container is projected again after the call: a call that changed its source
returns {"k": "mutated"}, which no specification result equals.'''
import json

import numpy as np

import static_frame as sf

from .. import project as P
from . import common as C


def _val(val, writeable=False):
    k = val[0]
    if k == 'elem':
        return P.dec(val[1])
    if k == 'series':
        return sf.Series(P.make_array(val[2], val[3]), index=P.build_index(val[1]))
    if k == 'arr1':
        return P.make_array(val[1], val[2])
    if k == 'frame':
        return P.build_frame(val[1])
    raise ValueError(val)


def _sel(obj, via):
    return obj.iloc if via == 'iloc' else obj.loc


def _key2(cs, n_axes=2):
    via = cs['via']
    kf = C.py_iloc_key if via == 'iloc' else C.py_loc_key
    if via == 'getitem':
        return kf(cs['ck'])
    if cs['ck'][0] == 'nokey':
        return kf(cs['rk'])
    return (kf(cs['rk']), kf(cs['ck']))


def _labels_spec(spec):
    k = spec[0]
    if k == 'keep':
        return None
    if k == 'seq':
        return [P.dec(x) for x in spec[1]]
    if k == 'map':
        return {P.dec(a): P.dec(b) for a, b in zip(spec[1], spec[2])}
    raise ValueError(spec)


def _call(cs, f, s):
    op = cs['op']
    if op == 'f_iloc':
        return f.iloc[C.py_iloc_key(cs['rk']), C.py_iloc_key(cs['ck'])]
    if op == 'f_loc':
        return f.loc[C.py_loc_key(cs['rk']), C.py_loc_key(cs['ck'])]
    if op == 'f_getitem':
        return f[C.py_loc_key(cs['ck'])]
    if op == 'f_bloc':
        return f.bloc[np.array(cs['mask'], dtype=bool).reshape(f.shape)]
    if op == 's_iloc':
        return s.iloc[C.py_iloc_key(cs['rk'])]
    if op == 's_loc':
        return s.loc[C.py_loc_key(cs['rk'])]
    if op == 's_getitem':
        return s[C.py_loc_key(cs['rk'])]
    if op == 's_iloc_loc':
        r1 = s.iloc[C.py_iloc_key(cs['rk'])]
        return r1.loc[C.py_loc_key(cs['rk2'])] if isinstance(r1, sf.Series) else r1
    # ---- C08
    if op == 'f_assign':
        via = cs['via']
        tgt = f.assign[C.py_loc_key(cs['ck'])] if via == 'getitem' else _sel(f.assign, via)[_key2(cs)]
        return tgt(_val(cs['val']))
    if op == 'f_assign_bloc':
        return f.assign.bloc[np.array(cs['mask'], dtype=bool).reshape(f.shape)](P.dec(cs['v']))
    if op == 's_assign':
        via = cs['via']
        k = C.py_iloc_key(cs['rk']) if via == 'iloc' else C.py_loc_key(cs['rk'])
        tgt = s.assign[k] if via == 'getitem' else _sel(s.assign, via)[k]
        return tgt(_val(cs['val']))
    if op == 'f_drop':
        via = cs['via']
        return f.drop[C.py_loc_key(cs['ck'])] if via == 'getitem' else _sel(f.drop, via)[_key2(cs)]
    if op == 's_drop':
        via = cs['via']
        k = C.py_iloc_key(cs['rk']) if via == 'iloc' else C.py_loc_key(cs['rk'])
        return s.drop[k] if via == 'getitem' else _sel(s.drop, via)[k]
    if op == 'f_mask':
        via = cs['via']
        return f.mask[C.py_loc_key(cs['ck'])] if via == 'getitem' else _sel(f.mask, via)[_key2(cs)]
    if op == 's_mask':
        via = cs['via']
        k = C.py_iloc_key(cs['rk']) if via == 'iloc' else C.py_loc_key(cs['rk'])
        return s.mask[k] if via == 'getitem' else _sel(s.mask, via)[k]
    if op == 'f_astype':
        to = P.dec_dtype(cs['to'])
        if cs['ck'][0] == 'all':
            return f.astype(to)
        return f.astype[C.py_loc_key(cs['ck'])](to)
    if op == 's_astype':
        return s.astype(P.dec_dtype(cs['to']))
    if op == 'f_relabel':
        return f.relabel(index=_labels_spec(cs['ispec']), columns=_labels_spec(cs['cspec']))
    if op == 's_relabel':
        return s.relabel(_labels_spec(cs['ispec']))
    if op == 'f_rename':
        return f.rename(P.dec(cs['name']))
    if op == 's_rename':
        return s.rename(P.dec(cs['name']))
    if op == 'f_insert':
        ins = P.build_frame(cs['ins'])
        return (f.insert_after if cs['after'] else f.insert_before)(sf.ILoc[cs['key'][1]] if cs['key'][0] == 'iloc' else P.dec(cs['key']), ins)
    if op == 's_insert':
        ins = P.build_series(cs['ins'])
        return (s.insert_after if cs['after'] else s.insert_before)(sf.ILoc[cs['key'][1]] if cs['key'][0] == 'iloc' else P.dec(cs['key']), ins)
    # ---- C14
    if op == 's_isna':
        return s.notna() if cs['neg'] else s.isna()
    if op == 's_dropna':
        return s.dropna()
    if op == 's_fillna':
        return s.fillna(P.dec(cs['v']))
    if op == 's_fillna_series':
        return s.fillna(_val(cs['val']))
    if op == 's_filldir':
        return (s.fillna_forward if cs['forward'] else s.fillna_backward)(cs['limit'])
    if op == 's_fillsided':
        return (s.fillna_leading if cs['leading'] else s.fillna_trailing)(P.dec(cs['v']))
    if op == 's_count':
        return s.count()
    if op == 'f_isna':
        return f.notna() if cs['neg'] else f.isna()
    if op == 'f_dropna':
        return f.dropna(axis=cs['axis'], condition=np.all if cs['cond'] == 'all' else np.any)
    if op == 'f_fillna':
        return f.fillna(P.dec(cs['v']))
    if op == 'f_fillna_frame':
        return f.fillna(P.build_frame(cs['val']))
    if op == 'f_filldir':
        return (f.fillna_forward if cs['forward'] else f.fillna_backward)(cs['limit'], axis=cs['axis'])
    if op == 'f_fillsided':
        return (f.fillna_leading if cs['leading'] else f.fillna_trailing)(P.dec(cs['v']), axis=cs['axis'])
    if op == 'f_count':
        return f.count(axis=cs['axis'])
    from . import shape
    if op in shape.OPS:
        return shape.call(cs, f, s)
    raise ValueError('unknown op %r' % op)


def _same_source(before, after):
    return all(before.get(k) == after.get(k) for k in before if k in ('index', 'columns', 'cols', 'vals', 'dt', 'name'))


def run_case(cs, layout=None, cls=None, any_err=False, raw=False):
    f = s = None
    if 'f' in cs:
        f = P.build_frame(cs['f'], layout, cls=cls)
    if 's' in cs:
        s = P.build_series(cs['s'])
    got = []

    def _thunk():
        got.append(_call(cs, f, s))
        return got[0]
    res = C.execute(_thunk)
    if cls is sf.FrameGO and got and isinstance(got[0], sf.FrameGO) and got[0] is not f and got[0].columns.depth == 1:
        # the result of a call on a grow-only Frame is grown: a functional update must have handed out a container of its own
        try:
            got[0]['__grown__'] = np.zeros(len(got[0].index), dtype=np.int64)
        except Exception:
            pass
    if f is not None and not _same_source(cs['f'], P.proj_frame(f)):
        return {'k': 'mutated', 'what': 'source frame changed by the call'}
    if s is not None and not _same_source(cs['s'], P.proj_series(s)):
        return {'k': 'mutated', 'what': 'source series changed by the call'}
    if any_err and res.get('k') == 'err':
        res = {'k': 'err', 'cat': 'any'}
    if raw:
        return res
    return normalise(res, cs)


def _canon(v):
    return ['i', v[1]] if v[0] == 'f' and v[2] == 1 else v


def normalise(res, cs=None):
    if cs is not None and cs['op'] == 'f_assign' and cs['val'][0] == 'frame' and res.get('k') == 'frame':
        res = dict(res)
        res['cols'] = [{'dt': ['any', 0], 'vals': [_canon(v) for v in c['vals']]} for c in res['cols']]
        return res
    if cs is not None and ((cs['op'] in ('f_filldir', 'f_fillsided') and cs.get('axis') == 1) or cs['op'] == 'f_fillna_frame') and res.get('k') == 'frame':
        res = dict(res)
        res['cols'] = [{'dt': ['any', 0], 'vals': [['na'] if v[0] in ('nan', 'none', 'nat') else _canon(v) for v in c['vals']]} for c in res['cols']]
        return res
    return _normalise(res, cs)


def _loose(v):
    return ['na'] if v[0] in ('nan', 'none', 'nat') else _canon(v)


def _normalise(res, cs=None):
    if cs is not None and cs['op'] in ('s_label_widths', 's_iter_label') and res.get('k') == 'array':
        res = dict(res)
        res['dt'] = ['any', 0]
        return res
    if cs is not None and cs['op'] == 's_searchsorted':
        # the dtype of the reported positions / labels is not part of the statement (labels next to a NaN fill come back as floats)
        res = dict(res)
        if res.get('k') == 'array':
            res['vals'] = [_canon(v) for v in res['vals']]
            res['dt'] = ['any', 0]
        elif res.get('k') == 'elem':
            res['v'] = _canon(res['v'])
        return res
    if cs is not None and cs['op'] in ('s_map', 'f_map'):
        # the dtype of a mapped result is inferred from its values: not part of the statement (one missing marker, whole floats as ints)
        res = dict(res)
        if res.get('k') == 'series':
            res['vals'] = [_loose(v) for v in res['vals']]
            res['dt'] = ['any', 0]
        elif res.get('k') == 'frame':
            res['cols'] = [{'dt': ['any', 0], 'vals': [_loose(v) for v in c['vals']]} for c in res['cols']]
        return res
    '''bloc: the order in which the as-built code emits the (row, column) pairs follows the block layout
    (recorded under C03); the association is what C04 speaks about, so the pairs are put in row-major order.'''
    if cs is not None and cs['op'] == 'f_bloc' and res.get('k') == 'series':
        ri = {json.dumps(l): i for i, l in enumerate(cs['f']['index'])}
        ci = {json.dumps(l): i for i, l in enumerate(cs['f']['columns'])}
        try:
            order = sorted(range(len(res['index'])), key=lambda i: (ri[json.dumps(res['index'][i][1][0])], ci[json.dumps(res['index'][i][1][1])]))
        except (KeyError, IndexError, TypeError):
            return res
        res = dict(res)
        res['index'] = [res['index'][i] for i in order]
        res['vals'] = [res['vals'][i] for i in order]
    return res


def layouts_of_case(cs):
    if 'f' in cs:
        return P.layouts_for([c['dt'] for c in cs['f']['cols']])
    return [None]


def replay_dump(ctx, dump, quick_layouts=3, violation_what='result differs from the specification', cls=None, any_err=False, sample=1.0):
    '''R leg: every (case, expected) of a TLC state dump executed on the real code on every block layout.'''
    from .. import core
    n = 0
    for cs, exp in core.cases_from_dump(dump):
        if sample < 1.0 and ctx.rng.random() > sample:
            continue
        n += 1
        lays = [cs['layout']] if 'layout' in cs else layouts_of_case(cs)
        if ctx.tier == 'quick' and len(lays) > quick_layouts:
            lays = ctx.rng.sample(lays, quick_layouts)
        for lay in lays:
            act = run_case(cs, lay, cls=cls, any_err=any_err)
            ctx.replayed += 1
            if exp.get('k') == 'unspecified':
                ctx.count('R_unspecified')
                continue
            if act != exp and not (any_err and act.get('k') == 'err' and exp.get('k') == 'err'):
                ctx.violation('R', violation_what, case={'cs': cs, 'layout': lay}, expected=exp, actual=act)
        if n <= 2:
            ctx.sample({'leg': 'R', 'case': cs, 'expected': exp})
        ctx.count('R_' + cs['op'])
    return n


def validate_random(ctx, gen_case, n, what='recorded call is not a step of the specification', module='Trace_Ops', any_err=False):
    '''V leg: n random cases executed on the real code, the recorded events validated by TLC.'''
    events = []
    meta = {}
    for i in range(n):
        cs, lay = gen_case(ctx.rng)
        # every fourth case runs on the grow-only class (half of those grown to their shape, see project.build_frame): the class of the
        # container and the way it reached its shape are not observable through any single-call operation
        res = run_case(cs, lay, any_err=any_err, cls=sf.FrameGO if (i % 4 == 3 and 'f' in cs and not cs['f'].get('columns_auto')) else None)
        events.append({'id': i, 'cs': cs, 'res': res})
        meta[i] = lay
        ctx.count('V_' + cs['op'])
        ctx.count('V_result_' + res['k'])
    rej = ctx.validate_events(module, 'Trace.cfg', events)
    for ev in events:
        if ev['id'] in rej:
            ctx.violation('V', what, case={'cs': ev['cs'], 'layout': meta[ev['id']]}, actual=ev['res'],
                          clause=rej[ev['id']][0], expected=rej[ev['id']][1])
    if events:
        ctx.sample({'leg': 'V', 'event': events[0]})
    return events
