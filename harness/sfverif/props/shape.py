'''Shape family (spec/SFShape.tla, MC_SHAPE): reindex / roll / shift / head / tail / duplicated / drop_duplicated /
isin / transpose / clip / searchsorted / level relabelling / element maps.  Run from the C03 check: every case is executed on block layouts of the same logical Frame
and compared with the ONE result the specification prescribes (R: every state of MC_SHAPE; V: seeded random cases
validated by Trace_Ops).'''
from fractions import Fraction

import numpy as np
import static_frame as sf

from .. import project as P
from . import common as C, ops

FILLS = [['nan'], ['none'], ['i', 0], ['s', 'w'], ['b', 1], ['f', 1, 2], ['i', 7]]


def call(cs, f, s):
    op = cs['op']
    if op == 's_reindex':
        return s.reindex([P.dec(x) for x in cs['target']], fill_value=P.dec(cs['v']))
    if op == 'f_reindex':
        kw = {}
        if cs['it'][0] == 'to':
            kw['index'] = [P.dec(x) for x in cs['it'][1]]
        if cs['ct'][0] == 'to':
            kw['columns'] = [P.dec(x) for x in cs['ct'][1]]
        return f.reindex(fill_value=P.dec(cs['v']), **kw)
    if op == 's_roll':
        return s.roll(cs['n'], include_index=cs['incl'])
    if op == 's_shift':
        return s.shift(cs['n'], fill_value=P.dec(cs['v']))
    if op == 'f_roll':
        return f.roll(cs['ri'], cs['ci'], include_index=cs['ii'], include_columns=cs['ic'])
    if op == 'f_shift':
        return f.shift(cs['ri'], cs['ci'], fill_value=P.dec(cs['v']))
    if op == 's_head':
        return s.tail(cs['n']) if cs['tail'] else s.head(cs['n'])
    if op == 'f_head':
        return f.tail(cs['n']) if cs['tail'] else f.head(cs['n'])
    if op == 's_duplicated':
        return s.duplicated(exclude_first=cs['xf'], exclude_last=cs['xl'])
    if op == 's_drop_duplicated':
        return s.drop_duplicated(exclude_first=cs['xf'], exclude_last=cs['xl'])
    if op == 'f_duplicated':
        return f.duplicated(axis=cs['axis'], exclude_first=cs['xf'], exclude_last=cs['xl'])
    if op == 'f_drop_duplicated':
        return f.drop_duplicated(axis=cs['axis'], exclude_first=cs['xf'], exclude_last=cs['xl'])
    if op == 's_isin':
        return s.isin([P.dec(x) for x in cs['other']])
    if op == 'f_isin':
        return f.isin([P.dec(x) for x in cs['other']])
    if op == 'f_transpose':
        return f.transpose()
    if op == 's_clip':
        return s.clip(lower=P.dec(cs['lo']), upper=P.dec(cs['hi']))
    if op == 'f_clip':
        return f.clip(lower=P.dec(cs['lo']), upper=P.dec(cs['hi']))
    if op == 's_level_add':
        return s.relabel_level_add(P.dec(cs['v']))
    if op == 's_level_drop':
        return s.relabel_level_drop(cs['n'])
    if op == 's_rehierarch':
        return s.rehierarch(list(cs['dm']))
    if op == 'f_level_add':
        return f.relabel_level_add(**{'index' if cs['axis'] == 0 else 'columns': P.dec(cs['v'])})
    if op == 'f_level_drop':
        return f.relabel_level_drop(**{'index' if cs['axis'] == 0 else 'columns': cs['n']})
    if op == 'f_rehierarch':
        return f.rehierarch(**{'index' if cs['axis'] == 0 else 'columns': list(cs['dm'])})
    if op == 's_label_widths':
        pairs = list(s.index.label_widths_at_depth(cs['n']))
        out = np.empty(len(pairs), dtype=object)
        out[:] = [tuple(p) for p in pairs]
        return out
    if op == 's_iter_label':
        labs = list(s.index.iter_label(cs['ds'][0] if len(cs['ds']) == 1 else list(cs['ds'])))
        out = np.empty(len(labs), dtype=object)
        out[:] = labs
        return out
    if op in ('s_relabel_flat', 'f_relabel_flat'):
        r = s.relabel_flat() if op == 's_relabel_flat' else f.relabel_flat(**{'index' if cs['axis'] == 0 else 'columns': True})
        ax = r.index if (op == 's_relabel_flat' or cs['axis'] == 0) else r.columns
        if ax.depth != 1 or ax.__class__ not in (sf.Index, sf.IndexGO):
            raise AssertionError('relabel_flat left a %s of depth %d' % (ax.__class__.__name__, ax.depth))
        return r
    if op == 's_searchsorted':
        q = [P.dec(x) for x in cs['q']]
        q = q if cs['many'] else q[0]
        target = s if cs['on'] == 'values' else s.index
        if cs['loc']:
            return target.loc_searchsorted(q, side_left=cs['left'], fill_value=P.dec(cs['v']))
        return target.iloc_searchsorted(q, side_left=cs['left'])
    if op in ('s_map', 'f_map'):
        node = (s if op == 's_map' else f).iter_element()
        mapping = {P.dec(k): P.dec(v) for k, v in zip(cs['keys'], cs['vals'])}
        if cs['mode'] == 'any':
            return node.map_any(mapping)
        if cs['mode'] == 'fill':
            return node.map_fill(mapping, fill_value=P.dec(cs['v']))
        return node.map_all(mapping)
    raise ValueError('unknown op %r' % op)


OPS = ('s_reindex', 'f_reindex', 's_roll', 's_shift', 'f_roll', 'f_shift', 's_head', 'f_head', 's_duplicated', 's_drop_duplicated',
       'f_duplicated', 'f_drop_duplicated', 's_isin', 'f_isin', 'f_transpose', 's_clip', 'f_clip',
       's_searchsorted',
       's_level_add', 's_level_drop', 's_rehierarch', 'f_level_add', 'f_level_drop', 'f_rehierarch', 's_relabel_flat', 'f_relabel_flat', 's_label_widths', 's_iter_label', 's_map', 'f_map')
HIER_OPS = OPS[-12:-2]


def _target(rng, labels):
    '''New labels for an axis: a mix of kept (permuted), dropped and absent labels; sometimes empty / identical / repeated.'''
    r = rng.random()
    if r < 0.08:
        return []
    if r < 0.16:
        return list(labels)
    absent = [['s', 'ZZ'], ['s', 'YY']] if (not labels or labels[0][0] == 's') else [['i', 999], ['i', 998]]
    out = [l for l in labels if rng.random() < 0.6]
    if rng.random() < 0.6:
        out += absent[:rng.randint(1, 2)]
    rng.shuffle(out)
    if out and rng.random() < 0.05:
        out.append(out[0])
    if rng.random() < 0.1:
        out = absent[:rng.randint(1, 2)]
    return out


def _dup_column(rng, kind, n, pool=2):
    '''A column with few distinct values so that duplicates are frequent.'''
    col = C.rand_column(rng, kind, n, 0.25 if kind == 'f' else 0.0)
    vals = col['vals']
    if vals:
        base = vals[:pool]
        col['vals'] = [rng.choice(base) for _ in vals]
    return col


def _dup_frame(rng):
    nr, nc = rng.randint(1, 5), rng.randint(1, 4)
    kinds = rng.choice(['i', 'if', 'ib', 'iU', 'ifb'])
    ks = [rng.choice(kinds) for _ in range(nc)]
    cols = [_dup_column(rng, k, nr) for k in ks]
    if nc >= 2 and rng.random() < 0.5:
        j = rng.randrange(1, nc)
        src = cols[rng.randrange(0, j)]
        cols[j] = {'dt': list(src['dt']), 'vals': list(src['vals'])}
        if src['dt'][0] == 'i' and rng.random() < 0.4:
            cols[j] = {'dt': ['f', 64], 'vals': [['f', v[1], 1] for v in src['vals']]}
    w = max([c['dt'][1] for c in cols if c['dt'][0] == 'U'], default=0)
    for c in cols:
        if c['dt'][0] == 'U':
            c['dt'] = ['U', w]
    return {'index': C.rand_labels(rng, nr, rng.choice(['str', 'int'])), 'columns': C.rand_labels(rng, nc, 'str'), 'cols': cols,
            'name': rng.choice([['none'], ['s', 'nm']])}


def _others(rng, pool):
    k = rng.randint(0, 3)
    cand = list(pool) + [['i', 1], ['f', 1, 1], ['b', 1], ['i', 0], ['s', 'x'], ['none'], ['nan'], ['f', 1, 2], ['i', 55]]
    return [rng.choice(cand) for _ in range(k)]


def _tree_labels(rng, n, depth):
    '''n distinct tuples of the given depth in a tree order that is NOT sorted: grouped by first appearance.'''
    alph = [[['s', 'a'], ['s', 'b'], ['s', 'c']], [['i', 1], ['i', 2], ['i', 3]], [['s', 'x'], ['s', 'y']]][:depth]
    import itertools
    allt = list(itertools.product(*alph))
    rows = rng.sample(allt, min(n, len(allt)))
    def group(rows, d):
        if d >= depth or len(rows) <= 1:
            return rows
        keys = []
        for r in rows:
            if r[d] not in keys:
                keys.append(r[d])
        out = []
        for k in keys:
            out.extend(group([r for r in rows if r[d] == k], d + 1))
        return out
    return [['t', [list(x) for x in r]] for r in group(rows, 0)]


def _depth_map(rng, depth):
    import random as _r
    dm = list(range(depth))
    rng.shuffle(dm)
    r = rng.random()
    if r < 0.06:
        dm = dm[:-1]
    elif r < 0.12:
        dm[0] = dm[-1]
    return dm


def gen_hier(rng, op):
    depth = rng.choice([2, 2, 3])
    if op.startswith('s_'):
        n = rng.randint(1, 6)
        labs = _tree_labels(rng, n, depth)
        col = C.rand_column(rng, rng.choice('ifU'), len(labs))
        s = {'index': labs, 'vals': col['vals'], 'dt': col['dt'], 'name': rng.choice([['none'], ['s', 'nm']])}
        if op == 's_relabel_flat':
            return {'op': op, 's': s}, None
        if op == 's_label_widths':
            return {'op': op, 's': s, 'n': rng.randint(0, depth - 1)}, None
        if op == 's_iter_label':
            ds = rng.sample(range(depth), rng.randint(1, depth))
            return {'op': op, 's': s, 'ds': ds}, None
        if op == 's_level_add':
            return {'op': op, 's': s, 'v': rng.choice([['s', 'X'], ['i', 0]])}, None
        if op == 's_level_drop':
            return {'op': op, 's': s, 'n': rng.randint(1, depth - 1)}, None
        return {'op': op, 's': s, 'dm': _depth_map(rng, depth)}, None
    axis = rng.choice([0, 0, 1])
    f = C.rand_frame(rng, 5, 5, kinds=rng.choice(['if', 'ifb', 'iU']), index_kind='str', columns_kind='str', min_rows=1, min_cols=1)
    if axis == 0:
        f['index'] = _tree_labels(rng, len(f['index']), depth)
        for c in f['cols']:
            c['vals'] = c['vals'][:len(f['index'])]
    else:
        f['columns'] = _tree_labels(rng, len(f['columns']), depth)
        f['cols'] = f['cols'][:len(f['columns'])]
    lay = C.rand_layout(rng, f)
    if op == 'f_relabel_flat':
        return {'op': op, 'f': f, 'axis': axis}, lay
    if op == 'f_level_add':
        return {'op': op, 'f': f, 'axis': axis, 'v': rng.choice([['s', 'X'], ['i', 0]])}, lay
    if op == 'f_level_drop':
        return {'op': op, 'f': f, 'axis': axis, 'n': rng.randint(1, depth - 1)}, lay
    return {'op': op, 'f': f, 'axis': axis, 'dm': _depth_map(rng, depth)}, lay


def gen_map(rng, op):
    if op == 's_map':
        s = C.rand_series(rng, 5, kinds='ifU', na=0.2, index_kind=rng.choice(['str', 'int']))          # (no Booleans: a list mixing True with numbers is cast to numbers, C07-bool-in-iterable-cast-to-number)
        pool = list(s['vals'])
        subj = {'s': s}
        lay = None
    else:
        f = C.rand_frame(rng, 3, 4, kinds=rng.choice(['if', 'if', 'iU', 'ifU']), na=0.15, index_kind='str', columns_kind='str')
        pool = [v for c in f['cols'] for v in c['vals']]
        subj = {'f': f}
        lay = C.rand_layout(rng, f)
    pool = [v for v in pool if v[0] not in ('nan', 'nat')]
    keys = []
    for v in rng.sample(pool, min(len(pool), rng.randint(0, 3))) + rng.sample([['i', 55], ['s', 'zz'], ['none'], ['i', 1], ['f', 1, 2]], rng.randint(0, 2)):
        # one dictionary key per distinct value (1, 1.0 and True are ONE key)
        def same(a, b):
            num = lambda x: x[0] in ('i', 'b', 'f')
            if num(a) and num(b):
                q = lambda x: (x[1], 1) if x[0] != 'f' else (x[1], x[2])
                return q(a)[0] * q(b)[1] == q(b)[0] * q(a)[1]
            return a == b
        if not any(same(v, k) for k in keys):
            keys.append(v)
    vals = [rng.choice([['i', 10], ['s', 'x'], ['f', 3, 2], ['i', -1], ['none'], ['s', 'long text']]) for _ in keys]
    mode = rng.choice(['any', 'any', 'fill', 'all'])
    cs = dict(op=op, keys=keys, vals=vals, mode=mode, v=rng.choice([['i', -1], ['none'], ['s', 'F'], ['nan']]), **subj)
    return cs, lay


def gen_searchsorted(rng):
    '''positions / labels at which values would be inserted: ascending values or labels (numbers, with repeats; dates), rarely not ascending'''
    n = rng.randint(0, 6)
    on = rng.choice(['values', 'index', 'index'])
    kind = rng.choice(['i', 'f', 'd']) if on == 'index' else rng.choice(['i', 'f'])

    def asc(k):
        if kind == 'd':
            base = rng.choice([0, 18000])
            return [['d', 'D', base + x] for x in sorted(rng.sample(range(0, 12), k))]
        xs = sorted(rng.randint(-4, 8) for _ in range(k))
        if on == 'index':
            xs = sorted(set(xs))
        if kind == 'i':
            return [['i', x] for x in xs]
        out = []
        for x in xs:
            fr = Fraction(2 * x + rng.choice([0, 0, 1]), 2)
            out.append(['f', fr.numerator, fr.denominator])
        out.sort(key=lambda v: Fraction(v[1], v[2]))
        if on == 'index':
            seen, uniq = set(), []
            for v in out:
                if (v[1], v[2]) not in seen:
                    seen.add((v[1], v[2]))
                    uniq.append(v)
            out = uniq
        return out
    keys = asc(n)
    n = len(keys)
    if n >= 2 and rng.random() < 0.06:
        keys[0], keys[-1] = keys[-1], keys[0]          # not ascending: nothing is promised
    if on == 'values':
        s = {'index': C.rand_labels(rng, n, rng.choice(['str', 'int'])), 'vals': keys, 'dt': ['i', 64] if kind == 'i' else ['f', 64], 'name': ['none']}
    else:
        s = {'index': keys, 'vals': [['i', i] for i in range(n)], 'dt': ['i', 64], 'name': ['none']}

    def query():
        if kind == 'd':
            base = keys[0][2] if keys else 0
            return ['d', 'D', base + rng.randint(-2, 13)]
        if rng.random() < 0.5 and keys:
            return list(rng.choice(keys))
        x = Fraction(rng.randint(-11, 19), 2)
        return ['i', int(x)] if x.denominator == 1 else ['f', x.numerator, x.denominator]
    many = rng.random() < 0.5
    q = [query() for _ in range(rng.randint(1, 4) if many else 1)]
    fill = rng.choice([['nan'], ['nan'], ['i', -1], ['none']])
    return {'op': 's_searchsorted', 's': s, 'on': on, 'q': q, 'many': many, 'left': rng.random() < 0.5, 'loc': rng.random() < 0.6, 'v': fill}


def gen_case(rng):
    op = rng.choice(OPS)
    if op in HIER_OPS:
        return gen_hier(rng, op)
    if op in ('s_map', 'f_map'):
        return gen_map(rng, op)
    if op == 's_searchsorted':
        return gen_searchsorted(rng), None
    ik = rng.choice(['str', 'int', 'intshift'])
    if op.startswith('s_'):
        if op in ('s_duplicated', 's_drop_duplicated'):
            kind = rng.choice('ifbU')
            n = rng.randint(0, 6)
            col = _dup_column(rng, kind, n, pool=rng.randint(1, 3))
            s = {'index': C.rand_labels(rng, n, ik), 'vals': col['vals'], 'dt': col['dt'], 'name': rng.choice([['none'], ['s', 'nm']])}
            return {'op': op, 's': s, 'xf': rng.random() < 0.5, 'xl': rng.random() < 0.5}, None
        if op == 's_clip':
            s = C.rand_series(rng, 5, kinds='if', na=0.25, index_kind=ik)
            b = lambda: rng.choice([['none'], ['i', 0], ['i', 2], ['f', 3, 2], ['i', -1], ['f', 1, 4]])
            return {'op': op, 's': s, 'lo': b(), 'hi': b()}, None
        s = C.rand_series(rng, 5, kinds='ifbU', na=0.2, index_kind=ik, min_n=0)
        n = len(s['index'])
        if op == 's_reindex':
            return {'op': op, 's': s, 'target': _target(rng, s['index']), 'v': rng.choice(FILLS)}, None
        if op == 's_roll':
            return {'op': op, 's': s, 'n': rng.randint(-n - 2, n + 2), 'incl': rng.random() < 0.5}, None
        if op == 's_shift':
            return {'op': op, 's': s, 'n': rng.randint(-n - 2, n + 2), 'v': rng.choice(FILLS)}, None
        if op == 's_head':
            return {'op': op, 's': s, 'n': rng.randint(0, n + 1), 'tail': rng.random() < 0.5}, None
        if op == 's_isin':
            return {'op': op, 's': s, 'other': _others(rng, s['vals'])}, None
    if op in ('f_duplicated', 'f_drop_duplicated'):
        f = _dup_frame(rng)
        return {'op': op, 'f': f, 'axis': rng.choice([0, 1]), 'xf': rng.random() < 0.5, 'xl': rng.random() < 0.5}, C.rand_layout(rng, f)
    if op == 'f_clip':
        f = C.rand_frame(rng, 4, 4, kinds='if', na=0.25, index_kind=ik, min_cols=1)
        b = lambda: rng.choice([['none'], ['i', 0], ['i', 2], ['f', 3, 2], ['i', -1]])
        return {'op': op, 'f': f, 'lo': b(), 'hi': b()}, C.rand_layout(rng, f)
    nonempty = op == 'f_transpose'
    f = C.rand_frame(rng, 4, 5, kinds=rng.choice(['if', 'ifb', 'ifbU', 'iU', 'ib']), na=0.2, index_kind=ik,
                     min_rows=1 if nonempty else 0, min_cols=1 if nonempty else 0)
    lay = C.rand_layout(rng, f)
    nr, nc = len(f['index']), len(f['columns'])
    if op == 'f_reindex':
        it = ['to', _target(rng, f['index'])] if rng.random() < 0.7 else ['keep']
        ct = ['to', _target(rng, f['columns'])] if rng.random() < 0.7 else ['keep']
        return {'op': op, 'f': f, 'it': it, 'ct': ct, 'v': rng.choice(FILLS)}, lay
    if op == 'f_roll':
        return {'op': op, 'f': f, 'ri': rng.randint(-nr - 1, nr + 1), 'ci': rng.randint(-nc - 1, nc + 1), 'ii': rng.random() < 0.4, 'ic': rng.random() < 0.4}, lay
    if op == 'f_shift':
        return {'op': op, 'f': f, 'ri': rng.randint(-nr - 1, nr + 1), 'ci': rng.randint(-nc - 2, nc + 2), 'v': rng.choice(FILLS)}, lay
    if op == 'f_head':
        return {'op': op, 'f': f, 'n': rng.randint(0, nr + 1), 'tail': rng.random() < 0.5}, lay
    if op == 'f_isin':
        pool = [v for c in f['cols'] for v in c['vals']]
        return {'op': op, 'f': f, 'other': _others(rng, pool)}, lay
    return {'op': 'f_transpose', 'f': f}, lay


def run(ctx, n_random):
    '''M + R + V for the shape family; returns nothing (violations go through ctx).'''
    quick = ctx.tier == 'quick'
    r = ctx.model_check('MC_SHAPE', 'MC_SHAPE_quick.cfg' if quick else 'MC_SHAPE_thorough.cfg', dump=True)
    ctx.model_check('MC_SHAPE', 'MC_SHAPE_neg.cfg', expect_violation='NegRollIsIdentity')
    if r.ok and r.dump:
        ops.replay_dump(ctx, r.dump, quick_layouts=2, violation_what='shape operation differs from the specification (SFShape)')
    ops.validate_random(ctx, gen_case, n_random, what='recorded shape operation is not a step of the specification (SFShape)')
