'''C20 reshaping and relational operations against their relational definitions (SFRel).

 M  MC_C20: every small frame x every call of a small scope; laws of the definitions (pivot partitions the source rows
    and conserves sums, join containment / counting / preserved sides, round trips of the label-moving operations).
 R  every TLC-enumerated call executed on the real Frame (sampled block layouts); the recorded results go back to TLC.
 V  random frames / calls (mixed-dtype and unsorted key fields, several key / index / column / data fields, function
    maps, fill values of other types, keys from columns or the index, all join cardinalities, both templates)
    validated by Trace_C20.
'''
import numpy as np

import static_frame as sf

from .. import core, project as P, tlaval
from . import common as C

ANY = ['any', 0]
NAN = ['nan']


def canon(v):
    if v[0] == 'f' and v[2] == 1:
        return ['i', v[1]]
    if v[0] == 't':
        return ['t', [canon(x) for x in v[1]]]
    return v


def realise(af):
    '''give every column of an abstract frame the natural dtype of its values (the dump carries none)'''
    af = dict(af)
    cols = []
    for c in af['cols']:
        tags = {v[0] for v in c['vals']}
        if tags <= {'i'}:
            dt = ['i', 64]
        elif tags <= {'i', 'f', 'nan'}:
            dt = ['f', 64]
        elif tags <= {'s'}:
            dt = ['U', max([len(v[1]) for v in c['vals']] + [1])]
        elif tags <= {'b'}:
            dt = ['b', 0]
        else:
            dt = ['O', 0]
        cols.append({'dt': dt, 'vals': c['vals']})
    af['cols'] = cols
    return af


def any_frame(f):
    '''projection of a result Frame with dtype-free, numerically canonical cells'''
    p = P.proj_frame(f)
    return {'k': 'frame', 'index': [canon(x) for x in p['index']], 'columns': [canon(x) for x in p['columns']], 'name': p['name'],
            'cols': [{'dt': ANY, 'vals': [canon(v) for v in c['vals']]} for c in p['cols']]}


FUNCS = {
    'sum': [None, np.sum, np.nansum, lambda a: a.sum()],
    'min': [np.min, lambda a: a.min()],
    'max': [np.max, lambda a: a.max()],
    'count': [len, lambda a: a.shape[0]],
    'range': [lambda a: a.max() - a.min()],
    'first': [lambda a: a[0]],
    'last': [lambda a: a[-1]],
}


def labs(xs):
    return [P.dec(x) for x in xs]


def one_or_many(xs):
    return P.dec(xs[0]) if len(xs) == 1 else labs(xs)


def levels_of(label, depth):
    return list(label) if depth > 1 else [label]


def run_pivot(f, cs, rng):
    ixf, colf, dataf, fns = cs['ixf'], cs['colf'], cs['dataf'], cs['fns']
    if len(fns) == 1:
        func = rng.choice(FUNCS[fns[0][1]])
    else:
        func = {name: rng.choice([x for x in FUNCS[fn] if x is not None]) for name, fn in fns}
    kw = {}
    if colf:
        kw['columns_fields'] = one_or_many(colf) if rng.random() < 0.5 else labs(colf)
    if dataf:
        kw['data_fields'] = one_or_many(dataf) if rng.random() < 0.5 else labs(dataf)
    r = f.pivot(one_or_many(ixf) if rng.random() < 0.5 else labs(ixf), func=func, fill_value=P.dec(cs['fill']), **kw)
    used = set(map(str, ixf + colf))
    data = dataf or [c for c in cs['f']['columns'] if str(c) not in used]
    rows = [[canon(P.enc(x)) for x in levels_of(lab, len(ixf))] for lab in r.index]
    with_data = len(data) > 1 or not colf
    with_func = len(fns) > 1
    depth = len(colf) + (1 if with_data else 0) + (1 if with_func else 0)
    if r.columns.depth != depth:
        return {'k': 'pivot_shape', 'depth': r.columns.depth, 'want': depth}
    cols = []
    for lab in r.columns:
        lv = levels_of(lab, depth)
        ck = [canon(P.enc(x)) for x in lv[:len(colf)]]
        rest = lv[len(colf):]
        d = P.enc(rest.pop(0)) if with_data else data[0]
        fn = str(rest.pop(0)) if with_func else ''
        cols.append([ck, d, fn])
    vals = r.values
    cells = [[canon(P.enc(vals[i, j])) for j in range(vals.shape[1])] for i in range(vals.shape[0])]
    return {'k': 'pivot', 'rows': rows, 'cols': cols, 'cells': cells}


def run_unstack(f, cs):
    r = f.pivot_unstack(fill_value=P.dec(cs['fill']))
    rows = [[canon(P.enc(lab))] for lab in r.index]
    cols = [[[canon(P.enc(lab[0]))], canon(P.enc(lab[1])), ''] for lab in r.columns]
    vals = r.values
    cells = [[canon(P.enc(vals[i, j])) for j in range(vals.shape[1])] for i in range(vals.shape[0])]
    return {'k': 'pivot', 'rows': rows, 'cols': cols, 'cells': cells}


def run_join(f, g, cs):
    def keyargs(ks, side):
        kw = {}
        if ks['depth']:
            kw[side + '_depth_level'] = 0
        if ks['cols']:
            kw[side + '_columns'] = one_or_many(ks['cols'])
        return kw
    kw = {}
    kw.update(keyargs(cs['lk'], 'left'))
    kw.update(keyargs(cs['rk'], 'right'))
    r = getattr(f, 'join_' + cs['kind'])(g, left_template=cs['lt'][0] + '{}' + cs['lt'][1], right_template=cs['rt'][0] + '{}' + cs['rt'][1],
                                         fill_value=P.dec(cs['fill']), composite_index=cs['composite'], **kw)
    pairs = cs['composite'] or any(isinstance(x, tuple) for x in r.index)
    vals = r.values
    rows = []
    for i, lab in enumerate(r.index):
        cells = [canon(P.enc(vals[i, j])) for j in range(vals.shape[1])]
        if pairs:
            if not (isinstance(lab, tuple) and len(lab) == 2):
                return {'k': 'join_index_shape', 'label': repr(lab)}
            cells = [canon(P.enc(lab[0])), canon(P.enc(lab[1]))] + cells
        rows.append(cells)
    return {'k': 'join', 'columns': [P.enc(c) for c in r.columns], 'rows': rows, 'pairs': bool(pairs), 'index_unique': len(set(r.index)) == len(r.index)}


def with_names(f, names):
    if f.index.depth == 1:
        return f.rename(index=P.dec(names[0]))
    return f.rename(index=tuple(P.dec(n) for n in names))


def run_case(cs, layout=None, rng=None):
    import random
    rng = rng or random.Random(0)
    f = P.build_frame(realise(cs['f']), layout)
    before = P.proj_frame(f)
    try:
        op = cs['op']
        if op == 'set_index':
            res = any_frame(f.set_index(P.dec(cs['lab']), drop=cs['drop']))
        elif op == 'set_index_hierarchy_reorder':
            res = any_frame(f.set_index_hierarchy(labs(cs['labs']), drop=cs['drop'], reorder_for_hierarchy=True))
        elif op == 'set_index_hierarchy':
            res = any_frame(f.set_index_hierarchy(labs(cs['labs']), drop=cs['drop']))
        elif op == 'unset_index':
            res = any_frame(with_names(f, cs['names']).unset_index())
        elif op == 'shift_in_rows':
            res = any_frame(f.relabel_shift_in(P.dec(cs['lab']), axis=0))
        elif op == 'shift_in_cols':
            res = any_frame(f.relabel_shift_in(P.dec(cs['lab']), axis=1))
        elif op == 'shift_out_rows':
            lv = cs['lv']
            res = any_frame(with_names(f, cs['names']).relabel_shift_out(lv[0] if len(lv) == 1 and rng.random() < 0.5 else list(lv)))
        elif op == 'stack_h':
            res = any_frame(f.pivot_stack())
        elif op == 'stack':
            res = any_frame(f.pivot_stack())
        elif op == 'unstack':
            res = run_unstack(f, cs)
        elif op == 'pivot':
            res = run_pivot(f, cs, rng)
        elif op == 'join':
            g = P.build_frame(realise(cs['g']), cs.get('glayout'))
            res = run_join(f, g, cs)
        else:
            raise ValueError(op)
    except Exception as e:
        res = {'k': 'err', 'cat': P.err_category(e)}
    if P.proj_frame(f) != before:
        return {'k': 'mutated'}
    return res


# ---- random cases ------------------------------------------------------------------------------------------------------------
def rand_table(rng, n, spec, index_pool='pqrstuvw'):
    '''spec: list of (label, kind) with kind in k (str key), j (int key), m (mixed key), v (distinct ints), w (ints), x (half floats)'''
    cols = []
    for lab, kind in spec:
        if kind == 'k':
            vals = [['s', rng.choice('abc')] for _ in range(n)]
        elif kind == 'j':
            vals = [['i', rng.choice([1, 2, 3, 10])] for _ in range(n)]
        elif kind == 'v':
            vals = [['i', x] for x in rng.sample(range(-20, 60), n)]
        elif kind == 'w':
            vals = [['i', rng.randint(-3, 9)] for _ in range(n)]
        elif kind == 'x':
            vals = [['f', 2 * rng.randint(-4, 9) + 1, 2] for _ in range(n)]
        else:
            raise ValueError(kind)
        cols.append({'dt': ANY, 'vals': vals})
    index = [['s', c] for c in rng.sample(index_pool, n)] if rng.random() < 0.8 else [['i', i * 3 + 1] for i in range(n)]
    return {'index': index, 'columns': [['s', lab] for lab, _ in spec], 'cols': cols, 'name': ['none']}


def rand_fill(rng):
    return rng.choice([NAN, NAN, ['i', -1], ['none'], ['s', 'x'], ['i', 0]])


def gen_pivot(rng):
    n = rng.randint(1, 7)
    f = rand_table(rng, n, [('k', 'k'), ('j', 'j'), ('h', 'k'), ('v', 'v'), ('w', 'w')])
    keys = [['s', 'k'], ['s', 'j'], ['s', 'h']]
    rng.shuffle(keys)
    ni = rng.choice([1, 1, 2, 2, 3])
    ixf = keys[:ni]
    colf = keys[ni:ni + rng.choice([0, 0, 1, 1, 2])]
    dataf = rng.choice([[['s', 'v']], [['s', 'w']], [['s', 'v'], ['s', 'w']], [['s', 'w'], ['s', 'v']]])
    if len(ixf) + len(colf) == 3 and rng.random() < 0.3:
        dataf = []
    if rng.random() < 0.25:
        names = rng.sample(['sum', 'min', 'max', 'count', 'range', 'first', 'last'], 2)
        fns = [[nm[:2] + 'F', nm] for nm in names]
    else:
        fns = [['', rng.choice(['sum', 'sum', 'min', 'max', 'count', 'range', 'first', 'last'])]]
    return {'op': 'pivot', 'f': f, 'ixf': ixf, 'colf': colf, 'dataf': dataf, 'fns': fns, 'fill': rand_fill(rng)}


def gen_join(rng):
    nl, nr = rng.randint(0, 5), rng.randint(0, 5)
    two = rng.random() < 0.3
    lspec = [('k', 'k')] + ([('j', 'j')] if two else []) + [('v', 'v'), ('x', 'x')][:rng.randint(0, 2)]
    rspec = [('q', 'k')] + ([('j', 'j')] if two else []) + [('z', 'v')][:rng.randint(0, 1)]
    rng.shuffle(lspec)
    rng.shuffle(rspec)
    L = rand_table(rng, nl, lspec)
    R = rand_table(rng, nr, rspec, index_pool='pqxyzuvw')
    mode = rng.random()
    if mode < 0.7:
        lk = {'depth': False, 'cols': [['s', 'k']] + ([['s', 'j']] if two else [])}
        rk = {'depth': False, 'cols': [['s', 'q']] + ([['s', 'j']] if two else [])}
    elif mode < 0.85:
        # keys taken from the index labels on both sides
        L['index'] = [['s', c] for c in rng.sample('pqrstu', nl)]
        R['index'] = [['s', c] for c in rng.sample('pqrstu', nr)]
        lk = {'depth': True, 'cols': []}
        rk = {'depth': True, 'cols': []}
    else:
        # the index of one side against a column of the other
        L['index'] = [['s', c] for c in rng.sample('abcdef', nl)]
        lk = {'depth': True, 'cols': []}
        rk = {'depth': False, 'cols': [['s', 'q']]}
    lt, rt = rng.choice([[['L_', ''], ['R_', '']], [['', '_l'], ['', '_r']], [['', ''], ['r.', '']], [['<', '>'], ['', '2']]])
    return {'op': 'join', 'f': L, 'g': R, 'lk': lk, 'rk': rk, 'kind': rng.choice(['inner', 'left', 'right', 'outer']), 'fill': rand_fill(rng),
            'lt': lt, 'rt': rt, 'composite': rng.random() < 0.8}


def tree_sort(f, labs_):
    '''reorder the rows of an abstract frame so that the given key columns are tree ordered (first-seen grouping)'''
    pos = [[str(x) for x in f['columns']].index(str(l)) for l in labs_]
    n = len(f['index'])
    order = list(range(n))
    for p in reversed(pos):
        seen = []
        for i in order:
            v = str(f['cols'][p]['vals'][i])
            if v not in seen:
                seen.append(v)
        order = sorted(order, key=lambda i: seen.index(str(f['cols'][p]['vals'][i])))
    f = dict(f)
    f['index'] = [f['index'][i] for i in order]
    f['cols'] = [{'dt': c['dt'], 'vals': [c['vals'][i] for i in order]} for c in f['cols']]
    return f


def gen_reshape(rng):
    n = rng.randint(1, 6)
    f = rand_table(rng, n, [('k', 'k'), ('j', 'j'), ('v', 'v'), ('w', 'w')])
    q = rng.random()
    if q < 0.18:
        return {'op': 'set_index', 'f': f, 'lab': rng.choice([['s', 'v'], ['s', 'v'], ['s', 'k'], ['s', 'w'], ['s', 'zz']]), 'drop': rng.random() < 0.5}
    if q < 0.36:
        ls = rng.choice([[['s', 'k'], ['s', 'v']], [['s', 'k'], ['s', 'j']], [['s', 'j'], ['s', 'k'], ['s', 'v']], [['s', 'k'], ['s', 'j'], ['s', 'v']]])
        if rng.random() < 0.35:
            return {'op': 'set_index_hierarchy_reorder', 'f': f, 'labs': ls, 'drop': rng.random() < 0.5}          # rows as they come: the call puts them in tree order
        if rng.random() < 0.8:
            f = tree_sort(f, ls[:-1])
        return {'op': 'set_index_hierarchy', 'f': f, 'labs': ls, 'drop': rng.random() < 0.5}
    if q < 0.48:
        return {'op': 'shift_in_rows', 'f': f, 'lab': rng.choice([['s', 'v'], ['s', 'w'], ['s', 'k']])}
    if q < 0.58:
        return {'op': 'shift_in_cols', 'f': f, 'lab': rng.choice(f['index'] + [['s', 'zz']])}
    if q < 0.68:
        return {'op': 'unset_index', 'f': f, 'names': [['s', 'ix']]}
    if q < 0.86:
        # an index of depth 2 or 3 (tree ordered), levels named; unset or shift out some levels
        d = rng.choice([2, 2, 3])
        f = tree_sort(f, [['s', 'k'], ['s', 'j']][:d - 1])
        lv = [[f['cols'][0]['vals'][i], f['cols'][1]['vals'][i], f['cols'][2]['vals'][i]] for i in range(n)]
        f['index'] = [['t', ([x[0], x[2]] if d == 2 else x)] for x in lv]
        names = [['s', 'n0'], ['s', 'n1'], ['s', 'n2']][:d]
        if rng.random() < 0.3:
            return {'op': 'unset_index', 'f': f, 'names': names}
        k = rng.randint(1, d)
        return {'op': 'shift_out_rows', 'f': f, 'names': names, 'lv': (sorted if rng.random() < 0.4 else list)(rng.sample(range(d), k))}
    if q < 0.93:
        keep = rng.sample(range(4), rng.randint(1, 4))
        g = dict(f)
        g['columns'] = [f['columns'][i] for i in sorted(keep)]
        g['cols'] = [f['cols'][i] for i in sorted(keep)]
        return {'op': 'stack', 'f': g}
    # unstack of a ragged depth-2 index
    f = tree_sort(f, [['s', 'k']])
    f['index'] = [['t', [f['cols'][0]['vals'][i], f['cols'][2]['vals'][i] if rng.random() < 0.5 else ['i', i % 2]]] for i in range(n)]
    if len({str(x) for x in f['index']}) != n:
        f['index'] = [['t', [f['cols'][0]['vals'][i], ['i', i]]] for i in range(n)]
    g = dict(f)
    g['columns'] = f['columns'][2:]
    g['cols'] = f['cols'][2:]
    return {'op': 'unstack', 'f': g, 'fill': rand_fill(rng)}


def gen_unstack3(rng):
    '''unstack the innermost level of a depth-3 index (two levels remain): a valid tree whose middle labels come in different relative orders under
    different outer labels, ragged below them; every cell must stay under its own (outer, middle) row and (column, inner) column'''
    outers = rng.sample(['a', 'b', 'c'], rng.randint(1, 3))
    rows = []
    for o in outers:
        for m in rng.sample(['x', 'y', 'z'], rng.randint(1, 3)):
            for k in rng.sample([1, 2, 3], rng.randint(1, 3)):
                rows.append(['t', [['s', o], ['s', m], ['i', k]]])
    rows = rows[:7]
    n = len(rows)
    nc = rng.randint(1, 2)
    cols = [{'dt': ANY, 'vals': [['i', 10 * j + i] for i in range(n)]} for j in range(nc)]
    f = {'index': rows, 'columns': [['s', 'pq'[j]] for j in range(nc)], 'cols': cols, 'name': ['none']}
    return {'op': 'unstack', 'f': f, 'fill': rand_fill(rng)}


def gen_stack_h(rng):
    '''two-level columns (outer group, inner field), groups sharing some inner labels; columns of one group may have the same kind in
    different widths (text of 1 and of 6 characters, short and long numbers): stacking must not narrow any cell'''
    outers = rng.sample(['g', 'h', 'k'], rng.randint(1, 3))
    inner_pool = ['a', 'b', 'c']
    cols, labels = [], []
    nr = rng.randint(1, 3)
    if rng.random() < 0.4:
        # three levels (two remain): middle labels in different relative orders under different outer labels, ragged below them
        outers = [(o, m) for o in outers[:2] for m in rng.sample(['x', 'y', 'z'], rng.randint(1, 3))]
    for o in outers:
        kind = rng.choice(['U', 'U', 'i', 'f'])
        for u in rng.sample(inner_pool, rng.randint(1, 3)):
            labels.append(['t', ([['s', o[0]], ['s', o[1]]] if isinstance(o, tuple) else [['s', o]]) + [['s', u]]])
            if kind == 'U':
                w = rng.choice([1, 1, 6])
                vals = [['s', rng.choice(['B', 'R', 'x'])] if w == 1 else ['s', rng.choice(['Berlin', 'Roma', 'q r st'])] for _ in range(nr)]
                cols.append({'dt': ['U', max(len(v[1]) for v in vals)], 'vals': vals})
            elif kind == 'i':
                cols.append({'dt': ['i', 64], 'vals': [['i', rng.choice([1, 2, 100000, -7])] for _ in range(nr)]})
            else:
                cols.append({'dt': ['f', 64], 'vals': [['f', rng.choice([1, 3, 2001, -5]), rng.choice([2, 4])] for _ in range(nr)]})          # never whole: results are compared numerically canonical
    for c in cols:
        c['vals'] = [(['f', v[1] // __import__('math').gcd(v[1], v[2]), v[2] // __import__('math').gcd(v[1], v[2])] if v[0] == 'f' else v) for v in c['vals']]
    f = {'index': C.rand_labels(rng, nr, 'str'), 'columns': labels, 'cols': cols, 'name': ['none']}
    return {'op': 'stack_h', 'f': f}


def gen_case(rng):
    q = rng.random()
    if q < 0.05:
        return gen_stack_h(rng), None
    if q < 0.09:
        return gen_unstack3(rng), None
    cs = gen_pivot(rng) if q < 0.4 else gen_join(rng) if q < 0.7 else gen_reshape(rng)
    lay = C.rand_layout(rng, realise(cs['f']))
    if 'g' in cs:
        cs['glayout'] = C.rand_layout(rng, realise(cs['g']))
    return cs, lay


def report(ctx, events, meta, rej, leg, what):
    for ev in events:
        if ev['id'] in rej:
            ctx.violation(leg, what, case={'cs': ev['cs'], 'layout': meta.get(ev['id'])}, actual=ev['res'], clause=rej[ev['id']][0], expected=rej[ev['id']][1])


def main(ctx):
    quick = ctx.tier == 'quick'
    r = ctx.model_check('MC_C20', 'MC_C20_quick.cfg' if quick else 'MC_C20_thorough.cfg', dump=True, timeout=6000, heap='12g')
    # R: TLC-enumerated calls executed on the real code; TLC compares
    events, meta = [], {}
    if r.ok and r.dump:
        for cs, exp in core.cases_from_dump(r.dump):
            if quick and ctx.rng.random() > 0.12:
                continue
            lay = C.rand_layout(ctx.rng, realise(cs['f']))
            if 'g' in cs:
                cs['glayout'] = C.rand_layout(ctx.rng, realise(cs['g']))
            res = run_case(cs, lay, ctx.rng)
            meta[len(events)] = lay
            events.append({'id': len(events), 'cs': cs, 'res': res})
            ctx.count('R_' + cs['op'])
        ctx.exhaustive = not quick
    rej = ctx.validate_events('Trace_C20', 'Trace.cfg', events, chunk=400)
    ctx.replayed += len(events)
    ctx.validated -= len(events)
    report(ctx, events, meta, rej, 'R', 'a call enumerated by TLC, executed on the real Frame, differs from the relational definition')
    if events:
        ctx.sample({'leg': 'R', 'case': events[0]['cs']})
    # V: random calls
    events, meta = [], {}
    for i in range(2500 if quick else 60000):
        cs, lay = gen_case(ctx.rng)
        res = run_case(cs, lay, ctx.rng)
        meta[i] = lay
        events.append({'id': i, 'cs': cs, 'res': res})
        ctx.count('V_' + cs['op'])
        ctx.count('V_result_' + res['k'])
    rej = ctx.validate_events('Trace_C20', 'Trace.cfg', events, chunk=400)
    report(ctx, events, meta, rej, 'V', 'recorded call is not the relational definition')
    ctx.sample({'leg': 'V', 'event': events[0]})
    return ctx.finish(rule='M/R: 3-row (thorough 4) frames over all key-column valuations x set_index / set_index_hierarchy / relabel_shift_in (both axes) / unset_index / pivot_stack / pivot (1-2 index fields, 0-1 column fields, 1-2 or derived data fields, 6 functions, function map, 2 fills) / joins (4 kinds x 3^3 x 3^2 key valuations x composite or not); every enumerated call runs on the real Frame with a random block layout and TLC compares. '
                           'V: random frames <=7 rows: pivot with 1-3 index fields of mixed dtypes in unsorted order, 0-2 column fields, derived data fields, function maps, 6 fill values; joins on 1-2 columns, index levels, or index against column, all cardinalities, 4 template pairs, composite_index on/off; reshape round trips incl. depth-2/3 indices and ragged unstack')
