'''C17 Bus and multi-table stores: faithful, lazy, bounded (max_persist with least-recently-used eviction), stale-file safe.

 M  MC_C17 (SFBus): one store file, up to 2 Bus objects, all access / derivation histories of bounded depth with the file
    touched (newer or older mtime), rewritten or deleted at any point; max_persist None, 1, 2.
 R  TLC -simulate behaviours of MC_C17 driven through real Bus objects over a real store file (zip pickle / csv / tsv,
    sqlite), the projected state compared after every step.
 V  random histories on real Buses (more labels, all call routes, status reads, items() / values, derivations, file
    mutations) logged with the private cache state before and after each call, validated statefully by Trace_C17;
    write / reopen round trips of varied Frames per store format.
'''
import os
import shutil

import numpy as np

import static_frame as sf
from static_frame.core.bus import FrameDeferred
from static_frame.core.exception import StoreFileMutation

from .. import project as P, tlc

FORMATS = ['zip_pickle', 'zip_csv', 'zip_tsv', 'sqlite']
EXT = {'zip_pickle': '.zip', 'zip_csv': '.zip', 'zip_tsv': '.zip', 'sqlite': '.sqlite', 'zip_parquet': '.zip', 'xlsx': '.xlsx', 'hdf5': '.h5'}


def optional_formats():
    out = []
    try:
        import pyarrow  # noqa
        out.append('zip_parquet')
    except Exception:
        pass
    try:
        import xlsxwriter  # noqa
        import openpyxl  # noqa
        out.append('xlsx')
    except Exception:
        pass
    try:
        import tables  # noqa
        out.append('hdf5')
    except Exception:
        pass
    return out


def name_of(l):
    return 'f%d' % l


def frame_for(l, ver):
    '''the Frame written under label l in content version ver: the marker cell identifies both'''
    return sf.Frame.from_records([[l * 100 + ver, 1.5, 'p%d' % l], [l, 2.5, 'q']], columns=('a', 'b', 'c'), index=('x', 'y'), name=name_of(l))


def decode(f):
    '''(label, version) of a loaded Frame, or None if it is not one of ours'''
    try:
        m = int(f.loc['x', 'a'])
        l, ver = divmod(m, 100)
        ref = frame_for(l, ver)
        if f.shape != ref.shape or f.name != ref.name or f.values.tolist() != ref.values.tolist() or list(f.index) != list(ref.index) or list(f.columns) != list(ref.columns):
            return None
        return l, ver
    except Exception:
        return None


def config_for(fmt, per_label=0):
    if fmt == 'zip_pickle':
        return None
    if per_label:
        # every label has its own configuration; the default one (index kept as a column) would not reproduce the Frames
        return sf.StoreConfigMap({name_of(l): sf.StoreConfig(index_depth=1, columns_depth=1) for l in range(1, per_label + 1)},
                                 default=sf.StoreConfig(index_depth=0, columns_depth=1))
    return sf.StoreConfig(index_depth=1, columns_depth=1)


class World:
    '''one store file and the Bus objects opened / derived on it'''

    def __init__(self, fmt, n, mp, workdir, per_label=False):
        self.fmt, self.n, self.mp = fmt, n, mp
        self.per_label = n if per_label else 0
        self.fp = os.path.join(workdir, 'store' + EXT[fmt])
        self.ver = 1
        self.clock = 0
        self.write(self.fp, 1)
        self.base = os.path.getmtime(self.fp)
        kw = {'config': config_for(fmt, self.per_label)} if config_for(fmt) is not None else {}
        self.buses = [getattr(sf.Bus, 'from_' + fmt)(self.fp, max_persist=mp or None, **kw)]
        self.store = self.buses[0]._store

    def write(self, fp, ver):
        b = sf.Bus.from_frames([frame_for(l, ver) for l in range(1, self.n + 1)])
        kw = {'config': config_for(self.fmt, self.per_label)} if config_for(self.fmt) is not None else {}
        if os.path.exists(fp):
            os.remove(fp)
        getattr(b, 'to_' + self.fmt)(fp, **kw)

    # ---- file mutations --------------------------------------------------------------------------------------------------
    def touch(self, dt):
        self.clock += 1
        t = self.base + dt * 10 * self.clock          # a fresh mtime, newer (dt = 1) or older (dt = -1)
        os.utime(self.fp, (t, t))

    def rewrite(self):
        self.ver += 1
        tmp = self.fp + '.new' + EXT[self.fmt]
        self.write(tmp, self.ver)
        os.replace(tmp, self.fp)
        self.touch(1)

    def delete(self):
        os.remove(self.fp)

    def coherent(self):
        return os.path.exists(self.fp) and os.path.getmtime(self.fp) == self.store._last_modified

    # ---- projection ------------------------------------------------------------------------------------------------------
    def project(self, bus):
        labels = [int(str(x)[1:]) for x in bus._series.index]
        held = [0] * self.n
        problems = []
        for lab, v in zip(labels, bus._series.values):
            if v is FrameDeferred:
                continue
            d = decode(v)
            if d is None or d[0] != lab:
                problems.append('label %d holds a Frame that is not the one written under it' % lab)
                held[lab - 1] = -1
            else:
                held[lab - 1] = d[1]
        lru = [int(str(x)[1:]) for x in bus._last_accessed] if bus._max_persist is not None else []
        if [bool(x) for x in bus._loaded] != [held[l - 1] != 0 for l in labels]:
            problems.append('_loaded flags disagree with the held Frames')
        return {'labels': labels, 'held': held, 'lru': lru, 'mp': bus._max_persist or 0}, problems

    # ---- calls -------------------------------------------------------------------------------------------------------------
    def outcome_of(self, fn):
        try:
            return 'ok', fn()
        except StoreFileMutation:
            return 'store_mutation', None
        except Exception as e:
            return 'error:' + type(e).__name__, None

    def get(self, i, l, route='getitem'):
        bus = self.buses[i]
        name = name_of(l)
        fn = {'getitem': lambda: bus[name], 'loc': lambda: bus.loc[name], 'iloc': lambda: bus.iloc[list(bus.index).index(name)],
              'get': lambda: bus.get(name)}[route]
        out, r = self.outcome_of(fn)
        got = 0
        if out == 'ok':
            d = decode(r) if isinstance(r, sf.Frame) else None
            got = d[1] if d is not None and d[0] == l else (-2 if r is FrameDeferred else -1)
        return out, got

    def select(self, i, sel, route='getitem'):
        bus = self.buses[i]
        names = [name_of(l) for l in sel]
        idx = list(bus.index)
        pos = [idx.index(nm) for nm in names]
        contiguous = pos == list(range(pos[0], pos[0] + len(pos)))
        ascending = pos == sorted(pos)
        if route == 'slice' and not contiguous:
            route = 'getitem'
        if route == 'mask' and not ascending:
            route = 'loc'
        fn = {'getitem': lambda: bus[names], 'loc': lambda: bus.loc[names], 'iloc': lambda: bus.iloc[pos],
              'slice': lambda: bus.iloc[pos[0]:pos[-1] + 1], 'locslice': lambda: bus.loc[names[0]:names[-1]] if contiguous else bus[names],
              'mask': lambda: bus.loc[np.array([nm in names for nm in idx])], 'array': lambda: bus[np.array(names)],
              'index_key': lambda: bus[sf.Index(names)]}[route]
        out, r = self.outcome_of(fn)
        if out == 'ok':
            self.buses.append(r)
        return out, r

    def derive(self, i, labels, route='reindex'):
        bus = self.buses[i]
        names = [name_of(l) for l in labels]
        idx = list(bus.index)
        in_order = [nm for nm in idx if nm in names] == names
        if route == 'drop' and not in_order:
            route = 'reindex'
        if route == 'sort_index' and not (sorted(idx) == names):
            route = 'reindex'
        if route == 'sort_desc' and not (sorted(idx, reverse=True) == names):
            route = 'reindex'
        if route in ('rename', 'relabel_same') and names != idx:
            route = 'reindex'
        if route == 'roll' and not (len(names) == len(idx) and any(idx[-k:] + idx[:-k] == names for k in range(len(idx)))):
            route = 'reindex'
        if route == 'roll':
            k = [k for k in range(len(idx)) if idx[-k:] + idx[:-k] == names][0]
        fn = {'reindex': lambda: bus.reindex(names, fill_value=FrameDeferred), 'drop': lambda: bus.drop[[nm for nm in idx if nm not in names]],
              'sort_index': lambda: bus.sort_index(), 'sort_desc': lambda: bus.sort_index(ascending=False), 'rename': lambda: bus.rename('renamed'),
              'relabel_same': lambda: bus.relabel(lambda x: x), 'roll': lambda: bus.roll(k, include_index=True)}[route]
        out, r = self.outcome_of(fn)
        if out == 'ok':
            self.buses.append(r)
        return out, r


# ---- R: behaviours of MC_C17 replayed on real Buses ----------------------------------------------------------------------------------
def replay_behaviour(ctx, beh, fmt, workdir):
    rng = ctx.rng
    st0 = beh[0]
    n = len(st0['buses'][0]['labels'])
    w = World(fmt, n, st0['buses'][0]['mp'], workdir, per_label=rng.random() < 0.5)
    for k, st in enumerate(beh[1:], 1):
        a = st['act']
        name = a['name']
        if name == 'get':
            out, got = w.get(a['bus'] - 1, a['sel'][0], rng.choice(['getitem', 'loc', 'iloc']))
            if out != a['outcome']:
                return 'outcome', {'step': k, 'act': a, 'got_outcome': out}
            if out == 'ok' and got != a['got']:
                return 'frame_returned', {'step': k, 'act': a, 'got': got}
        elif name == 'select':
            nb = len(w.buses)
            out, _ = w.select(a['bus'] - 1, a['sel'], rng.choice(['getitem', 'loc', 'iloc', 'slice', 'mask', 'array']))
            if out != a['outcome']:
                return 'outcome', {'step': k, 'act': a, 'got_outcome': out}
            if len(st['buses']) == len(beh[k - 1]['buses']) and len(w.buses) > nb:
                w.buses.pop()          # the model is at its bound of live Bus objects: the handed-back Bus is dropped
        elif name == 'derive':
            out, _ = w.derive(a['bus'] - 1, a['sel'], rng.choice(['reindex', 'drop', 'sort_index', 'sort_desc', 'roll', 'rename']))
            if out != 'ok':
                return 'outcome', {'step': k, 'act': a, 'got_outcome': out}
        elif name == 'touch':
            w.touch(a['dt'])
        elif name == 'rewrite':
            w.rewrite()
        elif name == 'delete':
            w.delete()
        if len(w.buses) != len(st['buses']):
            return 'live_buses', {'step': k, 'want': len(st['buses']), 'got': len(w.buses)}
        for bi, (mb, rb) in enumerate(zip(st['buses'], w.buses)):
            proj, problems = w.project(rb)
            if problems:
                return 'integrity', {'step': k, 'bus': bi + 1, 'problems': problems}
            if proj != {'labels': mb['labels'], 'held': mb['held'], 'lru': mb['lru'], 'mp': mb['mp']}:
                return 'state', {'step': k, 'bus': bi + 1, 'act': a, 'want': mb, 'got': proj}
        if w.coherent() != (st['file']['exists'] and st['file']['mtime'] == st['seen']):
            return 'file_model', {'step': k}
    return None, None


# ---- V: random histories --------------------------------------------------------------------------------------------------------------
STATUS_READS = [('status', lambda b: b.status), ('shapes', lambda b: b.shapes), ('nbytes', lambda b: b.nbytes), ('mloc', lambda b: b.mloc), ('dtypes', lambda b: b.dtypes),
                ('len', lambda b: len(b)), ('keys', lambda b: list(b.keys())), ('iter', lambda b: list(b)), ('contains', lambda b: 'f1' in b), ('repr', lambda b: repr(b)),
                ('index', lambda b: b.index), ('shape', lambda b: b.shape), ('equals_self', lambda b: b.equals(b))]


def history(ctx, fmt, workdir, events):
    rng = ctx.rng
    n = rng.randint(1, 8)
    mp = rng.choice([0, 0, 1, 1, 2, 2, 3, 3, 4, n])
    w = World(fmt, n, mp, workdir, per_label=rng.random() < 0.5)
    first = True

    def log(ev):
        nonlocal first
        ev['start'] = first
        ev['fmt'] = fmt
        first = False
        ev['coherent'] = bool(ev.pop('coh'))
        ev['ver'] = ev.pop('fver')
        events.append(ev)

    plan = []
    if n >= 4 and rng.random() < 0.35:
        # a label in the later part is loaded first, then a slice spanning it is selected: the update meets an already loaded Frame after several reads
        late = rng.randint(max(2, min(mp, n - 1)), n)
        plan = [('get', late), ('slice', rng.randint(1, max(1, late - max(mp, 1))), n)]
    for step in range(rng.randint(3, 12)):
        i = rng.randrange(len(w.buses))
        bus = w.buses[i]
        pre, _ = w.project(bus)
        coh, fver = w.coherent(), w.ver
        q = rng.random()
        if not pre['labels']:
            continue
        forced = None
        if plan and i == 0:
            forced = plan.pop(0)
            q = 0.0 if forced[0] == 'get' else 0.4
        elif plan:
            i = 0
            bus = w.buses[0]
            pre, _ = w.project(bus)
            forced = plan.pop(0)
            q = 0.0 if forced[0] == 'get' else 0.4
        if q < 0.34:
            l = forced[1] if forced else rng.choice(pre['labels'])
            route = rng.choice(['getitem', 'loc', 'iloc', 'get', 'getitem'])
            out, got = w.get(i, l, route)
            post, problems = w.project(bus)
            log({'name': 'get', 'bus': i + 1, 'sel': [l], 'route': route, 'pre': pre, 'post': post, 'outcome': out, 'got': got, 'problems': problems, 'coh': coh, 'fver': fver})
        elif q < 0.56 and len(pre['labels']) >= 2:
            sel = rng.sample(pre['labels'], rng.randint(2, len(pre['labels'])))
            if rng.random() < 0.5:
                sel = [x for x in pre['labels'] if x in sel]
            route = rng.choice(['getitem', 'loc', 'iloc', 'slice', 'locslice', 'mask', 'array', 'index_key'])
            if forced:
                sel = [x for x in pre['labels'] if forced[1] <= x <= forced[2]]
                route = rng.choice(['slice', 'locslice'])
                if len(sel) < 2:
                    sel = list(pre['labels'])[:2]
            out, r = w.select(i, sel, route)
            if route in ('slice', 'locslice') and out == 'ok':
                sel = [int(str(x)[1:]) for x in r.index]
            post, problems = w.project(bus)
            ev = {'name': 'select', 'bus': i + 1, 'sel': sel, 'route': route, 'pre': pre, 'post': post, 'outcome': out, 'got': 0, 'problems': problems, 'coh': coh, 'fver': fver}
            if out == 'ok':
                ev['new'], p2 = w.project(r)
                ev['problems'] += p2
            log(ev)
        elif q < 0.66:
            labels = rng.sample(pre['labels'], rng.randint(1, len(pre['labels'])))
            route = rng.choice(['reindex', 'drop', 'sort_index', 'sort_desc', 'roll', 'rename', 'relabel_same'])
            if route in ('sort_index',):
                labels = sorted(pre['labels'])
            elif route == 'sort_desc':
                labels = sorted(pre['labels'], reverse=True)
            elif route in ('rename', 'relabel_same'):
                labels = list(pre['labels'])
            elif route == 'drop':
                labels = [x for x in pre['labels'] if x in labels]
            out, r = w.derive(i, labels, route)
            post, problems = w.project(bus)
            ev = {'name': 'derive', 'bus': i + 1, 'sel': labels, 'route': route, 'pre': pre, 'post': post, 'outcome': out, 'got': 0, 'problems': problems, 'coh': coh, 'fver': fver}
            if out == 'ok':
                ev['new'], p2 = w.project(r)
                ev['problems'] += p2
            log(ev)
        elif q < 0.68:
            # export: the Bus is written to another store file; every Frame is read (under the bound, one at a time) and written
            fmt2 = rng.choice(['zip_pickle', 'zip_csv', 'zip_tsv', 'sqlite'])
            fp2 = os.path.join(workdir, 'export%d%s' % (step, EXT[fmt2]))
            kw = {'config': config_for(fmt2)} if config_for(fmt2) is not None else {}
            out, _ = w.outcome_of(lambda: getattr(bus, 'to_' + fmt2)(fp2, **kw))
            post, problems = w.project(bus)
            ok = True
            if out == 'ok':
                try:
                    back = getattr(sf.Bus, 'from_' + fmt2)(fp2, **kw)
                    ok = [str(x) for x in back.keys()] == [name_of(lab) for lab in pre['labels']] and all(decode(back[name_of(lab)]) == (lab, 1) for lab in pre['labels'])
                except Exception:
                    ok = False
            if os.path.exists(fp2):
                os.remove(fp2)
            log({'name': 'export', 'bus': i + 1, 'sel': pre['labels'], 'route': 'to_' + fmt2, 'pre': pre, 'post': post, 'outcome': out, 'got': 0, 'ok': bool(ok), 'problems': problems, 'coh': coh, 'fver': fver})
        elif q < 0.72:
            # sort_values: every Frame is visited (under the bound, one at a time), then a Bus in the sorted order is derived
            asc = rng.random() < 0.5
            out, r = w.outcome_of(lambda: bus.sort_values(ascending=asc, key=lambda s: s.iter_element().apply(lambda f: int(f.loc['x', 'a']))))
            if out == 'ok':
                w.buses.append(r)
            post, problems = w.project(bus)
            ev = {'name': 'sortvalues', 'bus': i + 1, 'sel': sorted(pre['labels'], reverse=not asc), 'route': 'sort_values', 'pre': pre, 'post': post, 'outcome': out, 'got': 0, 'problems': problems, 'coh': coh, 'fver': fver}
            if out == 'ok':
                ev['new'], p2 = w.project(r)
                ev['problems'] += p2
            log(ev)
        elif q < 0.78:
            # items() / values: everything at once without a bound, one label at a time with one
            which = rng.choice(['items', 'values', 'iter_element', 'iter_element_items'])
            if pre['mp'] == 0:
                out, r = w.outcome_of({'items': lambda: list(bus.items()), 'values': lambda: bus.values, 'iter_element': lambda: list(bus.iter_element()),
                                       'iter_element_items': lambda: list(bus.iter_element_items())}[which])
                post, problems = w.project(bus)
                ok_frames = True
                if out == 'ok':
                    frames = [f for _, f in r] if which in ('items', 'iter_element_items') else list(r)
                    ok_frames = [decode(f) for f in frames] == [(lab, 1) for lab in pre['labels']]
                log({'name': 'loadall', 'bus': i + 1, 'sel': pre['labels'], 'route': which, 'pre': pre, 'post': post, 'outcome': out, 'got': 1 if ok_frames else -1,
                     'problems': problems + ([] if ok_frames else ['%s did not deliver the written Frames in label order' % which]), 'coh': coh, 'fver': fver})
            else:
                it = iter({'items': bus.items, 'values': bus.items, 'iter_element_items': bus.iter_element_items}.get(which, bus.iter_element)())
                for lab in pre['labels']:
                    p0, _ = w.project(bus)
                    out, item = w.outcome_of(lambda: next(it))
                    if out == 'ok' and which == 'iter_element':
                        item = (name_of(lab), item)          # (the values form yields the Frame alone)
                    post, problems = w.project(bus)
                    got = 0
                    if out == 'ok':
                        d = decode(item[1]) if isinstance(item[1], sf.Frame) else None
                        got = d[1] if d is not None and d[0] == lab and item[0] == name_of(lab) else -1
                    log({'name': 'get', 'bus': i + 1, 'sel': [lab], 'route': 'items', 'pre': p0, 'post': post, 'outcome': out, 'got': got, 'problems': problems, 'coh': w.coherent(), 'fver': w.ver})
                    if out != 'ok':
                        break
        elif q < 0.86:
            nm, fn = rng.choice(STATUS_READS)
            out, r = w.outcome_of(lambda: fn(bus))
            post, problems = w.project(bus)
            ok = True
            if out == 'ok' and nm == 'status':
                ok = [bool(x) for x in r['loaded'].values] == [pre['held'][lab - 1] != 0 for lab in pre['labels']]
            if out == 'ok' and nm == 'shapes':
                ok = [x for x in r.values] == [(2, 3) if pre['held'][lab - 1] != 0 else None for lab in pre['labels']]
            if out == 'ok' and nm in ('keys', 'iter'):
                ok = r == [name_of(lab) for lab in pre['labels']]
            log({'name': 'read', 'bus': i + 1, 'sel': [], 'route': nm, 'pre': pre, 'post': post, 'outcome': out, 'got': 0, 'ok': bool(ok), 'problems': problems, 'coh': coh, 'fver': fver})
        else:
            if os.path.exists(w.fp):
                m = rng.choice(['touch_newer', 'touch_older', 'rewrite', 'delete', 'touch_older'])
                if m == 'touch_newer':
                    w.touch(1)
                elif m == 'touch_older':
                    w.touch(-1)
                elif m == 'rewrite':
                    w.rewrite()
                else:
                    w.delete()
                ctx.count('V_file_' + m)


# ---- store fidelity: write, reopen, compare -----------------------------------------------------------------------------------------------
def _fid_index(rng, nr, kind):
    if kind == 'str_sorted':
        return ['r%d' % i for i in range(nr)]
    if kind == 'str_any':
        return rng.sample(['q', 'a', 'm', 'zz', 'b', 'k'], nr)
    if kind == 'int_any':
        return rng.sample([30, 10, 20, -1, 0, 7, 1000], nr)          # not sorted: the order written is part of the Frame
    if kind == 'int_desc':
        return list(range(nr * 10, 0, -10))
    # depth 2, tree ordered but not sorted
    outer = rng.sample(['y', 'x', 'z'], min(3, max(1, (nr + 1) // 2)))
    labs = []
    for o in outer:
        for i in rng.sample([3, 1, 2], 2):
            if len(labs) < nr:
                labs.append((o, i))
    return sf.IndexHierarchy.from_labels(labs)


def fidelity_frames(rng, index_kind='str_sorted'):
    out = []
    for k in range(rng.randint(1, 5)):
        nr, nc = rng.randint(1, 4), rng.randint(1, 4)
        index = _fid_index(rng, nr, index_kind)
        nr = len(index)
        cols = []
        for j in range(nc):
            kind = rng.choice('ifsb')
            if kind == 'i':
                cols.append(np.array([rng.randint(-50, 5000) for _ in range(nr)], dtype=np.int64))
            elif kind == 'f':
                cols.append(np.array([rng.randint(-40, 40) / 4 + 0.125 for _ in range(nr)]))
            elif kind == 's':
                cols.append(np.array([rng.choice(['ab', 'c d', 'xyz', 'q']) for _ in range(nr)]))
            else:
                cols.append(np.array([rng.random() < 0.5 for _ in range(nr)]))
        f = sf.Frame.from_items(zip(['c%d' % j for j in range(nc)], cols), index=index, name='t%d' % (k * 7 % 5 + k))
        out.append(f)
    rng.shuffle(out)
    return out


def same_frame(a, b, exact):
    try:
        if list(a.index) != list(b.index) or list(a.columns) != list(b.columns) or a.shape != b.shape or a.name != b.name:
            return False
        for ca, cb in zip(a.iter_array(axis=0), b.iter_array(axis=0)):
            if exact and ca.dtype != cb.dtype:
                return False
            if ca.dtype.kind != cb.dtype.kind and not (ca.dtype.kind in 'US' and cb.dtype.kind in 'USO'):
                return False
            if ca.tolist() != cb.tolist():
                return False
        return True
    except Exception:
        return False


def roundtrip_event(ctx, fmt, workdir, k):
    index_kind = ctx.rng.choice(['str_sorted', 'str_any', 'int_any', 'int_any', 'int_desc', 'depth2'])
    frames = fidelity_frames(ctx.rng, index_kind)
    ctx.count('V_roundtrip_index_' + index_kind)
    fp = os.path.join(workdir, 'rt%d%s' % (k, EXT[fmt]))
    b = sf.Bus.from_frames(frames)
    kw = {'config': config_for(fmt)} if config_for(fmt) is not None else {}
    if kw and index_kind == 'depth2':
        kw = {'config': sf.StoreConfig(index_depth=2, columns_depth=1)}
    try:
        getattr(b, 'to_' + fmt)(fp, **kw)
        r = getattr(sf.Bus, 'from_' + fmt)(fp, **kw)
        labels_read = [str(x) for x in r.keys()]
        equal = [same_frame(f, r[f.name], fmt == 'zip_pickle') for f in frames if f.name in labels_read]
        lazy = not r._loaded.any() if False else True
    except Exception as e:
        labels_read, equal = ['error:' + type(e).__name__], [False]
    finally:
        if os.path.exists(fp):
            os.remove(fp)
    return {'name': 'roundtrip', 'start': True, 'fmt': fmt, 'bus': 0, 'labels_written': [f.name for f in frames], 'labels_read': labels_read, 'equal': equal,
            'coherent': True, 'ver': 1, 'outcome': 'ok', 'got': 0, 'sel': [], 'problems': []}


def main(ctx):
    quick = ctx.tier == 'quick'
    fmts = FORMATS + optional_formats()
    ctx.note('store formats exercised: %s' % ', '.join(fmts))
    for mp in (0, 1, 2):
        ctx.model_check('MC_C17', 'MC_C17_mp%d.cfg' % mp if quick else 'MC_C17_mp%d_thorough.cfg' % mp, timeout=12000, heap='12g', label='max_persist=%s' % (mp or 'None'))
    ctx.model_check('MC_C17', 'MC_C17_wide.cfg', timeout=12000, heap='12g', label='5 labels, max_persist=2, one Bus, depth 3')
    ctx.model_check('MC_C17', 'MC_C17_wide3.cfg', timeout=12000, heap='12g', label='5 labels, max_persist=3, one Bus, depth 3')
    ctx.exhaustive = True
    workdir = tlc.subdir('c17-stores')
    # R
    nb = 0
    for mp, cfgname in ((0, 'MC_C17_mp0.cfg'), (1, 'MC_C17_mp1.cfg'), (2, 'MC_C17_mp2.cfg'), (2, 'MC_C17_wide.cfg'), (3, 'MC_C17_wide3.cfg')):
        behs, _ = tlc.simulate('MC_C17', cfgname, num=40 if quick else 1500, depth=7, seed=ctx.seed + mp)
        for beh in behs:
            fmt = ctx.rng.choice(fmts if nb % 3 else ['zip_pickle'])
            d = os.path.join(workdir, 'r%d' % nb)
            os.makedirs(d)
            try:
                clause, detail = replay_behaviour(ctx, beh, fmt, d)
            finally:
                shutil.rmtree(d, ignore_errors=True)
            nb += 1
            ctx.replayed += 1
            if clause:
                ctx.violation('R', 'a real Bus driven along a behaviour of SFBus leaves it: ' + clause, case={'fmt': fmt, 'max_persist': mp, 'acts': [s['act'] for s in beh[1:]]}, actual=detail, clause=clause)
    ctx.log('R: %d behaviours replayed' % nb)
    # V
    events = []
    for h in range(220 if quick else 8000):
        fmt = ctx.rng.choice(fmts)
        d = os.path.join(workdir, 'v%d' % h)
        os.makedirs(d)
        try:
            history(ctx, fmt, d, events)
        finally:
            shutil.rmtree(d, ignore_errors=True)
        ctx.count('V_histories_' + fmt)
    for k in range(160 if quick else 3000):
        events.append(roundtrip_event(ctx, ctx.rng.choice(fmts), workdir, k))
        ctx.count('V_roundtrips')
    for k, ev in enumerate(events):
        ev['id'] = k
        for key in ('pre', 'post', 'new'):
            ev.setdefault(key, {'labels': [], 'held': [], 'lru': [], 'mp': 0})
        ev.setdefault('ok', True)
        ev.setdefault('labels_written', [])
        ev.setdefault('labels_read', [])
        ev.setdefault('equal', [])
    rej = ctx.validate_events('Trace_C17', 'Trace_C17.cfg', events, chunk=400, boundary=lambda ev: ev['start'])
    for ev in events:
        if ev['problems']:
            ctx.violation('V', 'a Bus holds a Frame that is not the one written under that label', case={k: ev[k] for k in ('name', 'fmt', 'route', 'sel', 'pre') if k in ev}, actual={'problems': ev['problems'], 'post': ev['post']}, clause='integrity')
        if ev['id'] in rej:
            ctx.violation('V', 'recorded %s (%s) violates %s' % (ev['name'], ev.get('route'), rej[ev['id']][0]),
                          case={k: ev[k] for k in ('name', 'fmt', 'route', 'sel', 'pre', 'coherent', 'ver', 'labels_written') if k in ev and ev[k] != []},
                          actual={k: ev[k] for k in ('outcome', 'got', 'post', 'new', 'labels_read', 'equal', 'ok') if k in ev}, clause=rej[ev['id']][0], expected=rej[ev['id']][1])
    # twin sweep: a Bus over a zip store, loaded piecemeal under max_persist by a random access history, against a Bus holding the same Frames in
    # memory; one access call (listed, or found by reading every public attribute) on both: the Frames handed out are the Frames stored
    import json
    from . import twin
    tdir = os.path.join(workdir, 'twin')
    os.makedirs(tdir, exist_ok=True)
    tev = twin.events(ctx.rng, 700 if quick else 15000, [twin.bus_pair_factory(tdir)])
    for k, ev in enumerate(tev):
        ev['id'] = k
    ctx.count('V_twin_bus', len(tev))
    trej = ctx.validate_events('Trace_C02', 'Trace.cfg', tev, chunk=600)
    for ev in tev:
        if ev['id'] in trej:
            ctx.violation('V', 'a call on a lazily loaded Bus differs from the same call on a Bus holding the Frames in memory: %s' % ev['what'], case={'method': ev['what'], 'info': ev['info']},
                          actual=json.loads(ev['stale']), expected=json.loads(ev['fresh']), clause=trej[ev['id']][0])
    shutil.rmtree(tdir, ignore_errors=True)
    ctx.sample({'leg': 'V', 'event': {k: events[0][k] for k in ('name', 'fmt', 'sel', 'pre', 'post', 'outcome')}})
    return ctx.finish(rule='M: 3 labels, <=2 live Bus objects, max_persist None / 1 / 2, every history of <=5 calls (plus 5 labels, one Bus, max_persist 2 / 3, depth 3) (single label, label lists in any order, derivations) interleaved with touch (newer / older mtime), rewrite, delete; '
                           'R: simulated behaviours driven through real Buses over zip pickle / csv / tsv and sqlite stores with the cache state compared after each step; '
                           'V: random histories (1-8 labels, max_persist None / 1 / 2 / 3 / 4 / n, a third of them starting with a late label loaded first and a slice spanning it, 8 selection routes, get(), items() / values / iter_element(_items), 13 status reads, 7 derivation routes, file touched newer / older, rewritten, deleted) validated statefully; write / reopen round trips of varied Frames per format; twin sweep: one access call (about 35 listed, the rest found among the public attributes) on a Bus loaded piecemeal from a zip store under max_persist against a Bus holding the same Frames in memory',
                      trusted=['TLC 1.8 + CommunityModules', 'os.utime / os.path.getmtime', 'assumption: a modified file never regains exactly the mtime the Store recorded'])


def replay(rec):
    import json
    print('a Bus history cannot be re-run from one event: the record holds the call, the cache state before / after and the expected transition; re-run ./check C17 with the same VERIF_SEED to regenerate the history')
    print(json.dumps({k: rec.get(k) for k in ('property', 'leg', 'clause', 'what', 'case', 'expected', 'actual')}, indent=1, default=str)[:6000])
    return 0
