'''C03 block-manager transparency and Frame coherence.
M: MC_C03 (block algorithms of SFBlocks refine the column-level model for every layout).
R: every (layout, op, key) state replayed on a real Frame built with exactly that layout.
V: (a) the selection/update operations of C04/C08 on every layout of random frames, validated by Trace_Ops;
   (b) an interface sweep: each public single-frame operation on the same logical Frame in several layouts,
       Trace_C03 checks all recorded results equal; (c) read routes vs ground truth.'''
import itertools
import json

import hashlib

import numpy as np

import static_frame as sf

from .. import core, project as P, tlaval
from . import common as C, ops, twin, c04, c08, shape

# ---------------------------------------------------------------------------------------------
# R


def _mc_frame(nc, nr):
    cols = []
    for j in range(1, nc + 1):
        if j <= nc - 1:
            cols.append({'dt': ['i', 64], 'vals': [['i', 10 * j + i] for i in range(1, nr + 1)]})
        else:
            cols.append({'dt': ['f', 64], 'vals': [['f', 2 * i + 1, 2] for i in range(1, nr + 1)]})
    return {'index': [['i', i] for i in range(nr)], 'columns': [['s', 'abcde'[j]] for j in range(nc)], 'cols': cols, 'name': ['none']}


def _flat(blocks):
    out = []
    for b in blocks:
        for c in b['cols']:
            out.append({'dt': b['dt'], 'vals': c})
    return out


def replay_state(ctx, cs, res, frame_abs, nr):
    lay = cs['layout']
    f = P.build_frame(frame_abs, lay)
    assert P.layout_of(f) == [list(x) for x in lay], 'harness could not realise the layout'
    rs = cs['rs']
    rkey = slice(None) if rs == list(range(nr)) else list(rs)
    ckey = C.py_iloc_key(cs['key'])
    op = cs['op']
    try:
        if op == 'select':
            tb = f._blocks._extract(rkey if rs != list(range(nr)) else None, ckey)
            blocks = tb._blocks if isinstance(tb, sf.TypeBlocks) else None
        elif op == 'drop':
            blocks = list(f._blocks._drop_blocks(None if not rs else list(rs), ckey))
        else:
            blocks = list(f._blocks._mask_blocks(None if rs == list(range(nr)) else list(rs), ckey))
    except Exception as e:  # noqa
        return {'k': 'err', 'cat': P.err_category(e)}, None
    flat = []
    layout = []
    for b in blocks:
        if b.ndim == 1:
            flat.append({'dt': P.enc_dtype(b.dtype), 'vals': P.enc_array(b)})
            layout.append([1, 1])
        else:
            for j in range(b.shape[1]):
                flat.append({'dt': P.enc_dtype(b.dtype), 'vals': P.enc_array(b[:, j])})
            layout.append([b.shape[1], 2])
    return {'k': 'cols', 'cols': flat}, layout


# ---------------------------------------------------------------------------------------------
# V (b): interface sweep

def _p(x):
    '''Project any result of a public call.'''
    if isinstance(x, (sf.Frame, sf.Series, np.ndarray)) or isinstance(x, P.IndexBase):
        return P.proj(x)
    if isinstance(x, (tuple, list)):
        return {'k': 'seq', 'items': [_p(i) for i in x]}
    if isinstance(x, dict):
        return {'k': 'seq', 'items': [[P.enc(k), _p(v)] for k, v in x.items()]}
    return {'k': 'elem', 'v': P.enc(x)}


def _bloc_mask(f):
    m = np.zeros(f.shape, dtype=bool)
    m[0, :] = True
    m[-1, ::2] = True
    return m


def _bloc_series(f, as_hierarchy):
    '''one distinct value per selected (row label, column label) coordinate'''
    m = _bloc_mask(f)
    coords = [(f.index[i], f.columns[j]) for i, j in zip(*np.nonzero(m))]
    vals = np.arange(100, 100 + len(coords))
    return sf.Series(vals, index=sf.IndexHierarchy.from_labels(coords) if as_hierarchy else sf.Index(coords))


SWEEP = {
    'values': lambda f: f.values,
    'assign_bloc_series': lambda f: f.assign.bloc[_bloc_mask(f)](_bloc_series(f, True)),
    'assign_bloc_series_flat': lambda f: f.assign.bloc[_bloc_mask(f)](_bloc_series(f, False)),
    # (the function is given the selected cells in an order that follows the layout - known finding C03-bloc-order-follows-layout - so the value it returns for a cell depends on the cell's labels only)
    'assign_bloc_apply': lambda f: f.assign.bloc[_bloc_mask(f)].apply(lambda s: sf.Series([list(f.columns).index(c) * 7 + list(f.index).index(r) for r, c in s.index], index=s.index)),
    'assign_bloc_frame_mask_series': lambda f: f.assign.bloc[sf.Frame(_bloc_mask(f), index=f.index, columns=f.columns)](_bloc_series(f, True)),
    'shape': lambda f: f.shape,
    'dtypes': lambda f: f.dtypes,
    'transpose': lambda f: f.transpose(),
    'head': lambda f: f.head(2),
    'tail': lambda f: f.tail(2),
    'shift_r': lambda f: f.shift(1),
    'shift_c': lambda f: f.shift(0, 1),
    'shift_both_fill': lambda f: f.shift(-1, -1, fill_value=0),
    'roll_r': lambda f: f.roll(1),
    'roll_c': lambda f: f.roll(0, 1),
    'roll_neg': lambda f: f.roll(-1, -2, include_index=True, include_columns=True),
    'sort_index_desc': lambda f: f.sort_index(ascending=False),
    'sort_columns': lambda f: f.sort_columns(),
    'sort_values_col0': lambda f: f.sort_values(f.columns[0]),
    'sort_values_row0': lambda f: f.sort_values(f.index[0], axis=0),
    'isna': lambda f: f.isna(),
    'notna': lambda f: f.notna(),
    'fillna0': lambda f: f.fillna(0),
    'ffill_axis0': lambda f: f.fillna_forward(),
    'ffill_axis1': lambda f: f.fillna_forward(axis=1),
    'bfill_axis1_limit1': lambda f: f.fillna_backward(1, axis=1),
    'fill_leading_axis1': lambda f: f.fillna_leading(-1, axis=1),
    'fill_trailing_axis1': lambda f: f.fillna_trailing(-1, axis=1),
    'dropna_rows_any': lambda f: f.dropna(condition=np.any),
    'dropna_cols_all': lambda f: f.dropna(axis=1),
    'count0': lambda f: f.count(axis=0),
    'count1': lambda f: f.count(axis=1),
    'sum0': lambda f: f.sum(axis=0),
    'sum1': lambda f: f.sum(axis=1),
    'min0': lambda f: f.min(axis=0),
    'max1': lambda f: f.max(axis=1),
    'mean0': lambda f: f.mean(axis=0),
    'prod1': lambda f: f.prod(axis=1),
    'all0': lambda f: f.all(axis=0),
    'any1': lambda f: f.any(axis=1),
    'cumsum0': lambda f: f.cumsum(axis=0),
    'cumsum1': lambda f: f.cumsum(axis=1),
    'neg': lambda f: -f,
    'add1': lambda f: f + 1,
    'mul_self': lambda f: f * f,
    'eq_self': lambda f: f == f,
    'lt_scalar': lambda f: f < 2,
    'add_series_cols': lambda f: f + sf.Series(range(len(f.columns)), index=f.columns),
    'astype_object': lambda f: f.astype(object),
    'astype_last_float': lambda f: f.astype[f.columns[-1]](float),
    # non-contiguous keys towards a dtype some block already has: the per-block generator skips and resumes
    'astype_alternate_to_first_dtype': lambda f: f.astype[sorted(set(list(range(0, len(f.columns), 2)) + [len(f.columns) - 1]))](f.dtypes.values[0]) if False else f.astype[[f.columns[i] for i in sorted(set(list(range(0, len(f.columns), 2)) + [len(f.columns) - 1]))]](f.dtypes.values[0]),
    'astype_alternate_to_last_dtype': lambda f: f.astype[[f.columns[i] for i in sorted(set([0] + list(range(1, len(f.columns), 2))))]](f.dtypes.values[-1]),
    'astype_ends_to_middle_dtype': lambda f: f.astype[[f.columns[0], f.columns[len(f.columns) // 2], f.columns[-1]]](f.dtypes.values[len(f.columns) // 2]) if len(f.columns) >= 3 else f.astype(f.dtypes.values[0]),
    'rename': lambda f: f.rename('x'),
    'relabel_cols': lambda f: f.relabel(columns=lambda x: (x, 1)),
    'reindex_cols_rev': lambda f: f.reindex(columns=list(reversed(list(f.columns)))),
    'reindex_rows_extra': lambda f: f.reindex(index=list(f.index)[::-1] + ['__new__'], fill_value=None),
    'iter_array0': lambda f: tuple(f.iter_array(axis=0)),
    'iter_array1': lambda f: tuple(f.iter_array(axis=1)),
    'iter_series0': lambda f: tuple(f.iter_series(axis=0)),
    'iter_series1': lambda f: tuple(f.iter_series(axis=1)),
    'iter_tuple1': lambda f: tuple(tuple(t) for t in f.iter_tuple(axis=1)),
    'iter_element': lambda f: tuple(f.iter_element()),
    'iter_element_items': lambda f: tuple((k, v) for k, v in f.iter_element_items()),
    'to_pairs0': lambda f: f.to_pairs(0),
    'to_pairs1': lambda f: f.to_pairs(1),
    'drop_duplicated': lambda f: f.drop_duplicated(),
    'duplicated1': lambda f: f.duplicated(axis=1),
    'unique': lambda f: f.unique(),
    'isin': lambda f: f.isin((1, 2, 'x')),
    'clip': lambda f: f.clip(lower=0, upper=2),
    # Frame-valued bounds whose OWN block layout differs from the target's: one wide 2-D block, all 1-D columns, and a (1, rest) split
    'clip_lower_frame_one_block': lambda f: f.clip(lower=sf.Frame(np.tile(np.arange(len(f.columns)) - 1.0, (len(f.index), 1)), index=f.index, columns=f.columns)),
    'clip_upper_frame_columns': lambda f: f.clip(upper=sf.Frame.from_items(((c, np.full(len(f.index), j)) for j, c in enumerate(f.columns)), index=f.index)),
    'clip_both_frame_split': lambda f: f.clip(lower=sf.Frame.from_concat((sf.Frame(np.full((len(f.index), 1), -1), index=f.index, columns=f.columns[:1]),
                                                                         sf.Frame(np.tile(np.arange(1, len(f.columns)), (len(f.index), 1)), index=f.index, columns=f.columns[1:])), axis=1),
                                             upper=sf.Frame(np.tile(np.arange(len(f.columns)) + 2, (len(f.index), 1)), index=f.index, columns=f.columns)),
    'clip_lower_series_cols': lambda f: f.clip(lower=sf.Series(np.arange(len(f.columns)), index=f.columns), axis=1),
    'set_index0': lambda f: f.set_index(f.columns[0]),
    'set_index0_drop': lambda f: f.set_index(f.columns[0], drop=True),
    'unset_index': lambda f: f.unset_index(),
    'insert_after0': lambda f: f.insert_after(f.columns[0], sf.Series(range(len(f.index)), index=f.index, name='__ins__')),
    'drop_first_last_cols': lambda f: f.drop.iloc[:, [0, -1]],
    'iloc_rev_cols': lambda f: f.iloc[:, ::-1],
    'iloc_step2': lambda f: f.iloc[::2, 1::2],
    'iloc_row_last': lambda f: f.iloc[-1],
    'iloc_mask_rows': lambda f: f.iloc[np.arange(len(f.index)) % 2 == 0],
    'loc_bool_series': lambda f: f.loc[sf.Series(np.arange(len(f.index)) % 2 == 0, index=f.index)],
    'bloc_notna_set': lambda f: sorted(f.bloc[(f.notna()).values].to_pairs(), key=repr),
    'bloc_notna': lambda f: f.bloc[(f.notna()).values],
    'assign_col0': lambda f: f.assign[f.columns[0]](-1),
    'assign_row_none': lambda f: f.assign.iloc[0](None),
    'assign_bloc_vals': lambda f: f.assign.bloc[f.isna()](0).values,
    'equals_self_copy': lambda f: f.equals(f.iloc[:, :]),
    'to_frame_go_values': lambda f: f.to_frame_go().values,
    'via_T_add': lambda f: f.via_T + sf.Series(range(len(f.index)), index=f.index),
    'iter_group_col0': lambda f: tuple((k, g) for k, g in f.iter_group_items(f.columns[0])),
    'iter_window2': lambda f: tuple(f.iter_window(size=2)),
    'pivot_stack': lambda f: f.pivot_stack(),
    'rank? skip': None,
    'from_concat_self': lambda f: sf.Frame.from_concat((f, f.relabel(index=lambda x: ('z', x))), axis=0),
    'from_concat_cols': lambda f: sf.Frame.from_concat((f, f.relabel(columns=lambda x: ('z', x))), axis=1),
    'loc_min1': lambda f: f.loc_min(axis=1),
    'iloc_max0': lambda f: f.iloc_max(axis=0),
    'var0': lambda f: f.var(axis=0),
    'median1': lambda f: f.median(axis=1),
    'pickle': lambda f: __import__('pickle').loads(__import__('pickle').dumps(f)),
    'interface_free_repr_shape': lambda f: (f.size, f.ndim, f.nbytes > -1, len(f)),
}
SWEEP = {k: v for k, v in SWEEP.items() if v is not None}


AUTO_LEFT_OUT = {'sum', 'prod', 'min', 'max', 'mean', 'median', 'std', 'var', 'all', 'any', 'cumsum', 'cumprod', 'loc_min', 'loc_max', 'iloc_min', 'iloc_max', 'cov', 'count'}


def sweep_events(ctx, n_frames, start_id):
    events = []
    rng = ctx.rng
    eid = start_id
    for _ in range(n_frames):
        kinds = rng.choice(['if', 'if', 'if', 'ifb', 'ifO', 'iU', 'fO', 'i', 'f', 'ifbUO'])
        f = C.rand_frame(rng, 4, 6, kinds=kinds, min_rows=1, min_cols=2, na=rng.choice([0.0, 0.3, 0.5]),
                         index_kind=rng.choice(['str', 'int', 'auto']), columns_kind='str')
        lays = P.layouts_for([c['dt'] for c in f['cols']])
        if len(lays) > 5:
            lays = [lays[0], lays[-1]] + rng.sample(lays[1:-1], 3)
        if len(lays) < 2:
            continue
        frames = [P.build_frame(f, lay) for lay in lays]
        names = sorted(SWEEP)
        texty = any(c['dt'][0] in 'UO' for c in f['cols'])
        bigint = any(v[0] == 'i' and abs(v[1]) > 50 for c in f['cols'] for v in c['vals'])
        for name in names:
            if 'prod' in name and texty and bigint:
                continue          # text times a large integer is that many copies of the text (gigabytes for a row of them): not generated
            fn = SWEEP[name]
            results = []
            for fr in frames:
                try:
                    res = _p(fn(fr))
                    blob = json.dumps(res)
                    if len(blob) > 200000:
                        # (a product over text and numbers repeats the text: gigabytes) compared by digest instead of cell by cell
                        res = {'k': 'big', 'sha': hashlib.sha1(blob.encode()).hexdigest(), 'len': len(blob)}
                    results.append(res)
                except MemoryError:
                    results.append({'k': 'err', 'cat': 'memory'})
                except Exception as e:  # error class is an observable here
                    # (except for astype, where the class depends on which unconvertible cell NumPy meets first: TypeError for None, ValueError for text)
                    results.append({'k': 'err', 'cat': 'conversion' if name.startswith('astype') else P.err_category(e)})
            events.append({'id': eid, 'kind': 'sweep', 'op': name, 'f': f, 'layouts': lays, 'results': results})
            ctx.count('V_sweep_' + ('err' if results[0].get('k') == 'err' else 'ok'))
            eid += 1
        # found, not listed: public attributes of the class read (called without arguments when callable, iterators run) on every layout; the
        # reductions are left to the named operations above (their behaviour over object / text columns is classified there)
        auto = twin._auto_methods(frames[0])
        names_auto = [a for a in sorted(auto) if a.split(':')[1] not in AUTO_LEFT_OUT]
        for name in rng.sample(names_auto, min(10, len(names_auto))):
            results = []
            for fr in frames:
                blob = json.dumps(twin._call(auto[name], fr), sort_keys=True, default=str)
                results.append(blob if len(blob) < 200000 else hashlib.sha1(blob.encode()).hexdigest())
            events.append({'id': eid, 'kind': 'sweep', 'op': name, 'f': f, 'layouts': lays, 'results': results})
            ctx.count('V_sweep_auto')
            eid += 1
    return events


GO_DERIVE = {
    'round': lambda f: round(f, 1), 'neg': lambda f: -f, 'abs': lambda f: abs(f), 'add1': lambda f: f + 1, 'clip': lambda f: f.clip(lower=0, upper=2),
    'fillna': lambda f: f.fillna(0), 'iloc_all': lambda f: f.iloc[:, :], 'transpose2': lambda f: f.T.T, 'sort_columns': lambda f: f.sort_columns(ascending=False),
    'rename': lambda f: f.rename('r'), 'roll': lambda f: f.roll(1, 1), 'shift': lambda f: f.shift(0, 1, fill_value=f.iloc[0, 0]), 'astype_same': lambda f: f.astype(f.dtypes.values[0]),
    'round0': lambda f: round(f), 'round_neg': lambda f: round(f, -1), 'relabel': lambda f: f.relabel(columns=lambda c: c), 'relabel_index': lambda f: f.relabel(index=lambda c: c),
    # (shape-changing calls too: the reading is compared with the blocks of whatever Frame results)
    'drop_first': lambda f: f.drop.iloc[:, 0] if f.shape[1] > 1 else f.iloc[:, :], 'iloc_tail': lambda f: f.iloc[:, 1:] if f.shape[1] > 1 else f.iloc[:, :],
    'head': lambda f: f.head(2), 'sort_values': lambda f: f.sort_values(f.columns[0]), 'assign_col': lambda f: f.assign[f.columns[0]](f[f.columns[0]].values),
    'insert_after': lambda f: f.insert_after(f.columns[-1], f.relabel(columns=lambda c: 'ins_%s' % (c,))), 'insert_before': lambda f: f.insert_before(f.columns[0], f.iloc[:, :1].relabel(columns=('ins_0',))),
    'from_concat': lambda f: type(f).from_concat((f,)), 'loc_rows': lambda f: f.loc[list(f.index)[::-1]], 'dropna': lambda f: f.dropna(axis=1, condition=np.all),
    'getitem_all': lambda f: f[list(f.columns)], 'reindex_cols': lambda f: f.reindex(columns=list(f.columns)[::-1]), 'drop_none': lambda f: f.drop[[]],
}


def _go_history(rng, f, lay):
    '''a grow-only Frame of ONE dtype, a Frame derived from it by a class-preserving call, then growth of both by different widths: the Frame
    that is read afterwards must still be one coherent table (each keeps its own column -> block map)'''
    src = P.build_frame(f, lay, cls=sf.FrameGO)
    name = rng.choice(sorted(GO_DERIVE))
    res = GO_DERIVE[name](src)
    if not isinstance(res, sf.FrameGO):
        res = res.to_frame_go()
    k_src, k_res = rng.choice([(1, 2), (2, 1), (0, 2), (2, 0), (1, 3)])
    for target, k, tag in ((src, k_src, 's'), (res, k_res, 'r')):
        dt = target.dtypes.values[0] if target.shape[1] else src.dtypes.values[0]          # (a derivation may have dropped every column)
        for j in range(k):
            target['%s_new%d' % (tag, j)] = np.full(len(target.index), j + 7).astype(dt)
    return (src if rng.random() < 0.5 else res), name


def routes_events(ctx, n, start_id):
    events = []
    rng = ctx.rng
    for i in range(n):
        derived = None
        if rng.random() < 0.5:
            f = C.rand_frame(rng, 4, 5, kinds=rng.choice(['i', 'f']), na=0.2, min_rows=1, min_cols=1, index_kind=rng.choice(['str', 'int']), columns_kind='str')
            lay = C.rand_layout(rng, f)
            try:
                fr, derived = _go_history(rng, f, lay)
            except Exception as e:
                ctx.violation('V', 'growing a FrameGO and a Frame derived from it raised', case={'f': f, 'layout': lay}, actual=P.proj_err(e), clause='go_history_error')
                continue
            ctx.count('V_routes_go_history')
        else:
            f = C.rand_frame(rng, 4, 5, kinds=rng.choice(['if', 'ifb', 'ifbUO', 'iU', 'fO']), na=0.2,
                             index_kind=rng.choice(['str', 'int', 'auto']), columns_kind='str')
            lay = C.rand_layout(rng, f)
            fr = P.build_frame(f, lay)
        nr, nc = len(fr.index), len(fr.columns)

        def read(fn, fail):
            '''a route that raises is recorded as a reading that cannot match (named by the verdict)'''
            try:
                return fn()
            except Exception:
                if derived is None:
                    raise
                return fail

        def elements():
            it = iter(fr.iter_element())
            return [[P.enc(next(it)) for _ in range(nc)] for _ in range(nr)]
        ev = {'id': start_id + i, 'kind': 'routes', 'layout': lay, 'derived': derived or '',
              'f': {'index': P.labels_of(fr.index), 'columns': P.labels_of(fr.columns),
                    'cols': [{'dt': P.enc_dtype(a.dtype), 'vals': P.enc_array(a)} for a in P.raw_columns(fr)]},
              'shape': read(lambda: list(fr.shape), [-1, -1]),
              'values': read(lambda: [P.enc_array(r) for r in fr.values] if nc else [[] for _ in range(nr)], []),
              'cells': read(lambda: [[P.enc(fr.iloc[i, j]) for j in range(nc)] for i in range(nr)], []),
              'iter_array': read(lambda: [{'dt': P.enc_dtype(a.dtype), 'vals': P.enc_array(a)} for a in fr.iter_array(axis=0)], []),
              'iter_series': read(lambda: [{'label': P.enc(s.name), 'index': P.labels_of(s.index), 'dt': P.enc_dtype(s.values.dtype), 'vals': P.enc_array(s.values)} for s in fr.iter_series(axis=0)], []),
              'iter_element': read(elements, []),
              'to_pairs': read(lambda: [[P.enc(k), [[P.enc(a), P.enc(b)] for a, b in v]] for k, v in fr.to_pairs(axis=0)], [])}
        events.append(ev)
    return events


def main(ctx):
    quick = ctx.tier == 'quick'
    nc, nr = (3, 2) if quick else (4, 2)
    r = ctx.model_check('MC_C03', 'MC_C03_quick.cfg' if quick else 'MC_C03_thorough.cfg', dump=True, timeout=6000, heap='12g')
    # ---- R
    if r.ok and r.dump:
        fa = _mc_frame(nc, nr)
        frac = 0.12 if quick else 1.0
        n = 0
        for st in tlaval.iter_dump(r.dump):
            res = tlaval.plain(st['res'])
            if res.get('k') != 'blocks':
                continue
            if frac < 1.0 and ctx.rng.random() > frac:
                continue
            cs = tlaval.plain(st['cs'])
            if len(set(x % nc for x in (cs['key'][1] if cs['key'][0] == 'list' else []))) != len(cs['key'][1] if cs['key'][0] == 'list' else []):
                continue  # repeated positions: unobservable through a Frame (labels would repeat)
            n += 1
            act, lay = replay_state(ctx, cs, res, fa, nr)
            exp = {'k': 'cols', 'cols': _flat(res['blocks'])}
            ctx.replayed += 1
            ctx.count('R_' + cs['op'])
            if act != exp:
                if cs['op'] == 'select' and not exp['cols'] and act.get('k') == 'cols' and not act['cols']:
                    continue
                ctx.violation('R', 'block-level result on this layout differs from the specification', case=cs, expected=exp, actual=act)
            else:
                pl = [[len(b['cols']), b['nd']] for b in res['blocks']]
                if lay is not None and lay != pl and len(ctx.drift) < 20:
                    ctx.drift.append({'case': cs, 'predicted_layout': pl, 'real_layout': lay})
                    ctx.count('DRIFT_result_layout')
            if n <= 2:
                ctx.sample({'leg': 'R', 'case': cs, 'expected_blocks': res['blocks']})
        ctx.exhaustive = not quick
    # ---- V (a): C04/C08 operations on every layout; TLC (Trace_C03) decides that all results are equal
    xl = []
    ncases = 500 if quick else 8000
    for i in range(ncases):
        cs, _ = (c04.gen_case if i % 2 else c08.gen_case)(ctx.rng)
        if 'f' not in cs:
            continue
        def _dups(k):
            if not k:
                return False
            if k[0] == 'iloc':
                return _dups(k[1])
            if k[0] == 'list':
                n = len(cs['f']['columns']) if k is cs.get('ck') or (cs.get('ck') and cs['ck'][0] == 'iloc' and k is cs['ck'][1]) else len(cs['f']['index'])
                return len({x % n if n else x for x in k[1]}) != len(k[1])
            return k[0] == 'loclist' and len({json.dumps(x) for x in k[1]}) != len(k[1])
        if _dups(cs.get('rk')) or _dups(cs.get('ck')):
            continue  # keys repeating a position/label: rejected or unspecified, never a layout question
        lays = ops.layouts_of_case(cs)
        if len(lays) < 2:
            continue
        if len(lays) > 6:
            lays = ctx.rng.sample(lays, 6)
        results = [ops.run_case(cs, lay, raw=True) for lay in lays]
        xl.append({'id': len(xl), 'kind': 'sweep', 'op': cs['op'], 'cs': cs, 'f': cs['f'], 'layouts': lays, 'results': results})
        ctx.count('V_ops_cases')
    # ---- V (b) + (c)
    sw = xl + sweep_events(ctx, 80 if quick else 1500, len(xl))
    ro = routes_events(ctx, 500 if quick else 8000, len(sw))
    rej = ctx.validate_events('Trace_C03', 'Trace.cfg', sw + ro, chunk=250)
    for ev in sw + ro:
        if ev['id'] in rej:
            clause, which = rej[ev['id']]
            if ev['kind'] == 'sweep':
                ctx.violation('V', 'operation %s gives different results for different block layouts' % ev['op'],
                              case={'op': ev['op'], 'cs': ev.get('cs'), 'f': ev['f'], 'layouts': [ev['layouts'][0], ev['layouts'][which - 1] if which else None]},
                              expected=ev['results'][0], actual=ev['results'][which - 1] if which else None, clause=clause)
            else:
                ctx.violation('V', 'read routes disagree', case={'f': ev['f'], 'layout': ev['layout']}, actual={k: ev[k] for k in ('shape', 'values', 'cells')}, clause=clause)
    if sw:
        ctx.sample({'leg': 'V', 'sweep_event': {k: sw[0][k] for k in ('op', 'layouts')}, 'result0': sw[0]['results'][0]})
    # ---- probe: the same columns in the same block layout, built in one go and grown by one append (recorded as C03-grown-row-dtype)
    a2 = np.array([[1.5], [2.5]])
    b1 = np.array([3, 4])
    for x in (a2, b1):
        x.flags.writeable = False
    direct = sf.FrameGO(sf.TypeBlocks.from_blocks((a2, b1)), columns=('p', 'q'))
    grown = sf.FrameGO(sf.TypeBlocks.from_blocks((a2,)), columns=('p',))
    grown['q'] = b1
    cols_equal = all(x.dtype == y.dtype and x.tolist() == y.tolist() for x, y in zip(direct.iter_array(axis=0), grown.iter_array(axis=0))) and P.layout_of(direct) == P.layout_of(grown)
    if P.enc_dtype(direct.values.dtype) != P.enc_dtype(grown.values.dtype) or direct.transpose().dtypes.values.tolist() != grown.transpose().dtypes.values.tolist():
        ctx.violation('V', 'a grown FrameGO and the same Frame built in one go (equal columns, equal block layout) read their rows with different dtypes',
                      case={'probe': 'grown_row_dtype', 'op': 'values'}, expected={'values_dtype': P.enc_dtype(direct.values.dtype)},
                      actual={'grown_values_dtype': P.enc_dtype(grown.values.dtype), 'columns_equal': bool(cols_equal)}, clause='history_observable')
    # ---- shape family (SFShape / MC_SHAPE): each operation has ONE prescribed result, executed on block layouts
    shape.run(ctx, 1500 if quick else 40000)
    ctx.counters['sweep_ops'] = len(SWEEP)
    return ctx.finish(rule='M/R: every admissible layout x select/drop/mask x column key (all slices, lists, masks) x 4 row selections of MC_C03 (quick replays a 12%% seeded sample of the dump, thorough all); V: C04/C08 random operations on up to 6 layouts each + %d-operation interface sweep on up to 5 layouts + read-route events; shape family: every state of MC_SHAPE (reindex / roll / shift / head / tail / duplicated / drop_duplicated / isin / transpose / clip / searchsorted (positions and labels, both sides, element and array forms) on a 3x4 Frame and Series, 4x4 thorough) replayed on block layouts, plus seeded random cases validated by Trace_Ops' % len(SWEEP))
