'''C15 axis reductions: Frame.f(axis) = f applied independently to every column / row; skipna semantics;
layout independence.  Values are compared as exact rationals (floats are mapped back to the rational with a
denominator <= 10**4 they approximate; float rounding itself is out of scope).'''
from fractions import Fraction
import math

import numpy as np

import static_frame as sf

from .. import core, project as P
from . import common as C, ops

FNS = ['sum', 'prod', 'min', 'max', 'mean', 'median', 'var', 'std', 'all', 'any']


def num(v):
    '''canonical numeric encoding'''
    if isinstance(v, (bool, np.bool_)):
        return ['q', int(v), 1]
    if isinstance(v, (int, np.integer)):
        return ['q', int(v), 1]
    if isinstance(v, (float, np.floating)):
        v = float(v)
        if math.isnan(v):
            return ['nan']
        if math.isinf(v):
            return ['inf', 1 if v > 0 else -1]
        q = Fraction(v).limit_denominator(10 ** 4)
        return ['q', q.numerator, q.denominator]
    if v is None:
        return ['nan']
    if isinstance(v, np.datetime64) and np.isnat(v):
        return ['nan']
    return P.enc(v)


def _sq(t):
    if t[0] == 'q':
        q = Fraction(Fraction(t[1], t[2]) ** 2).limit_denominator(10 ** 4)
        # square the float, not the rounded rational
        return ['q', q.numerator, q.denominator]
    return t


def call_reduce(obj, fn, axis, skipna, ddof, is_series=False):
    kw = {'skipna': skipna}
    if not is_series:
        kw['axis'] = axis
    real = fn
    if fn in ('var', 'std'):
        kw['ddof'] = ddof
    return getattr(obj, real)(**kw)


def run_case(cs, layout=None):
    f = P.build_frame(cs['f'], layout)
    op = cs['op']
    axis, skipna = cs['axis'], cs['skipna']
    lines = [f.iloc[:, j] for j in range(f.shape[1])] if axis == 0 else [f.iloc[i] for i in range(f.shape[0])]

    def guard(fn):
        try:
            return fn()
        except Exception as e:
            return {'k': 'err', 'cat': P.err_category(e)}
    if op == 'f_reduce':
        via = cs.get('via', cs['fn'])
        post = (lambda t: _sq_float(t)) if via == 'std' else (lambda t: t)

        def conv(x):
            if via == 'std' and isinstance(x, (float, np.floating)) and not math.isnan(x):
                x = float(x) * float(x)
            return num(x)
        res = guard(lambda: (lambda s: {'k': 'nseries', 'index': P.labels_of(s.index), 'vals': [conv(x) for x in s.values]})(call_reduce(f, via, axis, skipna, cs['ddof'])))
        per = [guard(lambda ln=ln: {'k': 'elem', 'v': conv(call_reduce(ln, via, axis, skipna, cs['ddof'], True))}) for ln in lines]
    elif op == 'f_cum':
        res = guard(lambda: (lambda r: {'k': 'nframe', 'index': P.labels_of(r.index), 'columns': P.labels_of(r.columns),
                                        'cols': [[num(x) for x in col] for col in P.raw_columns(r)]})(getattr(f, cs['fn'])(axis=axis, skipna=skipna)))
        per = [guard(lambda ln=ln: {'k': 'seq', 'vals': [num(x) for x in getattr(ln, cs['fn'])(skipna=skipna).values]}) for ln in lines]
    elif op == 'f_arg':
        name = 'iloc_min' if cs['fn'] == 'argmin' else 'iloc_max'
        res = guard(lambda: (lambda s: {'k': 'nseries', 'index': P.labels_of(s.index), 'vals': [num(x) if not (isinstance(x, float) and math.isnan(x)) else ['q', -2, 1] for x in s.values]})(getattr(f, name)(axis=axis, skipna=skipna)))
        per = [guard(lambda ln=ln: {'k': 'elem', 'v': (lambda x: num(x) if not (isinstance(x, float) and math.isnan(x)) else ['q', -2, 1])(getattr(ln, name)(skipna=skipna))}) for ln in lines]
    else:
        raise ValueError(op)
    return res, per


def gen_case(rng):
    kinds = rng.choice(['if', 'if', 'ifb', 'f', 'i', 'b', 'fb', 'ib', 'ifb', 'ifb', 'ifO', 'iU', 'fM'])
    f = C.rand_frame(rng, 4, 4, kinds=kinds, min_rows=1, min_cols=1, na=rng.choice([0.0, 0.25, 0.5]), index_kind='str', columns_kind='str', name=False)
    # keep magnitudes small (exact rationals in TLC are 32-bit)
    for c in f['cols']:
        c['vals'] = [['i', max(-3, min(3, v[1]))] if v[0] == 'i' else v for v in c['vals']]
    narrow = rng.random()
    if narrow < 0.2:
        # one dtype for the whole row and several columns: all-Boolean, or 8-bit integers near their bounds, where a partial result written
        # back into the row dtype (Boolean / int8) loses the count or wraps
        f = C.rand_frame(rng, 4, 5 if narrow < 0.1 else 4, kinds='b' if narrow < 0.1 else 'i', min_rows=1, min_cols=2, na=0.0, index_kind='str', columns_kind='str', name=False)
        if narrow >= 0.1:
            for c in f['cols']:
                c['dt'] = ['i', 8]
                c['vals'] = [['i', rng.choice([100, 120, 127, -128, -100, 3, 60])] for _ in c['vals']]
    r = rng.random()
    if r < 0.75:
        fn = rng.choice(FNS)
        if narrow < 0.2 and rng.random() < 0.5:
            fn = 'sum'
        cs = {'op': 'f_reduce', 'f': f, 'fn': 'var' if fn == 'std' else fn, 'axis': rng.choice([0, 1]), 'skipna': rng.random() < 0.6, 'ddof': rng.choice([0, 1]) if fn in ('var', 'std') else 0}
        if fn == 'std':
            cs['via'] = 'std'
    elif r < 0.87:
        if rng.random() < 0.4:
            # an axis of length one (one row, or one column) holding missing values: accumulating over a single position still skips them
            one_row = rng.random() < 0.5
            f = C.rand_frame(rng, 1 if one_row else 4, 4 if one_row else 1, kinds=rng.choice(['f', 'if', 'f']), min_rows=1, min_cols=1, na=0.5, index_kind='str', columns_kind='str', name=False)
            for c in f['cols']:
                c['vals'] = [['i', max(-3, min(3, v[1]))] if v[0] == 'i' else v for v in c['vals']]
        cs = {'op': 'f_cum', 'f': f, 'fn': rng.choice(['cumsum', 'cumprod']), 'axis': rng.choice([0, 1]), 'skipna': rng.random() < 0.6}
    else:
        cs = {'op': 'f_arg', 'f': f, 'fn': rng.choice(['argmin', 'argmax']), 'axis': rng.choice([0, 1]), 'skipna': True}
    return cs, C.rand_layout(rng, f)


def main(ctx):
    quick = ctx.tier == 'quick'
    r = ctx.model_check('MC_C15', 'MC_C15_quick.cfg', dump=True, timeout=6000)
    if not quick:
        ctx.model_check('MC_C15', 'MC_C15_thorough.cfg', dump=False, timeout=6000, heap='12g')
    ctx.model_check('MC_C15', 'MC_C15_neg.cfg', expect_violation='TwoStageSoundForAll', coverage=False)
    if r.ok and r.dump:
        n = 0
        for cs, exp in core.cases_from_dump(r.dump):
            if quick and cs['f']['cols'][0]['dt'][0] != 'b' and ctx.rng.random() > 0.3:
                continue
            n += 1
            lays = P.layouts_for([c['dt'] for c in cs['f']['cols']])
            for lay in lays:
                act, per = run_case(cs, lay)
                ctx.replayed += 1
                if act != exp and not (act.get('k') == 'err' and exp.get('k') == 'err'):
                    ctx.violation('R', 'reduction differs from the specification', case={'cs': cs, 'layout': lay}, expected=exp, actual=act)
            if n <= 2:
                ctx.sample({'leg': 'R', 'case': cs, 'expected': exp})
        ctx.exhaustive = True
    events, meta = [], {}
    for i in range(2500 if quick else 50000):
        cs, lay = gen_case(ctx.rng)
        res, per = run_case(cs, lay)
        events.append({'id': i, 'cs': cs, 'res': res, 'per': per})
        meta[i] = lay
        ctx.count('V_' + cs['op'] + '_' + cs['fn'])
    rej = ctx.validate_events('Trace_C15', 'Trace.cfg', events)
    for ev in events:
        if ev['id'] in rej:
            ctx.violation('V', 'recorded reduction violates ' + rej[ev['id']][0], case={'cs': ev['cs'], 'layout': meta[ev['id']], 'per': ev['per']},
                          actual=ev['res'], clause=rej[ev['id']][0], expected=rej[ev['id']][1])
    ctx.sample({'leg': 'V', 'event': events[0]})
    return ctx.finish(rule='M: every 2x2 (thorough also 2x3) Frame over {0,1,2,1/2,NaN} x 9 functions x axis x skipna x ddof; R: each on every block layout (quick: 30%% sample); V: seeded random frames (int/float/bool/object/str/datetime mixes, a fifth of them all-Boolean or all-int8 near the bounds, random layout) x reductions / cumulative / arg functions, each recorded with the per-column or per-row Series results of the real code')
