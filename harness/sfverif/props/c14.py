'''C14 missing-value operations: isna/notna, dropna, fillna, directional / sided fills, count.'''
from . import common as C, ops

run_case = ops.run_case
FILLS = [['i', 0], ['f', 1, 2], ['s', 'zz'], ['b', 1], ['f', -1, 1]]


def gen_wide_fill(rng):
    '''Directional fills along axis 1 over wide float rows: several missing runs per block, limits that cut runs.'''
    nc = rng.randint(4, 8)
    nr = rng.randint(1, 3)
    p = rng.choice([0.4, 0.6, 0.75])
    cols = [{'dt': ['f', 64], 'vals': [['nan'] if rng.random() < p else ['f', rng.choice([1, 2, 3, 5, 7]), 1] for _ in range(nr)]} for _ in range(nc)]
    f = {'index': [['i', i] for i in range(nr)], 'columns': C.rand_labels(rng, nc, 'str'), 'cols': cols, 'name': ['none']}
    cs = {'op': 'f_filldir', 'f': f, 'forward': rng.random() < 0.5, 'limit': rng.choice([0, 1, 1, 2, 2, 3]), 'axis': 1}
    return cs, C.rand_layout(rng, f)


def gen_case(rng):
    r = rng.random()
    if r < 0.25:
        return gen_wide_fill(rng)
    r = rng.random()
    kinds = rng.choice(['f', 'fO', 'if', 'ifb', 'fOM', 'ifbUO', 'fU', 'M'])
    if r < 0.72:
        f = C.rand_frame(rng, 4, 5, kinds=kinds, na=rng.choice([0.2, 0.45, 0.7]), index_kind=rng.choice(['str', 'int', 'auto']), columns_kind='str')
        lay = C.rand_layout(rng, f)
        op = rng.choice(['f_isna', 'f_dropna', 'f_dropna', 'f_fillna', 'f_fillna_frame', 'f_fillna_frame', 'f_filldir', 'f_filldir', 'f_filldir', 'f_fillsided', 'f_count'])
        cs = {'op': op, 'f': f}
        if op == 'f_fillna_frame':
            # a label-aligned Frame value: a permuted subset of the rows and columns, sometimes an unknown label, its own missing cells
            vi = [l for l in f['index'] if rng.random() < 0.75]
            vc = [l for l in f['columns'] if rng.random() < 0.75]
            rng.shuffle(vi)
            rng.shuffle(vc)
            if rng.random() < 0.3:
                vc.insert(rng.randrange(len(vc) + 1), ['s', 'ZZ'])
            vk = rng.choice(['f', 'f', 'i', 'fU', 'if'])
            cs['val'] = {'index': vi, 'columns': vc, 'cols': [C.rand_column(rng, rng.choice(vk), len(vi), 0.2) for _ in vc], 'name': ['none']}
            return cs, lay
        if op == 'f_isna':
            cs['neg'] = rng.random() < 0.5
        elif op == 'f_dropna':
            cs['axis'] = rng.choice([0, 1])
            cs['cond'] = rng.choice(['all', 'any'])
        elif op == 'f_fillna':
            cs['v'] = rng.choice(FILLS)
        elif op == 'f_filldir':
            cs['forward'] = rng.random() < 0.5
            cs['limit'] = rng.choice([0, 0, 1, 2, 3])
            cs['axis'] = rng.choice([0, 1, 1])
        elif op == 'f_fillsided':
            cs['leading'] = rng.random() < 0.5
            cs['v'] = rng.choice(FILLS[:2] + FILLS[4:])
            cs['axis'] = rng.choice([0, 1, 1])
        else:
            cs['axis'] = rng.choice([0, 1])
        return cs, lay
    s = C.rand_series(rng, 7, kinds=kinds.replace('i', '').replace('b', '').replace('U', '') or 'f', na=rng.choice([0.3, 0.6]), index_kind=rng.choice(['str', 'int']))
    op = rng.choice(['s_isna', 's_dropna', 's_fillna', 's_fillna_series', 's_filldir', 's_filldir', 's_fillsided', 's_count'])
    cs = {'op': op, 's': s}
    if op == 's_isna':
        cs['neg'] = rng.random() < 0.5
    elif op == 's_fillna':
        cs['v'] = rng.choice(FILLS)
    elif op == 's_fillna_series':
        sub = [l for l in s['index'] if rng.random() < 0.6]
        rng.shuffle(sub)
        col = C.rand_column(rng, rng.choice('if'), len(sub))
        cs['val'] = ['series', sub, col['vals'], col['dt']]
    elif op == 's_filldir':
        cs['forward'] = rng.random() < 0.5
        cs['limit'] = rng.choice([0, 1, 2, 3])
    elif op == 's_fillsided':
        cs['leading'] = rng.random() < 0.5
        cs['v'] = rng.choice(FILLS)
    return cs, None


def main(ctx):
    quick = ctx.tier == 'quick'
    r = ctx.model_check('MC_C14', 'MC_C14_quick.cfg' if quick else 'MC_C14_thorough.cfg', dump=True, timeout=6000, heap='12g')
    if r.ok and r.dump:
        ops.replay_dump(ctx, r.dump, violation_what='missing-value operation differs from the specification', any_err=True,
                        sample=0.25 if quick else 1.0)
        ctx.exhaustive = not quick
    ops.validate_random(ctx, gen_case, 4000 if quick else 80000, what='recorded missing-value operation is not a step of the specification', any_err=True)
    return ctx.finish(rule='M/R: every missing pattern of a row of N cells (N=4 quick, 5 thorough) x every block partition x direction x limit 0..N for axis-1 directional and sided fills, dropna, fillna, count, isna (quick replays a 25%% seeded sample); V: seeded random frames/series (float/object/datetime columns mixed with never-missing kinds, random layout) x all missing-value operations')
