'''C18 parallel execution gives the same answer as sequential execution.

 M  MC_C18 (SFPool): every schedule (start / finish order of chunks on W workers, consumer interleaved) of one pooled
    application for several (N, W, chunksize, failing items) instances; negative control: lazy submission.
 R  TLC -simulate behaviours give completion orders; each is steered on a real thread pool with per-task delays and the run
    is recorded.
 V  recorded runs validated by Trace_C18: thread-pool runs with start / finish / yield events (every event must be an
    enabled SFPool step), process-pool runs with yields, every iterator interface x worker count x chunksize x threads /
    processes compared with the sequential form, Batch with max_workers, zip stores read and written with workers
    (incl. per-label StoreConfigMap).
'''
import os
import threading
import time

import numpy as np

import static_frame as sf

from .. import tlc

DELAY = {}          # item value -> seconds; module level so that forked workers see it
FAILS = set()
LOCK = threading.Lock()
EVENTS = []
UNIT = 0.004


class TaskError(Exception):
    pass


class ConventionError(TaskError):
    '''a pooled items function was not called with the single (label, value) pair'''


def work(v):
    '''the function applied: ten times the value, after this item's delay; raises for failing items'''
    i = int(v)
    time.sleep(DELAY.get(i, 0))
    if i in FAILS:
        raise TaskError(i)
    return i * 10


def work_traced(v):
    i = int(v)
    with LOCK:
        EVENTS.append({'kind': 'start', 'i': i})
    try:
        time.sleep(DELAY.get(i, 0))
        if i in FAILS:
            raise TaskError(i)
        return i * 10
    finally:
        with LOCK:
            EVENTS.append({'kind': 'finish', 'i': i})


def _pair(args):
    '''items interfaces call func(k, v) sequentially and func((k, v)) through a pool'''
    return args[0] if len(args) == 1 else args


class PoolConv:
    '''The convention of the pooled items form, for EVERY worker count: the function receives ONE argument, the (label, value) pair
    (the sequential form calls func(label, value)).  A pooled call made with any other arity is a failure of that item.'''

    def __init__(self, fn):
        self.fn = fn

    def __call__(self, *args):
        if len(args) != 1:
            raise ConventionError('pooled items function called with %d arguments' % len(args))
        return self.fn(args[0])


def work_item(*args):
    return work(_pair(args)[1])


def work_item_traced(*args):
    return work_traced(_pair(args)[1])


def traced_run(n, w, delays, fails, items_form=False, public=None):
    '''one application over a Series of n items on a thread pool, fully recorded'''
    global EVENTS
    DELAY.clear()
    DELAY.update(delays)
    FAILS.clear()
    FAILS.update(fails)
    EVENTS = []
    s = sf.Series(np.arange(1, n + 1), index=np.arange(1, n + 1))
    node = s.iter_element_items() if items_form else s.iter_element()
    fn = PoolConv(work_item_traced) if items_form else work_traced
    out = [{'kind': 'begin', 'n': n, 'w': w, 'c': 1, 'fails': sorted(fails), 'traced': True, 'iface': 'Series.iter_element' + ('_items' if items_form else ''), 'pool': 'threads'}]
    mark = 0
    outcome = 'ok'
    got = []
    try:
        for k, r in node._apply_iter_items_parallel(fn, max_workers=w, chunksize=1, use_threads=True):
            with LOCK:
                out.extend(EVENTS[mark:])
                mark = len(EVENTS)
            out.append({'kind': 'yield', 'key': int(k), 'val': int(r)})
            got.append((int(k), int(r)))
    except TaskError:
        with LOCK:
            out.extend(EVENTS[mark:])
            mark = len(EVENTS)
        out.append({'kind': 'error'})
        outcome = 'error'
    # the public form on the same input
    equal = True
    DELAY.clear()
    try:
        seq = (s.iter_element_items() if items_form else s.iter_element()).apply(work_item if items_form else work)
        par = (s.iter_element_items() if items_form else s.iter_element()).apply_pool(PoolConv(work_item) if items_form else work, max_workers=w, use_threads=True)
        equal = par.equals(seq, compare_dtype=True) and list(par.index) == list(seq.index)
        pub = 'ok'
    except TaskError:
        pub = 'error'
    if pub != outcome:
        equal = False
    out.append({'kind': 'end', 'outcome': outcome, 'equal': bool(equal), 'streamed': True})
    return out


# ---- generic interfaces: parallel form against sequential form ---------------------------------------------------------------------
def iface_cases(rng):
    n = rng.randint(1, 7)
    s = sf.Series(np.arange(1, n + 1) * 3, index=['k%d' % i for i in range(n)])
    nr, nc = rng.randint(1, 5), rng.randint(1, 4)
    f = sf.Frame(np.arange(nr * nc).reshape(nr, nc) + 1, index=['r%d' % i for i in range(nr)], columns=['c%d' % j for j in range(nc)])
    g = sf.Frame.from_items((('g', [rng.choice('ab') for _ in range(nr)]), ('v', list(range(nr)))), index=['r%d' % i for i in range(nr)])
    ax = rng.choice([0, 1])
    size = rng.randint(1, max(1, nr))
    return [
        ('Series.iter_element', lambda: s.iter_element(), val_elem),
        ('Series.iter_element_items', lambda: s.iter_element_items(), item_elem),
        ('Series.iter_window', lambda: s.iter_window(size=min(size, n)), val_sum),
        ('Series.iter_window_items', lambda: s.iter_window_items(size=min(size, n)), item_sum),
        ('Series.iter_group', lambda: sf.Series([1, 2, 1, 3, 2][:n] + [1] * max(0, n - 5), index=s.index).iter_group(), val_sum),
        ('Frame.iter_array', lambda: f.iter_array(axis=ax), val_sum),
        ('Frame.iter_array_items', lambda: f.iter_array_items(axis=ax), item_sum),
        ('Frame.iter_series', lambda: f.iter_series(axis=ax), val_sum),
        ('Frame.iter_series_items', lambda: f.iter_series_items(axis=ax), item_sum),
        ('Frame.iter_tuple', lambda: f.iter_tuple(axis=ax), val_tuple),
        ('Frame.iter_tuple_items', lambda: f.iter_tuple_items(axis=ax), item_tuple),
        ('Frame.iter_element', lambda: f.iter_element(), val_elem),
        ('Frame.iter_element_items', lambda: f.iter_element_items(), item_elem),
        ('Frame.iter_group', lambda: g.iter_group('g'), val_shape),
        ('Frame.iter_group_items', lambda: g.iter_group_items('g'), item_shape),
        ('Frame.iter_window', lambda: f.iter_window(size=size), val_shape),
        ('Frame.iter_window_items', lambda: f.iter_window_items(size=size), item_shape),
    ]


def _nap(x):
    time.sleep((hash(str(x)) % 3) * 0.002)


def val_elem(v):
    _nap(v)
    return v * 10


def item_elem(*args):
    kv = _pair(args)
    _nap(kv[1])
    return kv[1] * 10


def val_sum(a):
    r = int(np.asarray(a.values if hasattr(a, 'values') else a).sum())
    _nap(r)
    return r


def item_sum(*args):
    return val_sum(_pair(args)[1])


def val_tuple(t):
    _nap(t[0])
    return int(sum(t))


def item_tuple(*args):
    return val_tuple(_pair(args)[1])


def val_shape(fr):
    r = int(fr.values.sum()) if fr.values.dtype.kind in 'iuf' else int(fr.shape[0] * 100 + fr['v'].values.sum())
    _nap(r)
    return r


def item_shape(*args):
    return val_shape(_pair(args)[1])


def generic_run(rng, name, mk, fn):
    w = rng.choice([1, 1, 2, 3, 4, 5, 6, 7, 8])
    threads = rng.random() < 0.6
    seq_items = list(mk().apply_iter_items(fn))
    n = len(seq_items)
    c = rng.randint(1, n + 1)
    out = [{'kind': 'begin', 'n': n, 'w': w, 'c': c, 'fails': [], 'traced': False, 'iface': name, 'pool': 'threads' if threads else 'processes'}]
    outcome = 'ok'
    try:
        k = 0
        pfn = PoolConv(fn) if name.endswith('_items') else fn
        for key, r in mk()._apply_iter_items_parallel(pfn, max_workers=w, chunksize=c, use_threads=threads):
            k += 1
            # position of this key in the sequential form; the value must be the sequential value of that key
            pos = k if k <= n and seq_items[k - 1][0] == key else next((i + 1 for i, (sk, _) in enumerate(seq_items) if sk == key), 0)
            same = pos > 0 and _same(seq_items[pos - 1][1], r)
            out.append({'kind': 'yield', 'key': pos, 'val': pos * 10 if same else -1})
    except Exception as e:
        out.append({'kind': 'error'})
        outcome = 'error:' + type(e).__name__
    equal = True
    if outcome == 'ok':
        try:
            seq = mk().apply(fn)
            par = mk().apply_pool(pfn, max_workers=w, chunksize=c, use_threads=threads)
            equal = type(par) is type(seq) and par.equals(seq, compare_dtype=True, compare_name=True, compare_class=True) and _labels(par) == _labels(seq)
        except Exception:
            equal = False
    out.append({'kind': 'end', 'outcome': 'ok' if outcome == 'ok' else 'error', 'equal': bool(equal), 'streamed': True})
    return out


def _same(a, b):
    try:
        return bool(a == b) and type(a) is type(b)
    except Exception:
        return False


def _labels(c):
    return [list(c.index)] + ([list(c.columns)] if isinstance(c, sf.Frame) else [])


# ---- Batch with max_workers ------------------------------------------------------------------------------------------------------------
def batch_sum(f):
    _nap(f.shape[0])
    return f.sum()


def batch_picky(f):
    '''raises KeyError (the class the caller silences) for some Frames and ValueError (not silenced) for others'''
    _nap(f.shape[0])
    v = int(f.values[0, 1])
    if v % 2 == 0 and v > 0:
        raise KeyError(v)          # the class the caller silences
    if v % 3 == 0 and v > 0:
        raise ValueError(v)        # not silenced: must surface in both forms
    return f.sum()


def batch_picky_items(label, f):
    return batch_picky(f) + int(label[1:])


def batch_run(rng):
    k = rng.randint(1, 5)
    frames = [sf.Frame(np.arange(6).reshape(rng.choice([(2, 3), (3, 2)])) * (i + 1), columns=None, name='b%d' % i) for i in range(k)]
    frames = [f.relabel(columns=['c%d' % j for j in range(f.shape[1])]) for f in frames]
    rng.shuffle(frames)
    items = [(f.name, f) for f in frames]
    if rng.random() < 0.6:
        # Batch labels that are not the Frames' names (from_frames draws them from the names, the constructor does not have to): what a
        # function of (label, frame) receives is the label of the Batch
        nums = rng.sample(range(10, 40), k)
        items = [('x%d' % nums[i], f if rng.random() < 0.7 else f.rename(None)) for i, f in enumerate(frames)]
    w = rng.randint(1, 6)
    c = rng.randint(1, k + 1)
    threads = rng.random() < 0.6
    op = rng.choice(['sum', 'apply', 'iloc', 'mul', 'apply_items', 'apply_except', 'apply_except', 'apply_items_except'])
    if 'except' in op:
        c = 1          # the apply_except idioms refuse any other chunksize (NotImplementedError, by design)

    def run(batch):
        if op == 'sum':
            return batch.sum().to_frame()
        if op == 'apply':
            return batch.apply(batch_sum).to_frame()
        if op == 'apply_items':
            return batch.apply_items(_batch_items).to_frame()
        if op == 'apply_except':
            return batch.apply_except(batch_picky, KeyError).to_frame()
        if op == 'apply_items_except':
            return batch.apply_items_except(batch_picky_items, KeyError).to_frame()
        if op == 'iloc':
            return batch.iloc[0].to_frame()
        return (batch * 2).to_frame(axis=0) if False else (batch * 2).sum().to_frame()
    out = [{'kind': 'begin', 'n': k, 'w': w, 'c': c, 'fails': [], 'traced': False, 'iface': 'Batch.' + op, 'pool': 'threads' if threads else 'processes'}]
    def outcome_of(batch):
        try:
            return 'ok', run(batch)
        except Exception as e:
            return 'error:' + type(e).__name__, None
    so, seq = outcome_of(sf.Batch(iter(items)))
    po, par = outcome_of(sf.Batch(iter(items), max_workers=w, chunksize=c, use_threads=threads))
    if so != po:
        equal, outcome = False, 'ok'          # one form raised and the other did not (or another error): reported as a difference
    elif so != 'ok':
        equal, outcome = True, 'ok'           # both raise the same error: the failing task surfaces in both forms
    else:
        equal = par.equals(seq, compare_dtype=True) and _labels(par) == _labels(seq)
        outcome = 'ok'
    out.append({'kind': 'end', 'outcome': outcome, 'equal': bool(equal), 'streamed': False})
    return out


def _batch_items(label, f):
    _nap(label)
    return f.sum() + int(label[1:])


# ---- zip stores read / written with workers -----------------------------------------------------------------------------------------------
def store_run(rng, workdir, k):
    n = rng.randint(1, 5)
    frames = []
    for i in range(n):
        nr = rng.randint(1, 3)
        f = sf.Frame.from_items((('a', np.arange(nr) + i * 10), ('b', np.arange(nr) * 0.5 + i)), index=['r%d' % j for j in range(nr)], name='s%d' % i)
        frames.append(f)
    rng.shuffle(frames)
    fmt = rng.choice(['zip_pickle', 'zip_csv', 'zip_tsv'])
    w = rng.randint(1, 4)
    c = rng.randint(1, n + 1)
    per_label = fmt != 'zip_pickle' and rng.random() < 0.6
    side = rng.choice(['read', 'write', 'both'])

    def cfg(workers):
        kw = {}
        if workers and side in ('read', 'both'):
            kw.update(read_max_workers=w, read_chunksize=c)
        if workers and side in ('write', 'both'):
            kw.update(write_max_workers=w, write_chunksize=c)
        if fmt == 'zip_pickle':
            return sf.StoreConfig(**kw)
        if per_label:
            # every label has its own configuration; the default (index kept as a column) would not reproduce the Frames
            return sf.StoreConfigMap({f.name: sf.StoreConfig(index_depth=1, columns_depth=1, **kw) for f in frames}, default=sf.StoreConfig(index_depth=0, columns_depth=1, **kw))
        return sf.StoreConfig(index_depth=1, columns_depth=1, **kw)
    out = [{'kind': 'begin', 'n': n, 'w': w, 'c': c, 'fails': [], 'traced': False, 'iface': 'store.%s.%s%s' % (fmt, side, '.per_label' if per_label else ''), 'pool': 'processes'}]
    fps = [os.path.join(workdir, 'p%d_%d.zip' % (k, j)) for j in range(2)]
    try:
        res = []
        for fp, workers in zip(fps, (False, True)):
            b = sf.Bus.from_frames(frames)
            getattr(b, 'to_' + fmt)(fp, config=cfg(workers))
            r = getattr(sf.Bus, 'from_' + fmt)(fp, config=cfg(workers))
            res.append([(lab, fr) for lab, fr in r.items()])
        equal = [a for a, _ in res[0]] == [a for a, _ in res[1]] == [f.name for f in frames]
        for (la, fa), (lb, fb), src in zip(res[0], res[1], frames):
            if not (fa.equals(fb, compare_dtype=True, compare_name=True) and _labels(fa) == _labels(fb) and fb.values.tolist() == src.values.tolist() and _labels(fb) == _labels(src)):
                equal = False
        outcome = 'ok'
    except Exception:
        equal, outcome = False, 'error'
    finally:
        for fp in fps:
            if os.path.exists(fp):
                os.remove(fp)
    out.append({'kind': 'end', 'outcome': outcome, 'equal': bool(equal), 'streamed': False})
    return out


CFGS = ['MC_C18_a.cfg', 'MC_C18_b.cfg', 'MC_C18_c.cfg', 'MC_C18_d.cfg', 'MC_C18_e.cfg', 'MC_C18_f.cfg']
PARAMS = {'MC_C18_a.cfg': (5, 2, 1, []), 'MC_C18_b.cfg': (5, 3, 2, []), 'MC_C18_c.cfg': (5, 2, 2, [3]), 'MC_C18_d.cfg': (4, 4, 3, [1, 4]), 'MC_C18_e.cfg': (6, 3, 1, []), 'MC_C18_f.cfg': (8, 4, 1, [5])}


def main(ctx):
    quick = ctx.tier == 'quick'
    rng = ctx.rng
    # process pools are created by the library with the default start method; fork()ing a process that has (or had) threads can
    # deadlock in a child (observed: a thorough run hung for over an hour), so workers are started from a clean fork server
    import multiprocessing
    try:
        multiprocessing.set_start_method('forkserver', force=True)
    except Exception as e:
        ctx.note('could not select the forkserver start method: %r' % (e,))
    for c in CFGS:
        ctx.model_check('MC_C18', c, timeout=3000)
    ctx.model_check('MC_C18', 'MC_C18_neg.cfg', expect_violation='InvComplete', coverage=False, label='negative control: lazy submission')
    ctx.exhaustive = True
    runs = []
    # R: completion orders from TLC behaviours, steered with delays on a real thread pool
    steered = matched = 0
    for c in CFGS:
        n, w, cs, fails = PARAMS[c]
        if cs != 1:
            continue                       # a thread pool ignores chunksize; chunked instances are replayed on process pools below
        behs, _ = tlc.simulate('MC_C18', c, num=12 if quick else 300, depth=40, seed=ctx.seed)
        for beh in behs:
            order = [st['act'][1] for st in beh if st['act'][0] == 'finish']
            delays = {i: (order.index(i) + 1) * UNIT for i in order}
            ev = traced_run(n, w, delays, fails, items_form=rng.random() < 0.3)
            actual = [e['i'] for e in ev if e['kind'] == 'finish']
            steered += 1
            matched += actual[:len(order)] == order
            runs.append(ev)
            ctx.replayed += 1
    ctx.counters['R_behaviours_steered'] = steered
    ctx.counters['R_completion_order_reproduced'] = matched
    # V: random traced runs
    for _ in range(40 if quick else 1500):
        n = rng.randint(1, 8)
        w = rng.randint(1, 8)
        fails = sorted(rng.sample(range(1, n + 1), rng.choice([0, 0, 0, 1, 2]) if n > 1 else 0))
        delays = {i: rng.choice([0, 1, 2, 3, 5]) * UNIT for i in range(1, n + 1)}
        runs.append(traced_run(n, w, delays, fails, items_form=rng.random() < 0.4))
        ctx.count('V_traced_thread_runs')
    for _ in range(6 if quick else 50):
        for name, mk, fn in iface_cases(rng):
            runs.append(generic_run(rng, name, mk, fn))
            ctx.count('V_iface_runs')
    for _ in range(50 if quick else 400):
        runs.append(batch_run(rng))
        ctx.count('V_batch_runs')
    workdir = tlc.subdir('c18-stores')
    for k in range(25 if quick else 300):
        runs.append(store_run(rng, workdir, k))
        ctx.count('V_store_runs')
    events = []
    for r, run in enumerate(runs):
        for ev in run:
            ev['id'] = len(events)
            ev['run'] = r
            for key, dflt in (('i', 0), ('key', 0), ('val', 0), ('n', 0), ('w', 1), ('c', 1), ('fails', []), ('traced', False), ('outcome', ''), ('equal', True), ('streamed', True)):
                ev.setdefault(key, dflt)
            events.append(ev)
    rej = ctx.validate_events('Trace_C18', 'Trace_C18.cfg', events, chunk=600, boundary=lambda ev: ev['kind'] == 'begin')
    begins = {ev['run']: ev for ev in events if ev['kind'] == 'begin'}
    for ev in events:
        if ev['id'] in rej:
            b = begins[ev['run']]
            ctx.violation('V', '%s on %s (%s, workers=%d, chunksize=%d): %s' % (ev['kind'], b['iface'], b['pool'], b['w'], b['c'], rej[ev['id']][0]),
                          case={'iface': b['iface'], 'pool': b['pool'], 'n': b['n'], 'w': b['w'], 'c': b['c'], 'fails': b['fails']},
                          actual={'event': {k: ev[k] for k in ('kind', 'i', 'key', 'val', 'outcome', 'equal')}, 'run': [{k: e[k] for k in ('kind', 'i', 'key', 'val')} for e in runs[ev['run']]][:60]},
                          clause=rej[ev['id']][0], expected=rej[ev['id']][1])
    ctx.sample({'leg': 'V', 'run': [{k: e[k] for k in ('kind', 'i', 'key', 'val')} for e in runs[0]][:20]})
    return ctx.finish(rule='M: every schedule of 6 instances (N 4-8, W 2-4, chunksize 1-3, 0-2 failing items) incl. the consumer; negative control lazy submission. '
                           'R: completion orders of simulated behaviours steered with per-task delays on a real thread pool, the run recorded (start / finish under a lock, yields) and validated; '
                           'V: random traced thread-pool runs (N 1-8, W 1-8, random delays, failing items, values and items forms); 17 iterator interfaces x workers 1-8 x chunksize 1..n+1 x threads / processes compared with apply(); Batch with max_workers (8 operations, labels equal to or different from the names of the Frames, label-dependent item functions); zip pickle / csv / tsv stores written and read with workers incl. per-label StoreConfigMap',
                      trusted=['TLC 1.8 + CommunityModules', 'concurrent.futures executor semantics', 'time.sleep-based steering of completion order (reported, not assumed)'])


def replay(rec):
    import json
    print('a pooled run depends on its schedule: the record holds the run (start / finish / yield events) and the rejected event; re-run ./check C18 with the same VERIF_SEED')
    print(json.dumps({k: rec.get(k) for k in ('property', 'leg', 'clause', 'what', 'case', 'expected', 'actual')}, indent=1, default=str)[:6000])
    return 0
