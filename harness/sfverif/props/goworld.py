'''The real-code side of the heap model SFGo: a list of live objects parallel to the model's objs, the concrete
route table of every abstract action, and the projection of every live object (labels, data in step, membership /
lookup probes for every label of the universe, read-only flags).'''
import copy
import pickle

import numpy as np

import static_frame as sf

from .. import project as P

NAMES = {1: 'a', 2: 'b', 3: 'c', 4: 'd', 5: 'e'}
ROWS = ('r0', 'r1')


def lab(i):
    return NAMES[i]


def payload(i):
    return np.array([i * 10, i * 10 + 1])


def mk_frame(labels, go=True):
    cls = sf.FrameGO if go else sf.Frame
    if not labels:
        return cls(index=ROWS)
    return cls.from_items(((lab(l), payload(l)) for l in labels), index=ROWS)


def mk_index(labels, go=True):
    return (sf.IndexGO if go else sf.Index)([lab(l) for l in labels])


class World:
    def __init__(self, init_obj):
        o = init_obj
        self.objs = [mk_frame(o['labels']) if o['kind'] == 'frame' else mk_index(o['labels'])]
        self.universe = sorted(NAMES)

    # ---- growth -------------------------------------------------------------------------------
    def _grow(self, fn):
        before = [self.labels_of(o) for o in self.objs]
        try:
            fn()
            return 'ok', None
        except Exception as e:  # rejected or failed midway
            after = [self.labels_of(o) for o in self.objs]
            return ('rejected' if before == after else 'failed-midway'), e

    def append(self, i, l, sized):
        o = self.objs[i - 1]
        if isinstance(o, sf.Frame):
            rows = [ROWS.index(r) for r in o.index]          # a sub-container may hold some of the rows
            val = payload(l)[rows] if sized else np.array([1, 2, 3])
            return self._grow(lambda: o.__setitem__(lab(l), val))
        if sized:
            return self._grow(lambda: o.append(lab(l)))
        return self._grow(lambda: o.append([lab(l)]))       # an unhashable label

    def extend(self, i, ls, via):
        o = self.objs[i - 1]
        if isinstance(o, sf.Frame):
            rows = [ROWS.index(r) for r in o.index]
            rlabs = tuple(ROWS[r] for r in rows)
            if via == 'frame':
                arg = sf.Frame.from_items(((lab(l), payload(l)[rows]) for l in ls), index=rlabs)
                return self._grow(lambda: o.extend(arg))
            if via == 'items':
                return self._grow(lambda: o.extend_items((lab(l), sf.Series(payload(l)[rows], index=rlabs)) for l in ls))
            s = sf.Series(payload(ls[0])[rows], index=rlabs, name=lab(ls[0]))
            return self._grow(lambda: o.extend(s))
        if via == 'items':
            return self._grow(lambda: o.extend(lab(l) for l in ls))       # a generator
        return self._grow(lambda: o.extend([lab(l) for l in ls]))

    # ---- derivation ---------------------------------------------------------------------------
    def derive(self, i, route):
        try:
            return self._derive(i, route)
        except Exception as e:      # a derivation must not fail: reported through the outcome
            return 'rejected', e

    def _derive(self, i, route):
        o = self.objs[i - 1]
        if isinstance(o, sf.Frame):
            f = o
            r = {
                'to_frame': lambda: f.to_frame(),
                'to_frame_go': lambda: f.to_frame_go(),
                'iloc_all': lambda: f.iloc[:, :],
                'getitem_all': lambda: f[list(f.columns)] if len(f.columns) else f.iloc[:, :],
                'rename': lambda: f.rename('renamed'),
                'relabel': lambda: f.relabel(columns=lambda x: x) if len(f.columns) else f.rename('x'),
                'sort_columns': lambda: f.sort_columns(),
                'reindex': lambda: f.reindex(columns=list(f.columns)) if len(f.columns) else f.rename('x'),
                'add0': lambda: f + 0 if len(f.columns) else f.iloc[:, :],          # operators on a Frame without columns raise (see C06 findings)
                'deepcopy': lambda: copy.deepcopy(f),
                'pickle': lambda: pickle.loads(pickle.dumps(f)),
                'columns_static': lambda: sf.Index(f.columns),
                'columns_go': lambda: sf.IndexGO(f.columns),
                'row_series': lambda: f.iloc[0],
                'dtypes': lambda: f.dtypes,
                'transpose2': lambda: f.transpose().transpose() if len(f.columns) else f.iloc[:, :],
                'iter_series0': lambda: next(iter(f.iter_series(axis=1))),
                'set_index_less': lambda: f.rename('y').iloc[:, :],
                # sub-containers handed out by the iterators and row-wise transformations (class preserving; maybe fewer rows)
                'group_labels_first': lambda: next(iter(f.iter_group_labels(0))),
                'group_labels_items_last': lambda: list(f.iter_group_labels_items(0))[-1][1],
                'group_first': lambda: next(iter(f.iter_group(f.columns[0]))) if len(f.columns) else f.to_frame(),
                'group_items_last': lambda: list(f.iter_group_items(f.columns[-1]))[-1][1] if len(f.columns) else f.to_frame(),
                'window_first': lambda: next(iter(f.iter_window(size=min(2, len(f.index))))),
                'window_items_last': lambda: list(f.iter_window_items(size=1))[-1][1],
                'head1': lambda: f.head(1),
                'tail1': lambda: f.tail(1),
                'loc_rows': lambda: f.loc[[f.index[-1]]],
                'drop_row': lambda: f.drop.iloc[0] if len(f.index) > 1 else f.iloc[:, :],
                'roll_rows': lambda: f.roll(2),
                'shift0': lambda: f.shift(0),
                'fillna0': lambda: f.fillna(0),
                'sort_index': lambda: f.sort_index(),
                'astype_same': lambda: f.astype(int) if len(f.columns) else f.iloc[:, :],
                'assign_same': lambda: f.assign[f.columns[0]](f[f.columns[0]].values) if len(f.columns) else f.iloc[:, :],
                'from_concat_self': lambda: type(f).from_concat((f,)) if len(f.columns) else f.iloc[:, :],          # concatenating a Frame without columns raises (zero-sized family, C14 findings)
                'isna_neg': lambda: f.iloc[:, :] if not len(f.columns) else f.loc[f.notna().all(axis=1)],
                'mask_row': lambda: f.loc[sf.Series(np.ones(len(f.index), dtype=bool), index=f.index)],
                'dropna': lambda: f.dropna() if len(f.columns) else f.iloc[:, :],
                'iter_frame_group_array': lambda: f.iloc[np.ones(len(f.index), dtype=bool)],
                # value-preserving element-wise transformations (the result is a new container of the same class)
                'round0': lambda: round(f, 0) if len(f.columns) else f.iloc[:, :],
                'neg_neg': lambda: -(-f) if len(f.columns) else f.iloc[:, :],
                'clip_wide': lambda: f.clip(lower=-10 ** 9, upper=10 ** 9) if len(f.columns) else f.iloc[:, :],
            }[route]()
        else:
            ix = o
            r = {
                'index_static': lambda: sf.Index(ix),
                'index_go': lambda: sf.IndexGO(ix),
                'copy': lambda: ix.copy(),
                'rename': lambda: ix.rename('renamed'),
                'iloc_all': lambda: ix.iloc[:],
                'sort': lambda: ix.sort(),
                'union_self': lambda: ix.union(ix),
                'deepcopy': lambda: copy.deepcopy(ix),
                'pickle': lambda: pickle.loads(pickle.dumps(ix)),
                'to_series': lambda: sf.Series(np.arange(len(ix)), index=ix),
            }[route]()
        self.objs.append(r)
        return 'ok', None

    # ---- projection ---------------------------------------------------------------------------
    @staticmethod
    def label_index(o):
        if isinstance(o, sf.Frame):
            return o.columns
        if isinstance(o, sf.Series):
            return o.index
        return o

    def labels_of(self, o):
        inv = {v: k for k, v in NAMES.items()}
        return [inv.get(x, -1) for x in self.label_index(o)]

    def project(self, o):
        '''{"kind","go","labels"} and a list of broken integrity clauses'''
        broken = []
        ix = self.label_index(o)
        labels = self.labels_of(o)
        kind = 'frame' if isinstance(o, sf.Frame) else 'series' if isinstance(o, sf.Series) else 'index'
        go = isinstance(o, (sf.FrameGO, sf.IndexGO))
        n = len(labels)
        # one representation must describe one sequence of labels
        try:
            if len(ix) != n or [x for x in ix.values] != [NAMES.get(l) for l in labels] or list(reversed(ix)) != [NAMES[l] for l in reversed(labels)]:
                broken.append('views_disagree')
            if list(ix.positions) != list(range(n)):
                broken.append('positions')
        except Exception as e:
            broken.append('views_raise:' + type(e).__name__)
        # membership and lookup for EVERY label of the universe, present or absent
        for l in self.universe:
            name = NAMES[l]
            try:
                inside = name in ix
                if inside != (l in labels):
                    broken.append('membership:%s' % name)
                if l in labels:
                    if ix.loc_to_iloc(name) != labels.index(l):
                        broken.append('lookup:%s' % name)
                else:
                    try:
                        ix.loc_to_iloc(name)
                        broken.append('absent_label_resolves:%s' % name)
                    except KeyError:
                        pass
            except Exception as e:
                broken.append('probe_raises:%s:%s' % (name, type(e).__name__))
        if kind == 'frame':
            try:
                rows = [ROWS.index(r) for r in o.index]          # a sub-container may hold some of the rows
                if o.shape != (len(rows), n) or len(o._blocks._index) != n or not rows:
                    broken.append('labels_and_data_out_of_step')
                # per-column dtypes are data too: one dtype per label, read through the public attribute and through equals
                dts = o.dtypes
                if list(dts.index) != [NAMES[l] for l in labels] or any(d != np.dtype(np.int64) for d in dts.values) or not o.equals(o.iloc[:, :], compare_dtype=True):
                    broken.append('dtypes_out_of_step')
                for pos, l in enumerate(labels):
                    want = [payload(l).tolist()[r] for r in rows]
                    if o[NAMES[l]].values.tolist() != want or o.iloc[:, pos].values.tolist() != want:
                        broken.append('column_data:%s' % NAMES[l])
                if n:
                    try:
                        o['zz']
                        broken.append('absent_column_readable')
                    except KeyError:
                        pass
            except Exception as e:
                broken.append('read_raises:' + type(e).__name__)
            arrays = list(o._blocks._blocks) + [o.values] if n else []
        elif kind == 'series':
            arrays = [o.values]
        else:
            arrays = [o.values, o.positions]
        arrays.append(ix.values)
        if any(a.flags.writeable for a in arrays if isinstance(a, np.ndarray)):
            broken.append('writeable_array')
        return {'kind': kind, 'go': go, 'labels': labels}, broken

    def snapshot(self):
        ps, brs = [], []
        for k, o in enumerate(self.objs):
            p, b = self.project(o)
            ps.append(p)
            brs.extend('obj%d:%s' % (k + 1, x) for x in b)
        return ps, brs

    def step(self, act):
        name = act['name']
        if name == 'append':
            return self.append(act['target'], act['label'], act['sized'])
        if name == 'extend':
            return self.extend(act['target'], act['labels'], act['via'])
        if name == 'derive':
            return self.derive(act['source'], act['route'])
        raise ValueError(name)
