'''C19 Quilt and Batch are faithful views over the Frames they hold.

 M  MC_C19 (SFQuilt): member Frames of sizes <<2, 1>> (thorough <<2, 1, 2>>), both axes, labels retained or not, every
    positional key on the Quilt axis x keys on the opposite axis; the Boolean-mask extraction of Quilt._extract against the
    selection on the concatenated Frame (negative control: keys in any order).
 R  every enumerated selection replayed on a real Quilt (over Buses with and without max_persist).
 V  random Quilts (1-4 members, both axes, retain on / off, store-backed Buses with max_persist) x iloc / loc / getitem /
    to_frame / shape / labels / values / iteration / windows / head, and random Batch chains (selection, operator,
    reduction, NA handling, function application) validated by Trace_C19 against SFOps applied to the concatenated Frame /
    to every member.
'''
import os

import numpy as np

import static_frame as sf

from .. import core, project as P, tlaval, tlc
from . import common as C

SN = ['none']


def build_members(q, layout_rng=None):
    frames = []
    for m in q['members']:
        af = dict(m['f'])
        f = P.build_frame(af, C.rand_layout(layout_rng, af) if layout_rng else None)
        frames.append(f.rename(P.dec(m['label'])))
    return frames


def build_quilt(q, rng, workdir=None):
    frames = build_members(q, rng)
    mode = rng.choice(['memory', 'memory', 'store', 'store_mp1', 'store_mp2']) if workdir else 'memory'
    if mode == 'memory':
        bus = sf.Bus.from_frames(frames)
    else:
        fp = os.path.join(workdir, 'q%d.zip' % rng.randrange(10 ** 9))
        sf.Bus.from_frames(frames).to_zip_pickle(fp)
        bus = sf.Bus.from_zip_pickle(fp, max_persist={'store': None, 'store_mp1': 1, 'store_mp2': 2}[mode])
    return sf.Quilt(bus, axis=q['axis'], retain_labels=q['retain']), bus, mode


def proj_noname(x):
    p = P.proj(x)
    if p.get('k') == 'frame':
        p['name'] = ['none']           # a selection inside one member keeps that member's name; names are not part of the statement
    return p


def run_quilt(cs, rng, workdir=None):
    try:
        q, bus, mode = build_quilt(cs['q'], rng, workdir)
        op = cs['op']
        if op == 'q_iloc':
            res = proj_noname(q.iloc[C.py_iloc_key(cs['rk']), C.py_iloc_key(cs['ck'])])
        elif op == 'q_loc':
            res = proj_noname(q.loc[C.py_loc_key(cs['rk']), C.py_loc_key(cs['ck'])])
        elif op == 'q_getitem':
            res = proj_noname(q[C.py_loc_key(cs['ck'])])
        elif op == 'q_to_frame':
            res = proj_noname(q.to_frame())
        elif op == 'q_shape':
            res = {'k': 'shape', 'v': [int(x) for x in q.shape]}
            if (len(q.index), len(q.columns)) != q.shape or q.size != q.shape[0] * q.shape[1]:
                res = {'k': 'shape', 'v': [-1, -1]}
        elif op == 'q_labels':
            res = {'k': 'labels', 'index': P.enc_seq(q.index), 'columns': P.enc_seq(q.columns)}
        elif op == 'q_values':
            res = {'k': 'rows', 'rows': [[P.enc(x) for x in row] for row in q.values]}
        elif op == 'q_iter':
            ax = 1 - cs['q']['axis']
            via = cs['via']
            if via == 'series':
                items = [P.proj(s) for s in q.iter_series(axis=ax)]
            elif via == 'series_items':
                items = []
                for k, s in q.iter_series_items(axis=ax):
                    p = P.proj(s)
                    if P.enc(k) != p['name']:
                        p['name'] = ['s', 'KEY-MISMATCH']
                    items.append(p)
            elif via == 'array':
                labels = list(q.index if cs['q']['axis'] == 0 else q.columns)
                opp = q.columns if cs['q']['axis'] == 0 else q.index
                items = [P.proj(sf.Series(a, index=opp, name=lab)) for lab, a in zip(labels, q.iter_array(axis=ax))]
            else:
                labels = list(q.index if cs['q']['axis'] == 0 else q.columns)
                opp = q.columns if cs['q']['axis'] == 0 else q.index
                items = []
                for lab, t in zip(labels, q.iter_tuple(axis=ax)):
                    items.append(P.proj(sf.Series(list(t), index=opp, name=lab)))
            res = {'k': 'items', 'items': items}
        elif op == 'q_iter_window':
            items = [proj_noname(w) for w in q.iter_window(size=cs['size'], step=cs['step'], axis=cs['q']['axis'], **_wkw(cs))]
            res = {'k': 'items', 'items': items}
        elif op == 'q_iter_window_array':
            wins = []
            if cs['items']:
                labs = list(q.index if cs['q']['axis'] == 0 else q.columns)
                for k, a in q.iter_window_array_items(size=cs['size'], step=cs['step'], axis=cs['q']['axis'], **_wkw(cs)):
                    wins.append({'dt': P.enc_dtype(a.dtype), 'rows': [[P.enc(x) for x in row] for row in a], 'label': P.enc(k)})
            else:
                for a in q.iter_window_array(size=cs['size'], step=cs['step'], axis=cs['q']['axis'], **_wkw(cs)):
                    wins.append({'dt': P.enc_dtype(a.dtype), 'rows': [[P.enc(x) for x in row] for row in a], 'label': ['none']})
            if cs['loose']:
                wins = [{'dt': ['any', 0], 'rows': [[_loose_cell(x) for x in row] for row in w['rows']], 'label': w['label']} for w in wins]
            res = {'k': 'rows_seq', 'wins': wins}
        elif op == 'q_head':
            res = proj_noname(q.head(cs['count']))
        else:
            raise ValueError(op)
    except Exception as e:
        res = {'k': 'err', 'cat': P.err_category(e)}
    # the Bus underneath keeps its own promises while the Quilt reads through it (C17): the bound holds, whatever is held is the member written
    try:
        if mode.startswith('store'):
            mp = {'store': None, 'store_mp1': 1, 'store_mp2': 2}[mode]
            loaded = [(lab, fr) for lab, fr in zip(bus._series.index, bus._series.values) if isinstance(fr, sf.Frame)]
            if mp is not None and len(loaded) > mp:
                return {'k': 'bus_max_persist_exceeded', 'loaded': len(loaded), 'max_persist': mp}
            originals = {f.name: f for f in build_members(cs['q'])}
            for lab, fr in loaded:
                if not fr.equals(originals[lab], compare_dtype=True):
                    return {'k': 'bus_holds_wrong_frame', 'label': str(lab)}
    except NameError:
        pass
    return res


# ---- random quilts --------------------------------------------------------------------------------------------------------------------
def rand_quilt(rng, own_kinds=False):
    axis = rng.choice([0, 1])
    retain = rng.random() < 0.5
    nm = rng.randint(1, 4)
    nopp = rng.randint(1, 3)
    kinds = [rng.choice('ifbU') for _ in range(nopp)]
    opp = C.rand_labels(rng, nopp, rng.choice(['str', 'int']))
    pool = C.rand_labels(rng, 12, 'str')
    members = []
    used = 0
    for m in range(nm):
        n = min(rng.randint(1, 4), len(pool) - used - (nm - m - 1))          # members of up to 4 positions (stepped slices must be able to skip interior ones)
        labs = pool[used:used + n]
        used += n
        if own_kinds:          # members need not agree on dtypes: each is homogeneous in a dtype of its own
            kinds = [rng.choice('ifbU')] * nopp
        cols = [C.rand_column(rng, k, n) for k in kinds]
        for c, k in zip(cols, kinds):
            if k == 'U':
                c['dt'] = ['U', 3]
        f0 = {'index': labs, 'columns': opp, 'cols': cols, 'name': ['s', 'm%d' % m]}
        if axis == 1:
            # along-axis labels are the columns: transpose the abstract frame; one dtype per row position is not a Frame notion, so use one kind
            k = kinds[0]
            cols = [C.rand_column(rng, k, nopp) for _ in range(n)]
            for c in cols:
                if k == 'U':
                    c['dt'] = ['U', 3]
            f0 = {'index': opp, 'columns': labs, 'cols': cols, 'name': ['s', 'm%d' % m]}
        members.append({'label': ['s', 'm%d' % m], 'f': f0})
    return {'members': members, 'axis': axis, 'retain': retain}


def _loose_cell(v):
    return ['na'] if v[0] in ('nan', 'none', 'nat') else (['i', v[1]] if v[0] == 'f' and v[2] == 1 else v)


def along_labels(q):
    out = []
    for m in q['members']:
        for lab in (m['f']['index'] if q['axis'] == 0 else m['f']['columns']):
            out.append(['t', [m['label'], lab]] if q['retain'] else lab)
    return out


def gen_quilt_case(rng):
    if rng.random() < 0.06:
        # array-valued windows over members that are each homogeneous in a dtype of their own (compared by value)
        q = rand_quilt(rng, own_kinds=True)
        n = len(along_labels(q))
        return dict({'op': 'q_iter_window_array', 'q': q, 'size': rng.randint(1, max(1, n)), 'step': rng.randint(1, 3), 'items': rng.random() < 0.5, 'loose': True}, **_wparams(rng))
    q = rand_quilt(rng)
    along = along_labels(q)
    n = len(along)
    opp = q['members'][0]['f']['columns'] if q['axis'] == 0 else q['members'][0]['f']['index']
    r = rng.random()
    if r < 0.40:
        ak, ok = C.rand_iloc_key(rng, n), C.rand_iloc_key(rng, len(opp))
        return {'op': 'q_iloc', 'q': q, 'rk': ak if q['axis'] == 0 else ok, 'ck': ok if q['axis'] == 0 else ak}
    if r < 0.58:
        while True:
            ak = C.rand_loc_key(rng, along, absent=0.04)
            if ak[0] in ('bseries',) or (q['retain'] and ak[0] in ('loc', 'locslice')):
                continue          # a tuple as a single label key is read as a compound key; per-level selection is C05
            if ak[0] == 'locslice' and ak[3][0] == 'i' and ak[3][1] < 0:
                continue          # descending label slices: C04
            break
        while True:
            ok = C.rand_loc_key(rng, opp, absent=0.04)
            if ok[0] != 'bseries' and not (ok[0] == 'locslice' and ok[3][0] == 'i' and ok[3][1] < 0):
                break
        return {'op': 'q_loc', 'q': q, 'rk': ak if q['axis'] == 0 else ok, 'ck': ok if q['axis'] == 0 else ak}
    if r < 0.64:
        cols = along if q['axis'] == 1 else opp
        while True:
            ck = C.rand_loc_key(rng, cols, absent=0.04)
            if ck[0] in ('bseries', 'iloc') or (q['retain'] and q['axis'] == 1 and ck[0] in ('loc', 'locslice')) or (ck[0] == 'locslice' and ck[3][0] == 'i' and ck[3][1] < 0):
                continue
            break
        return {'op': 'q_getitem', 'q': q, 'ck': ck}
    if r < 0.70:
        return {'op': 'q_to_frame', 'q': q}
    if r < 0.75:
        return {'op': rng.choice(['q_shape', 'q_labels', 'q_values']), 'q': q}
    if r < 0.87:
        one_kind = len({c['dt'][0] for m in q['members'] for c in m['f']['cols']}) == 1
        vias = ['series', 'series_items', 'array'] + (['tuple'] if all(l[0] == 's' for l in opp) and one_kind else [])      # namedtuple fields must be identifiers
        return {'op': 'q_iter', 'q': q, 'via': rng.choice(vias)}
    if r < 0.91:
        return dict({'op': 'q_iter_window', 'q': q, 'size': rng.randint(1, max(1, n)), 'step': rng.randint(1, 3)}, **_wparams(rng))
    if r < 0.96:
        return dict({'op': 'q_iter_window_array', 'q': q, 'size': rng.randint(1, max(1, n)), 'step': rng.randint(1, 3), 'items': rng.random() < 0.5, 'loose': False}, **_wparams(rng))
    return {'op': 'q_head', 'q': q, 'count': rng.randint(1, n + 1)}


# ---- Batch chains ------------------------------------------------------------------------------------------------------------------------
def rand_members(rng):
    nm = rng.randint(1, 4)
    nc = rng.randint(1, 3)
    kinds = [rng.choice('iff') for _ in range(nc)]
    cols_lab = C.rand_labels(rng, nc, 'str')
    members = []
    for m in range(nm):
        n = rng.randint(2, 4)
        f0 = {'index': C.rand_labels(rng, n, 'str'), 'columns': cols_lab, 'cols': [C.rand_column(rng, k, n, na=0.25 if k == 'f' else 0.0) for k in kinds], 'name': ['s', 'b%d' % m]}
        members.append({'label': ['s', 'b%d' % m], 'f': f0})
    return members


def rand_batch_op(rng, last=False):
    r = rng.random()
    if last and r < 0.2:
        return {'op': 'f_count', 'f': 0, 'axis': rng.choice([0, 1]), 'route': rng.choice(['direct', 'apply'])}
    if r < 0.30:
        return {'op': 'f_iloc', 'f': 0, 'rk': ['slice', SN, ['i', rng.randint(1, 3)], SN] if rng.random() < 0.7 else ['all'], 'ck': rng.choice([['all'], ['slice', SN, ['i', 1], SN], ['list', [0]]]),
                'route': rng.choice(['direct', 'apply'])}
    if r < 0.40:
        n = rng.randint(1, 3)
        return {'op': 'f_iloc', 'f': 0, 'rk': ['slice', SN, ['i', n], SN], 'ck': ['all'], 'route': 'head', 'n': n}
    if r < 0.48:
        n = rng.randint(1, 3)
        return {'op': 'f_iloc', 'f': 0, 'rk': ['slice', ['i', -n], SN, SN], 'ck': ['all'], 'route': 'tail', 'n': n}
    if r < 0.58:
        return {'op': 'f_drop', 'f': 0, 'via': 'iloc', 'rk': rng.choice([['nokey'], ['int', 0], ['list', [0]]]), 'ck': rng.choice([['nokey'], ['int', 0]]), 'route': 'direct'}
    if r < 0.72:
        return {'op': 'f_fillna', 'f': 0, 'v': ['f', rng.randint(-3, 3), 1], 'route': 'apply'}
    if r < 0.82:
        return {'op': 'f_isna', 'f': 0, 'neg': rng.random() < 0.5, 'route': 'apply'}
    if r < 0.92:
        return {'op': 'f_dropna', 'f': 0, 'axis': 0, 'cond': rng.choice(['any', 'all']), 'route': 'apply'}
    return {'op': 'f_filldir', 'f': 0, 'forward': rng.random() < 0.5, 'limit': 0, 'axis': 0, 'route': 'apply'}


def py_batch_op(batch, op):
    o, route = op['op'], op['route']
    if o == 'f_iloc':
        rk, ck = C.py_iloc_key(op['rk']), C.py_iloc_key(op['ck'])
        if route == 'head':
            return batch.head(op['n'])
        if route == 'tail':
            return batch.tail(op['n'])
        return batch.apply(lambda f: f.iloc[rk, ck]) if route == 'apply' else batch.iloc[rk, ck]
    if o == 'f_drop':
        rk, ck = C.py_iloc_key(op['rk']), C.py_iloc_key(op['ck'])
        return batch.drop.iloc[slice(0, 0) if rk is None else rk, slice(0, 0) if ck is None else ck]
    if o == 'f_count':
        return batch.apply(lambda f: f.count(axis=op['axis'])) if route == 'apply' else batch.count(axis=op['axis'])
    if o == 'f_fillna':
        v = P.dec(op['v'])
        return batch.apply(lambda f: f.fillna(v))
    if o == 'f_isna':
        return batch.apply(lambda f: f.notna() if op['neg'] else f.isna())
    if o == 'f_dropna':
        cond = np.any if op['cond'] == 'any' else np.all
        return batch.apply(lambda f: f.dropna(axis=0, condition=cond))
    if o == 'f_filldir':
        return batch.apply(lambda f: f.fillna_forward(axis=0) if op['forward'] else f.fillna_backward(axis=0))
    raise ValueError(o)


def gen_batch_case(rng):
    '''a chain in which no label's Frame becomes zero-sized before the last step (zero-sized Frames are C04 / C14 matters)'''
    members = rand_members(rng)
    rows = min(len(m['f']['index']) for m in members)
    cols = len(members[0]['f']['columns'])
    k = rng.randint(1, 3)
    ops = []
    for i in range(k):
        for _ in range(20):
            op = rand_batch_op(rng, last=(i == k - 1))
            o = op['op']
            r2, c2 = rows, cols
            if o == 'f_iloc':
                if op['rk'][0] == 'slice':
                    n = op['rk'][2][1] if op['rk'][2][0] == 'i' else -op['rk'][1][1]
                    r2 = min(rows, n)
                if op['ck'][0] != 'all':
                    c2 = 1
            elif o == 'f_drop':
                r2 = rows - (0 if op['rk'][0] == 'nokey' else 1)
                c2 = cols - (0 if op['ck'][0] == 'nokey' else 1)
            elif o == 'f_dropna' and i != k - 1:
                continue
            if r2 >= 1 and c2 >= 1:
                rows, cols = r2, c2
                ops.append(op)
                break
    return {'kind': 'batch', 'members': members, 'ops': ops or [{'op': 'f_isna', 'f': 0, 'neg': False, 'route': 'apply'}]}


def run_batch(ev, rng):
    frames = build_members({'members': ev['members']}, rng)
    items = [(f.name, f) for f in frames]
    mw = rng.choice([None, None, 2, 3])
    try:
        batch = sf.Batch(iter(items), max_workers=mw, use_threads=True) if mw else sf.Batch(iter(items))
        for op in ev['ops']:
            batch = py_batch_op(batch, op)
        got = [(k, v) for k, v in batch.items()]
        out = [[P.enc(k), P.proj(v)] for k, v in got]
        # the export concatenates exactly these results
        batch2 = sf.Batch(iter(items))
        for op in ev['ops']:
            batch2 = py_batch_op(batch2, op)
        exported = batch2.to_frame()
        if got and all(v.ndim == 1 for _, v in got):
            want = sf.Frame.from_concat([v for _, v in got], axis=0, index=[k for k, _ in got])        # one row per label
        else:
            want = sf.Frame.from_concat_items(got, axis=0) if got else None
        export_ok = want is None or (exported.equals(want, compare_dtype=True) and list(exported.index) == list(want.index) and list(exported.columns) == list(want.columns))
    except Exception as e:
        return [[['s', 'ERROR'], {'k': 'err', 'cat': P.err_category(e)}]], True
    return out, bool(export_ok)


# ---- Batch delegation sweep: every forwarded method, label by label, against the member itself ------------------------------
BATCH_METHODS = {}
for _name in ('sum', 'prod', 'min', 'max', 'mean', 'median', 'std', 'var', 'all', 'any', 'cumsum', 'cumprod'):
    for _ax in (0, 1):
        for _sk in (True, False):
            BATCH_METHODS['%s_axis%d_skipna%d' % (_name, _ax, _sk)] = (lambda n, a, k: (lambda x: getattr(x, n)(axis=a, skipna=k)))(_name, _ax, _sk)
for _name in ('std', 'var'):
    BATCH_METHODS['%s_ddof1_noskip' % _name] = (lambda n: (lambda x: getattr(x, n)(axis=0, skipna=False, ddof=1)))(_name)
    BATCH_METHODS['%s_ddof1' % _name] = (lambda n: (lambda x: getattr(x, n)(axis=0, ddof=1)))(_name)
BATCH_METHODS.update({
    'count0': lambda x: x.count(axis=0), 'count1': lambda x: x.count(axis=1),
    'loc_min0': lambda x: x.loc_min(axis=0), 'loc_max1': lambda x: x.loc_max(axis=1), 'iloc_min1': lambda x: x.iloc_min(axis=1), 'iloc_max0': lambda x: x.iloc_max(axis=0),
    'loc_min0_noskip': lambda x: x.loc_min(axis=0, skipna=False),
    'add1': lambda x: x + 1, 'radd': lambda x: 1 + x, 'mul2': lambda x: x * 2, 'neg': lambda x: -x, 'abs': lambda x: abs(x), 'eq0': lambda x: x == 0, 'lt1': lambda x: x < 1, 'truediv': lambda x: x / 2,
    'pow2': lambda x: x ** 2, 'rsub': lambda x: 10 - x,
    'clip': lambda x: x.clip(lower=0, upper=2), 'isin': lambda x: x.isin((0, 1)), 'transpose': lambda x: x.transpose(), 'T': lambda x: x.T,
    'duplicated0': lambda x: x.duplicated(), 'duplicated1': lambda x: x.duplicated(axis=1), 'drop_duplicated': lambda x: x.drop_duplicated(),
    'roll': lambda x: x.roll(1, -1), 'roll_incl': lambda x: x.roll(-1, 1, include_index=True, include_columns=True), 'shift': lambda x: x.shift(1, 1), 'shift_fill': lambda x: x.shift(-1, fill_value=0),
    'head1': lambda x: x.head(1), 'tail2': lambda x: x.tail(2),
    'sort_index_desc': lambda x: x.sort_index(ascending=False), 'sort_columns_desc': lambda x: x.sort_columns(ascending=False),
    'sort_values_first': lambda x: x.sort_values('a'), 'sort_values_desc': lambda x: x.sort_values('a', ascending=False),
    'iloc_rows': lambda x: x.iloc[1:], 'iloc_cell_col': lambda x: x.iloc[:, 0], 'loc_col': lambda x: x.loc[:, ['a']], 'getitem': lambda x: x['a'], 'getitem_list': lambda x: x[['b', 'a']],
    'drop_col': lambda x: x.drop['a'], 'drop_iloc_row': lambda x: x.drop.iloc[0],
    'chain_sel_cumsum': lambda x: x[['a', 'b']].cumsum(), 'chain_add_cumprod_max': lambda x: (x + 1).cumprod().max(), 'chain_T_sum': lambda x: x.T.sum(),
    'cov': lambda x: x.cov(),          # (Batch.rename names the Batch itself and Batch.unique wraps the arrays in Series: not member-wise maps, left out)
})


# results that are subclasses of Frame / Series, produced through apply: (on the member, on the Batch)
BATCH_METHODS.update({
    'apply_to_frame_he': (lambda f: f.to_frame_he(), lambda b: b.apply(lambda f: f.to_frame_he())),
    'apply_to_frame_go': (lambda f: f.to_frame_go(), lambda b: b.apply(lambda f: f.to_frame_go())),
    'apply_series_he': (lambda f: sf.SeriesHE(f.iloc[0].values, index=f.columns), lambda b: b.apply(lambda f: sf.SeriesHE(f.iloc[0].values, index=f.columns))),
    'apply_items_label': (lambda f: f.rename(None).iloc[:1], lambda b: b.apply_items(lambda k, f: f.rename(None).iloc[:1])),
})


def _proj_any(v):
    if isinstance(v, (sf.Frame, sf.Series)):
        return P.proj(v)
    if isinstance(v, np.ndarray):
        return {'k': 'array', 'dt': P.enc_dtype(v.dtype), 'shape': list(v.shape), 'vals': P.enc_array(v.reshape(-1))}
    return {'k': 'elem', 'v': P.enc(v)}


def _wkw(cs):
    return {'start_shift': cs['sshift'], 'label_shift': cs['lshift'], 'window_sized': cs['ws']}


def _wparams(rng):
    '''start shift >= 0 (a negative one makes the Quilt select an empty range of members, which raises as built), label shift <= 0, complete or incomplete windows'''
    if rng.random() < 0.4:
        return {'sshift': 0, 'lshift': 0, 'ws': True}
    return {'sshift': rng.choice([0, 0, 1, 2]), 'lshift': rng.choice([0, -1, -1, -2]), 'ws': rng.random() < 0.4}


def batch_map_event(rng):
    nm = rng.randint(1, 3)
    members = []
    kinds = rng.choice(['f', 'f', 'if', 'i', 'fb'])
    reduce_family = rng.random() < 0.3          # the axis reductions on wider members: blocks of unequal widths, where a row-wise mean / median is not the mean / median of per-block results
    for m in range(nm):
        nr, nc = rng.randint(1, 4), (rng.randint(3, 5) if reduce_family else rng.randint(2, 3))
        cols = [C.rand_column(rng, rng.choice(kinds), nr, 0.35) for _ in range(nc)]
        f = {'index': C.rand_labels(rng, nr, 'str'), 'columns': [['s', 'abcde'[j]] for j in range(nc)], 'cols': cols, 'name': ['s', 'm%d' % m]}
        members.append((f, C.rand_layout(rng, f)))
    name = rng.choice(sorted(k for k in BATCH_METHODS if '_axis' in k)) if reduce_family else rng.choice(sorted(BATCH_METHODS))
    fn = BATCH_METHODS[name]
    fn_member, fn_batch = fn if isinstance(fn, tuple) else (fn, fn)
    # the members may be any Frame class (the Batch forwards to whatever it holds)
    mcls = rng.choice([None, None, sf.FrameGO, sf.FrameHE])
    if name == 'eq0' and mcls is sf.FrameHE:
        mcls = None          # == on a FrameHE is whole-container equality (C10), not an element-wise operator
    frames = [P.build_frame(f, lay, cls=mcls) for f, lay in members]
    direct = []
    for fr in frames:
        try:
            direct.append([P.enc(fr.name), _proj_any(fn_member(fr))])
        except Exception as e:
            direct.append([P.enc(fr.name), {'k': 'err', 'cat': P.err_category(e)}])
    via = []
    mw = rng.choice([None, None, 2])
    try:
        b = sf.Batch(((fr.name, fr) for fr in frames), max_workers=mw, use_threads=True) if mw else sf.Batch((fr.name, fr) for fr in frames)
        it = iter(fn_batch(b).items())
        while True:
            try:
                k, v = next(it)
            except StopIteration:
                break
            via.append([P.enc(k), _proj_any(v)])
    except Exception as e:
        # the Batch is lazy: a member whose call raises stops the stream there with that error
        via.append([direct[len(via)][0] if len(via) < len(direct) else ['s', 'ERROR'], {'k': 'err', 'cat': P.err_category(e)}])
    # the stream ends at the first failing member: compare up to and including it
    cut = next((i + 1 for i, d in enumerate(direct) if d[1].get('k') == 'err'), len(direct))
    return {'kind': 'batch_map', 'method': name + ('' if mcls is None else ':' + mcls.__name__), 'members': [f for f, _ in members], 'direct': direct[:cut], 'via': via, 'workers': mw or 0}


def main(ctx):
    quick = ctx.tier == 'quick'
    rng = ctx.rng
    r = ctx.model_check('MC_C19', 'MC_C19_quick.cfg' if quick else 'MC_C19_thorough.cfg', dump=True, timeout=6000, heap='12g')
    ctx.model_check('MC_C19', 'MC_C19_neg.cfg', expect_violation='MaskExtractionAnyOrder', coverage=False)
    workdir = tlc.subdir('c19-stores')
    events = []
    if r.ok and r.dump:
        for cs, exp in core.cases_from_dump(r.dump):
            if quick and rng.random() > 0.3:
                continue
            res = run_quilt(cs, rng, workdir if rng.random() < 0.3 else None)
            events.append({'kind': 'quilt', 'cs': cs, 'res': res, 'leg': 'R'})
        ctx.exhaustive = not quick
    nR = len(events)
    ctx.replayed += nR
    for i in range(2400 if quick else 40000):
        cs = gen_quilt_case(rng)
        res = run_quilt(cs, rng, workdir if rng.random() < 0.25 else None)
        events.append({'kind': 'quilt', 'cs': cs, 'res': res, 'leg': 'V'})
        ctx.count('V_' + cs['op'])
    bad_exports = []
    for i in range(400 if quick else 10000):
        ev = gen_batch_case(rng)
        ev['items'], export_ok = run_batch(ev, rng)
        ev['leg'] = 'V'
        if not export_ok:
            bad_exports.append(ev)
        events.append(ev)
        ctx.count('V_batch_chain')
    for i in range(500 if quick else 12000):
        ev = batch_map_event(rng)
        ev['leg'] = 'V'
        events.append(ev)
        ctx.count('V_batch_map')
    for k, ev in enumerate(events):
        ev['id'] = k
        ev.setdefault('direct', [])
        ev.setdefault('via', [])
        ev.setdefault('cs', {'op': 'none'})
        ev.setdefault('res', {'k': 'none'})
        ev.setdefault('members', [])
        ev.setdefault('ops', [])
        ev.setdefault('items', [])
    # twin sweep: a Quilt over a zip store read piecemeal under max_persist against a Quilt over the same Frames in memory; one call (listed, or found
    # among the public attributes) on both
    import json
    from . import twin
    tev = twin.events(rng, 500 if quick else 10000, [twin.quilt_pair_factory(workdir)])
    for k, ev in enumerate(tev):
        ev['id'] = k
    ctx.count('V_twin_quilt', len(tev))
    trej = ctx.validate_events('Trace_C02', 'Trace.cfg', tev, chunk=600)
    for ev in tev:
        if ev['id'] in trej:
            ctx.violation('V', 'a call on a Quilt over a lazily loaded store differs from the same call on a Quilt over the Frames in memory: %s' % ev['what'], case={'method': ev['what'], 'info': ev['info']},
                          actual=json.loads(ev['stale']), expected=json.loads(ev['fresh']), clause=trej[ev['id']][0])
    rej = ctx.validate_events('Trace_C19', 'Trace.cfg', events, chunk=300)
    ctx.validated -= nR
    for ev in events:
        if ev['id'] in rej:
            if ev['kind'] == 'quilt' and rej[ev['id']][0] == 'dtype' and ev['cs'].get('via') == 'tuple':
                continue          # a tuple carries no dtype
            if ev['kind'] == 'batch_map':
                ctx.violation('V', 'Batch.%s differs from the method applied to each member: %s' % (ev['method'], rej[ev['id']][0]), case={'method': ev['method'], 'members': ev['members'], 'workers': ev['workers'], 'ops': []}, actual=ev['via'], clause=rej[ev['id']][0], expected=ev['direct'])
            elif ev['kind'] == 'quilt':
                ctx.violation(ev['leg'], 'a Quilt call differs from the same call on the concatenated Frame: ' + rej[ev['id']][0], case={'cs': ev['cs']}, actual=ev['res'], clause=rej[ev['id']][0], expected=rej[ev['id']][1])
            else:
                ctx.violation('V', 'a Batch chain differs from the chain applied to each Frame: ' + rej[ev['id']][0], case={'members': ev['members'], 'ops': ev['ops']}, actual=ev['items'], clause=rej[ev['id']][0], expected=rej[ev['id']][1])
    for ev in bad_exports:
        ctx.violation('V', 'Batch.to_frame() is not the concatenation of the per-label results', case={'members': ev['members'], 'ops': ev['ops']}, actual=ev['items'], clause='batch_export')
    ctx.sample({'leg': 'V', 'event': {'cs': {k: v for k, v in events[nR]['cs'].items() if k != 'q'}}})
    return ctx.finish(rule='M/R: members of sizes <<2, 1>> (thorough <<2, 1, 2>>) x both axes x retain on / off x every int / slice / 2-list / mask key on the Quilt axis x 4 keys on the opposite axis; every enumerated selection replayed on real Quilts (30 percent over store-backed Buses with max_persist None / 1 / 2). '
                           'V: random Quilts (1-4 members of 1-3 positions, 1-3 opposite labels, 4 dtype kinds, random block layouts) x iloc / loc / getitem / to_frame / shape / labels / values / iter_series(_items) / iter_array / iter_tuple / iter_window / iter_window_array(_items) / head (members may each be homogeneous in a dtype of their own); random Batch chains of 1-3 operations (selection, fillna, isna / notna, dropna, directional fill; direct or through apply; with and without max_workers) and their export; Batch delegation law: %d forwarded methods / operators / chains (all reductions and cumulative functions x axis x skipna, ddof, loc/iloc min/max, operators, clip, isin, transpose, duplicated, roll, shift, sort_*, selection, drop) on members with missing values, label by label against the member itself; twin sweep: one call on a Quilt over a zip store read under max_persist against a Quilt over the same Frames in memory' % len(BATCH_METHODS))


def replay(rec):
    import json
    import random
    case = rec.get('case') or {}
    print('clause   :', rec.get('clause'))
    if 'cs' in case:
        print('call     :', json.dumps({k: v for k, v in case['cs'].items() if k != 'q'}))
        print('now      :', json.dumps(run_quilt(case['cs'], random.Random(0)))[:1500])
    else:
        ev = {'members': case['members'], 'ops': case['ops']}
        items, export_ok = run_batch(ev, random.Random(0))
        print('chain    :', json.dumps(case['ops']))
        print('now      :', json.dumps(items)[:1500], 'export ok:', export_ok)
    print('recorded :', json.dumps(rec.get('actual'))[:1500])
    print('expected :', json.dumps(rec.get('expected'))[:1500])
    return 0
