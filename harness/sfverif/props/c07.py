'''C07 no lossy coercion: every operation that merges typed data stores elements equal to those supplied.
R: every ordered dtype pair of MC_C07: the resolution table against util.resolve_dtype and np arrays read back.
V: merge sites x dtype pairs x element values; each recorded merge lists supplied vs stored elements.'''
import datetime
import itertools

import numpy as np

import static_frame as sf
from static_frame.core.util import resolve_dtype

from .. import core, project as P
from . import common as C

DTYPES = ['bool', 'i1', 'i2', 'i4', 'i8', 'u1', 'u2', 'u4', 'u8', 'f2', 'f4', 'f8', 'c8', 'c16', '<U1', '<U3', 'S1', 'S3',
          'M8[Y]', 'M8[D]', 'M8[s]', 'm8[D]', 'm8[s]', 'O']


def sample_values(dt):
    '''two elements an array of this dtype naturally holds (incl. the largest)'''
    dt = np.dtype(dt)
    k = dt.kind
    if k == 'b':
        return [True, False]
    if k in 'iu':
        return [1, int(np.iinfo(dt).max)]
    if k == 'f':
        return [0.5, float('nan')]
    if k == 'c':
        return [complex(1, 2), complex(0.5, 0)]
    if k == 'U':
        return ['a' * (dt.itemsize // 4), 'b']
    if k == 'S':
        return [b'a' * dt.itemsize, b'b']
    if k == 'M':
        return [np.datetime64('2020-01-01', np.datetime_data(dt)[0]), np.datetime64('NaT')]
    if k == 'm':
        return [np.timedelta64(3, np.datetime_data(dt)[0]), np.timedelta64(5, np.datetime_data(dt)[0])]
    return [None, 'xyz', 2 ** 70, 1.5, True]


ELEMENTS = [True, 1, -3, 2 ** 53 + 1, 2 ** 63 - 1, 2 ** 64 - 1, 1.5, float('nan'), None, 'abcd', b'ab', complex(1, 2),
            np.datetime64('2021-02-03'), np.datetime64('NaT'), datetime.date(2020, 5, 6), 0.1, 1e300, np.datetime64('2021-03-04T05:06:07'), np.timedelta64(90, 's')]


def arr(dt, n=2):
    dt = np.dtype(dt)
    vals = sample_values(dt)
    if dt.kind == 'O':
        a = np.empty(len(vals), dtype=object)
        a[:] = vals
    else:
        a = np.array(vals, dtype=dt)
    a.flags.writeable = False
    return a


def cenc(x):
    '''element encoding for C07: instants and durations are written unit-free (a datetime64[s] that became a Python
    datetime in an object array, or a timedelta64[D] that became a datetime.timedelta, is the same element)'''
    if isinstance(x, (np.datetime64, datetime.datetime, datetime.date)):
        try:
            v = np.datetime64(x)
            if np.isnat(v):
                return ['nat']
            return ['dz', str(v.astype('datetime64[us]'))]
        except (ValueError, OverflowError):
            return P.enc(x)
    if isinstance(x, (np.timedelta64, datetime.timedelta)):
        try:
            v = np.timedelta64(x)
            if np.isnat(v):
                return ['nat']
            return ['mz', str(int(v.astype('timedelta64[us]').astype(np.int64)))]
        except (ValueError, OverflowError):
            return P.enc(x)
    if isinstance(x, (float, np.floating)) and x == x and abs(x) != float('inf') and abs(float(x)) >= 2 ** 31 and float(x) == int(x):
        return ['I', str(int(x))]      # an integral float beyond 32 bits is written like the int it equals
    if isinstance(x, (complex, np.complexfloating)):
        return ['c', cenc(float(x.real)), cenc(float(x.imag))]
    return P.enc(x)


def _enc_arr(a):
    return [cenc(x) for x in a]


def _labels(n, start=0):
    return ['L%d' % (start + i) for i in range(n)]


# ---------------------------------------------------------------------------------------------
# merge sites: each returns (supplied elements, result array, resolves_dtype?, dts, untouched pairs)

def site_concat(a, b, e):
    r = sf.Series.from_concat((sf.Series(a, index=_labels(len(a))), sf.Series(b, index=_labels(len(b), 10))))
    return list(a) + list(b), r.values, True, [a.dtype, b.dtype], []


def site_reindex_fill(a, b, e):
    r = sf.Series(a, index=_labels(len(a))).reindex(_labels(len(a) + 1), fill_value=e)
    return list(a) + [e], r.values, False, [], []


def site_frame_reindex_both_fill(a, b, e):
    '''both axes reindexed, one column kept, one row label kept and new ones added: the new cells hold the fill value, the kept row its data'''
    f = sf.Frame.from_items((('x', a), ('y', a)), index=_labels(len(a)))
    r = f.reindex(index=[_labels(1)[0]] + _labels(len(a), 70), columns=('y', 'z'), fill_value=e)
    return [a[0]] + [e] * len(a), r['y'].values, False, [], []


def site_frame_reindex_disjoint_rows_fill(a, b, e):
    '''both axes reindexed, a column kept, NO row label in common (same number of rows): every cell is the fill value'''
    f = sf.Frame.from_items((('x', a), ('y', a)), index=_labels(len(a)))
    r = f.reindex(index=_labels(len(a), 70), columns=('y', 'z'), fill_value=e)
    return [e] * len(a), r['y'].values, False, [], []


def site_shift_fill(a, b, e):
    r = sf.Series(a, index=_labels(len(a))).shift(1, fill_value=e)
    return [e] + list(a[:-1]), r.values, False, [], []


def site_assign_elem(a, b, e):
    r = sf.Series(a, index=_labels(len(a))).assign.iloc[0](e)
    return [e] + list(a[1:]), r.values, False, [], []


def site_assign_series_fill(a, b, e):
    '''a Series value that lacks one of the addressed labels: the value is aligned first, the missing label receives the fill value'''
    n = len(a)
    if n < 2:
        raise _Skip()
    v = sf.Series(a[:1], index=_labels(1))
    r = sf.Series(a, index=_labels(n)).assign[_labels(2)](v, fill_value=e)
    return [a[0], e] + list(a[2:]), r.values, False, [], []


def site_assign_loc_series_fill_rev(a, b, e):
    '''the same through .loc with the value's labels in another order and one extra label'''
    n = len(a)
    if n < 3:
        raise _Skip()
    v = sf.Series(a[[2, 0]], index=[_labels(3)[2], _labels(1)[0]])
    r = sf.Series(a, index=_labels(n)).assign.loc[_labels(3)](v, fill_value=e)
    return [a[0], e, a[2]] + list(a[3:]), r.values, False, [], []


def site_assign_array(a, b, e):
    k = min(len(a), len(b))
    r = sf.Series(a, index=_labels(len(a))).assign.iloc[:k](b[:k])
    return list(b[:k]) + list(a[k:]), r.values, True, [a.dtype, b.dtype], []


def site_frame_assign_elem(a, b, e):
    f = sf.Frame.from_items((('x', a), ('y', b[:len(a)] if len(b) >= len(a) else a)))
    r = f.assign.iloc[0, 0](e)
    sup = [e] + list(a[1:])
    return sup, r['x'].values, False, [], [(f['y'].values.dtype, r['y'].values.dtype)]


def site_frame_concat_rows(a, b, e):
    f1 = sf.Frame.from_items((('x', a),), index=_labels(len(a)))
    f2 = sf.Frame.from_items((('x', b),), index=_labels(len(b), 10))
    r = sf.Frame.from_concat((f1, f2))
    return list(a) + list(b), r['x'].values, True, [a.dtype, b.dtype], []


def site_frame_concat_cols_fill(a, b, e):
    f1 = sf.Frame.from_items((('x', a),), index=_labels(len(a)))
    f2 = sf.Frame.from_items((('y', b[:1]),), index=_labels(1, 50))
    r = sf.Frame.from_concat((f1, f2), axis=1, fill_value=e)
    return list(a) + [e], r['x'].values, False, [], []


def site_insert(a, b, e):
    r = sf.Series(a, index=_labels(len(a))).insert_after('L0', sf.Series(b, index=_labels(len(b), 10)))
    return [a[0]] + list(b) + list(a[1:]), r.values, True, [a.dtype, b.dtype], []


def site_row_values(a, b, e):
    n = min(len(a), len(b))
    f = sf.Frame.from_items((('x', a[:n]), ('y', b[:n])))
    r = f.values[0]
    return [a[0], b[0]], r, True, [a.dtype, b.dtype], []


def site_row_iloc(a, b, e):
    n = min(len(a), len(b))
    f = sf.Frame.from_items((('x', a[:n]), ('y', b[:n])))
    return [a[0], b[0]], f.iloc[0].values, True, [a.dtype, b.dtype], []


def _obj_col(n, first):
    o = np.empty(n, dtype=object)
    o[:] = ['text'] * n
    o[0] = first
    o.flags.writeable = False
    return o


def site_row_iloc_object_number(a, b, e):
    '''one row read across a typed column and a 1-D object column that holds a Python number in that row (it is object because other rows
    hold text): the row must come back with both elements as they are (a big int next to a float column must not become a float)'''
    big = 2 ** 60 + 1
    f = sf.Frame.from_items((('x', a), ('o', _obj_col(len(a), big))), index=_labels(len(a)))
    return [a[0], big], f.iloc[0].values, True, [a.dtype, np.dtype(object)], []


def site_row_loc_object_float(a, b, e):
    f = sf.Frame.from_items((('o', _obj_col(len(a), 1.5)), ('x', a)), index=_labels(len(a)))
    return [1.5, a[0]], f.loc[_labels(len(a))[0]].values, True, [np.dtype(object), a.dtype], []


def site_row_loc_cols_object_number(a, b, e):
    f = sf.Frame.from_items((('x', a), ('o', _obj_col(len(a), 7)), ('y', a)), index=_labels(len(a)))
    return [a[0], 7, a[0]], f.loc[_labels(len(a))[0], ['x', 'o', 'y']].values, True, [a.dtype, np.dtype(object)], []


def site_iter_array_rows(a, b, e):
    n = min(len(a), len(b))
    f = sf.Frame.from_items((('x', a[:n]), ('y', b[:n])))
    return [a[0], b[0]], next(iter(f.iter_array(axis=1))), True, [a.dtype, b.dtype], []


def site_from_records(a, b, e):
    rows = [(x,) for x in a.tolist() + [e]]
    f = sf.Frame.from_records(rows, columns=('x',))
    return a.tolist() + [e], f['x'].values, False, [], []


def site_frame_from_elements(a, b, e):
    lst = a.tolist() + [e]
    f = sf.Frame.from_elements(lst, columns=('x',))
    return lst, f['x'].values, False, [], []


def site_frame_from_element_items(a, b, e):
    lst = [e] + a.tolist()
    f = sf.Frame.from_element_items((((i, 'x'), v) for i, v in enumerate(lst)), index=range(len(lst)), columns=('x',), axis=1)
    return lst, f['x'].values, False, [], []


def site_frame_from_records_items(a, b, e):
    lst = a.tolist() + [e]
    f = sf.Frame.from_records_items(((i, (v,)) for i, v in enumerate(lst)), columns=('x',))
    return lst, f['x'].values, False, [], []


def site_series_from_items(a, b, e):
    lst = a.tolist() + [e]
    r = sf.Series.from_items(enumerate(lst))
    return lst, r.values, False, [], []


def site_series_from_list(a, b, e):
    lst = [e] + a.tolist()
    r = sf.Series(lst)
    return lst, r.values, False, [], []


def site_series_from_list_rev(a, b, e):
    lst = a.tolist() + [e]
    r = sf.Series(lst)
    return lst, r.values, False, [], []


def site_index_go_append(a, b, e):
    ix = sf.IndexGO(a)
    ix.append(e)
    return list(a) + [e], ix.values, False, [], []


def site_frame_go_extend(a, b, e):
    f = sf.FrameGO.from_items((('x', a),))
    f['y'] = b[:len(a)] if len(b) >= len(a) else a
    return list(a), f['x'].values, False, [], [(a.dtype, f['x'].values.dtype)]


def site_frame_go_grown_row_values(a, b, e):
    '''a FrameGO grown column by column: the row dtype kept by TypeBlocks.append decides how rows are consolidated'''
    n = min(len(a), len(b))
    f = sf.FrameGO.from_items((('x', a[:n]),))
    f['y'] = b[:n]
    return [a[0], b[0]], f.values[0], False, [], []          # a grown FrameGO falls back to object rows when the dtypes differ: no loss, so only the elements are compared


def site_frame_go_grown_iter_rows(a, b, e):
    n = min(len(a), len(b))
    f = sf.FrameGO.from_items((('x', a[:n]),))
    f.extend(sf.Frame.from_items((('y', b[:n]),)))
    r = next(iter(f.iter_array(axis=1)))
    return [a[0], b[0]], r, False, [], []


def site_frame_go_grown_transpose(a, b, e):
    n = min(len(a), len(b))
    f = sf.FrameGO.from_items((('x', a[:n]),))
    f['y'] = b[:n]
    r = f.transpose().iloc[:, 0].values
    return [a[0], b[0]], r, False, [], []


def site_fillna(a, b, e):
    if a.dtype.kind not in 'fcMO':
        raise _Skip()
    x = a.copy()
    s = sf.Series(x, index=_labels(len(x)))
    r = s.fillna(e)
    sup = [e if (v is None or (isinstance(v, (float, np.floating)) and v != v) or (isinstance(v, np.datetime64) and np.isnat(v))) else v for v in a]
    return sup, r.values, False, [], []


def _has_missing(a):
    return any(v is None or (isinstance(v, (float, np.floating, complex, np.complexfloating)) and v != v) or (isinstance(v, (np.datetime64, np.timedelta64)) and np.isnat(v)) for v in a)


def _miss(v):
    return v is None or (isinstance(v, (float, np.floating, complex, np.complexfloating)) and v != v) or (isinstance(v, (np.datetime64, np.timedelta64)) and np.isnat(v))


def site_frame_fillna(a, b, e):
    '''Frame.fillna(element): the block with the hole takes the resolved dtype (a narrower float / complex or a coarser datetime unit must widen)'''
    if a.dtype.kind not in 'fcMmO' or not _has_missing(a):
        raise _Skip()
    f = sf.Frame.from_items((('x', a), ('y', np.arange(len(a)))), index=_labels(len(a)))
    r = f.fillna(e)
    sup = [e if _miss(v) else v for v in a]
    return sup, r['x'].values, False, [], [(f['y'].values.dtype, r['y'].values.dtype)]


def site_frame_fillna_2d(a, b, e):
    '''the same through a two-column 2-D block'''
    if a.dtype.kind not in 'fcMmO' or not _has_missing(a):
        raise _Skip()
    f = _two_col_block(a)
    r = f.fillna(e)
    sup = [e if _miss(v) else v for v in a]
    return sup, r['q'].values, False, [], [(f['r'].values.dtype, r['r'].values.dtype)]


def site_frame_fillna_frame(a, b, e):
    '''Frame.fillna(Frame): the filler column has dtype b'''
    if a.dtype.kind not in 'fcMmO' or not _has_missing(a) or _has_missing(b[:1]) or b.dtype.kind == 'S':
        raise _Skip()          # (a bytes filler is re-indexed with a str placeholder: str with bytes, outside the claim)
    f = sf.Frame.from_items((('x', a), ('y', np.arange(len(a)))), index=_labels(len(a)))
    k = next(i for i, v in enumerate(a) if _miss(v))
    filler = sf.Frame.from_items((('x', b[:1]),), index=[_labels(len(a))[k]])
    r = f.fillna(filler)
    sup = [b[0] if i == k else v for i, v in enumerate(a)]
    # (the filler is re-indexed with a placeholder first, so the result may be wider than resolve(a, b): the dtype is not asserted, the elements are)
    return sup, r['x'].values, False, [], [(f['y'].values.dtype, r['y'].values.dtype)]


def site_overlay(a, b, e):
    s1 = sf.Series(a, index=_labels(len(a)))
    s2 = sf.Series(b, index=_labels(len(b), 1))
    r = sf.Series.from_overlay((s1, s2))
    want = {}
    isna = lambda v: v is None or (isinstance(v, (float, np.floating, complex, np.complexfloating)) and v != v) or (isinstance(v, (np.datetime64, np.timedelta64)) and np.isnat(v))
    for lab, v in list(zip(s1.index, a)) + list(zip(s2.index, b)):
        if lab not in want or isna(want[lab]):
            if lab not in want or not isna(v):
                want[lab] = v
    return [want[l] for l in r.index], r.values, False, [], []


class _Skip(Exception):
    pass


def site_insert_after_last(a, b, e):
    labs = _labels(len(a))
    r = sf.Series(a, index=labs).insert_after(labs[-1], sf.Series(b, index=_labels(len(b), 10)))
    return list(a) + list(b), r.values, True, [a.dtype, b.dtype], []


def site_insert_before_first(a, b, e):
    labs = _labels(len(a))
    r = sf.Series(a, index=labs).insert_before(labs[0], sf.Series(b, index=_labels(len(b), 10)))
    return list(b) + list(a), r.values, True, [a.dtype, b.dtype], []


def site_insert_before_last(a, b, e):
    labs = _labels(len(a))
    r = sf.Series(a, index=labs).insert_before(labs[-1], sf.Series(b, index=_labels(len(b), 10)))
    return list(a[:-1]) + list(b) + [a[-1]], r.values, True, [a.dtype, b.dtype], []


def _two_col_block(a):
    '''a Frame whose columns p, q live in ONE 2-D block of a's dtype, plus a separate column r'''
    if a.dtype.kind == 'O':
        m = np.empty((len(a), 2), dtype=object)
        m[:, 0] = a
        m[:, 1] = a
    else:
        m = np.stack((a, a), axis=1)
    m.flags.writeable = False
    tb = sf.TypeBlocks.from_blocks((m, np.arange(len(a))))
    return sf.Frame(tb, columns=('p', 'q', 'r'), index=_labels(len(a)))


def site_frame_assign_frame_rows_second_block(a, b, e):
    '''a Frame value whose columns are SEPARATE blocks (dtype of the target first, another dtype second) assigned into a proper
    subset of the rows of two adjacent columns that share one 2-D block: the second value column must arrive intact'''
    f = _two_col_block(a)
    v = sf.Frame.from_items((('p', a[:1]), ('q', b[:1])), index=_labels(1))
    r = f.assign.iloc[:1, :2](v)
    return [b[0]] + list(a[1:]), r['q'].values, True, [a.dtype, b.dtype], [(f['r'].values.dtype, r['r'].values.dtype)]


def site_frame_assign_frame_rows_first_block(a, b, e):
    '''as above with the other dtype first'''
    f = _two_col_block(a)
    v = sf.Frame.from_items((('p', b[:1]), ('q', a[:1])), index=_labels(1))
    r = f.assign.iloc[:1, :2](v)
    return [b[0]] + list(a[1:]), r['p'].values, True, [a.dtype, b.dtype], [(f['r'].values.dtype, r['r'].values.dtype)]


def site_frame_assign_frame_loc_rows(a, b, e):
    '''label route, last row only, three value blocks (target dtype, other dtype, target dtype) into p, q and the separate column r untouched'''
    f = _two_col_block(a)
    lab = _labels(len(a))[-1]
    v = sf.Frame.from_items((('p', a[-1:]), ('q', b[-1:])), index=[lab])
    r = f.assign.loc[[lab], ['p', 'q']](v)
    return list(a[:-1]) + [b[len(b) - 1]], r['q'].values, True, [a.dtype, b.dtype], [(f['r'].values.dtype, r['r'].values.dtype)]


SITES = {k[5:]: v for k, v in list(globals().items()) if k.startswith('site_')}


def run_site(name, da, db, e):
    a, b = arr(da), arr(db)
    try:
        sup, stored, resolves, dts, untouched = SITES[name](a, b, e)
    except _Skip:
        return None
    except Exception as ex:
        return {'site': name, 'supplied': [], 'resolves': False, 'dts': [], 'res': P.proj_err(ex)}
    return {'site': name, 'supplied': [cenc(x) for x in sup], 'resolves': resolves, 'dts': [P.enc_dtype(d) for d in dts],
            'res': {'k': 'merged', 'stored': _enc_arr(stored), 'dt': P.enc_dtype(stored.dtype),
                    'untouched': [[P.enc_dtype(x), P.enc_dtype(y)] for x, y in untouched]}}


def main(ctx):
    quick = ctx.tier == 'quick'
    r = ctx.model_check('MC_C07', 'MC_C07_quick.cfg', dump=True)
    ctx.model_check('MC_C07', 'MC_C07_neg.cfg', expect_violation='NoLoss', coverage=False)
    # ---- R: the specification's resolution table is the library's (and NumPy's, for numeric pairs)
    if r.ok and r.dump:
        n = 0
        for cs, exp in core.cases_from_dump(r.dump):
            n += 1
            a, b = P.dec_dtype(cs['a']), P.dec_dtype(cs['b'])
            act = P.enc_dtype(resolve_dtype(a, b))
            ctx.replayed += 1
            if act != exp['dt']:
                ctx.violation('R', 'resolve_dtype differs from the specification table', case={'cs': cs}, expected=exp, actual=act)
            if a.kind in 'iufc' and b.kind in 'iufc':
                nt = P.enc_dtype(np.result_type(a, b))
                if nt != exp['dt']:
                    ctx.violation('R', 'specification table differs from np.result_type', case={'cs': cs}, expected=exp, actual=nt)
            if n <= 2:
                ctx.sample({'leg': 'R', 'case': cs, 'expected': exp})
        ctx.exhaustive = True
    # ---- V: merge sites
    events = []
    ELEM_SITES = ('row_iloc_object_number', 'row_loc_object_float', 'row_loc_cols_object_number', 'frame_fillna', 'frame_fillna_2d', 'reindex_fill', 'frame_reindex_both_fill', 'frame_reindex_disjoint_rows_fill', 'shift_fill', 'assign_elem', 'assign_series_fill', 'assign_loc_series_fill_rev', 'frame_assign_elem', 'frame_concat_cols_fill', 'from_records', 'frame_from_elements', 'frame_from_element_items', 'frame_from_records_items', 'series_from_items',
                  'series_from_list', 'series_from_list_rev', 'index_go_append', 'fillna')

    def emit(name, da, db, e):
        kinds = {np.dtype(da).kind}
        if name in ELEM_SITES:
            kinds.add('U' if isinstance(e, str) else 'S' if isinstance(e, bytes) else '-')
        else:
            kinds.add(np.dtype(db).kind)
        if 'U' in kinds and 'S' in kinds:
            return  # str with bytes: outside the claim
        if name == 'index_go_append' and (e is None or (isinstance(e, float) and e != e) or (isinstance(e, np.datetime64) and np.isnat(e))):
            return  # NaN / None labels are outside the claim
        ev = run_site(name, da, db, e)
        if ev is None:
            return
        ev['id'] = len(events)
        ev['da'], ev['db'], ev['e'] = da, db, P.enc(e)
        events.append(ev)
        ctx.count('V_' + name)
    # element sites: every dtype x every element value (the second dtype plays no role)
    for da in DTYPES:
        for name in ELEM_SITES:
            for e in ELEMENTS:
                emit(name, da, DTYPES[0], e)
    # pair sites: ordered dtype pairs (quick: a seeded sample)
    pairs = list(itertools.product(DTYPES, DTYPES))
    if quick:
        pairs = ctx.rng.sample(pairs, 250)
    for da, db in pairs:
        for name in sorted(SITES):
            if name not in ELEM_SITES:
                emit(name, da, db, None)
    rej = ctx.validate_events('Trace_C07', 'Trace.cfg', events)
    for ev in events:
        if ev['id'] in rej:
            ctx.violation('V', 'recorded merge at site %s violates %s' % (ev['site'], rej[ev['id']][0]),
                          case={'site': ev['site'], 'da': ev['da'], 'db': ev['db'], 'e': ev['e'], 'supplied': ev['supplied'], 'dts': ev['dts']},
                          actual=ev['res'], clause=rej[ev['id']][0], expected=rej[ev['id']][1])
    ctx.sample({'leg': 'V', 'event': events[0]})
    ctx.counters['sites'] = len(SITES)
    return ctx.finish(rule='M/R: every ordered pair of 24 dtype tokens: NoLoss on the resolution table (known lossy cells named), table = util.resolve_dtype = np.result_type; V: %d merge sites x dtype pairs (quick: 220 sampled pairs; thorough: all 576) x 15 element values incl. NaN/None/NaT, 2**53+1, 2**63-1, 2**64-1' % len(SITES))
