'''C06 index set algebra and label alignment of binary operators.'''
import operator

import numpy as np

import static_frame as sf

from .. import core, project as P
from . import common as C
from .c15 import num

OPS = {'add': operator.add, 'sub': operator.sub, 'mul': operator.mul, 'eq': operator.eq, 'ne': operator.ne, 'lt': operator.lt,
       'le': operator.le, 'gt': operator.gt, 'and': operator.and_, 'or': operator.or_}


def nser(s):
    return {'k': 'nseries', 'index': P.labels_of(s.index), 'vals': [num(x) for x in s.values]}


def nframe(f):
    return {'k': 'nframe', 'index': P.labels_of(f.index), 'columns': P.labels_of(f.columns), 'cols': [[num(x) for x in c] for c in P.raw_columns(f)]}


def abs_nser(s):
    return {'index': s['index'], 'vals': [num(P.dec(v)) for v in s['vals']]}


def abs_nframe(f):
    return {'index': f['index'], 'columns': f['columns'], 'cols': [[num(P.dec(v)) for v in c['vals']] for c in f['cols']]}


def run_case(cs, real, layouts=(None, None)):
    '''cs: the abstract (numeric) case sent to TLC; real: the concrete operands'''
    op = cs['op']
    try:
        if op == 'setop':
            a = P.build_index(real['a'])
            if cs.get('bform') in ('array', 'list'):
                # the other operand as a plain NumPy array / list of labels, possibly naming a label more than once: still a SET of labels
                raw = [P.dec(x) for x in real['b']] + [P.dec(x) for x in real.get('brep', [])]
                b = np.array(raw, dtype='datetime64[D]' if (raw and isinstance(raw[0], np.datetime64)) else None) if cs['bform'] == 'array' else raw
            else:
                b = P.build_index(real['b'])
            r = getattr(a, cs['kind'])(b)
            return {'k': 'labels', 'labels': P.labels_of(r)}
        if op == 'sf_matmul':
            return nser(P.build_series(real['a']) @ P.build_frame(real['b'], layouts[1]))
        if op == 'fs_matmul':
            return nser(P.build_frame(real['a'], layouts[0]) @ P.build_series(real['b']))
        fn = OPS[cs['fn']]
        if op == 's_binop':
            return nser(fn(P.build_series(real['a']), P.build_series(real['b'])))
        if op == 'f_binop':
            return nframe(fn(P.build_frame(real['a'], layouts[0]), P.build_frame(real['b'], layouts[1])))
        if op == 'fs_binop':
            return nframe(fn(P.build_frame(real['a'], layouts[0]), P.build_series(real['b'])))
        if op == 'fsT_binop':
            return nframe(fn(P.build_frame(real['a'], layouts[0]).via_T, P.build_series(real['b'])))
        if op == 'f_scalar':
            f = P.build_frame(real['a'], layouts[0])
            v = P.dec(real['v'])
            return nframe(fn(v, f) if cs['reflected'] else fn(f, v))
    except Exception as e:
        return P.proj_err(e)
    raise ValueError(op)


def _numcol(rng, n, kind):
    if kind == 'b':
        return {'dt': ['b', 8], 'vals': [['b', rng.randrange(2)] for _ in range(n)]}
    if kind == 'i':
        return {'dt': ['i', 64], 'vals': [['i', rng.randrange(-3, 4)] for _ in range(n)]}
    from fractions import Fraction
    vals = []
    for _ in range(n):
        if rng.random() < 0.15:
            vals.append(['nan'])
        else:
            q = Fraction(rng.randrange(-3, 4), rng.choice([1, 2]))
            vals.append(['f', q.numerator, q.denominator])
    return {'dt': ['f', 64], 'vals': vals}


def _labels(rng, pool, k):
    return rng.sample(pool, k)


POOLS = {
    'str': [['s', x] for x in 'abcdef'],
    'int': [['i', x] for x in range(6)],
    'mixed': [['s', 'a'], ['i', 1], ['s', 'b'], ['i', 0], ['b', 0][:0] or ['s', 'c'], ['i', 2]],
    'tuple': [['t', [['s', o], ['i', i]]] for o in 'AB' for i in range(3)],
    'date': [['d', 'D', 18000 + x] for x in range(6)],
}


def _tree_sorted(labels):
    '''hierarchical labels must be in tree order'''
    firsts = []
    for l in labels:
        if l[1][0] not in firsts:
            firsts.append(l[1][0])
    return sorted(labels, key=lambda l: firsts.index(l[1][0]))


def gen_case(rng):
    r = rng.random()
    pk = rng.choice(['str', 'str', 'int', 'mixed', 'tuple', 'date'])
    pool = POOLS[pk]

    def labs(k=None):
        k = rng.randint(1 if pk == 'tuple' else 0, len(pool)) if k is None else max(k, 1 if pk == 'tuple' else 0)
        ls = _labels(rng, pool, k)
        return _tree_sorted(ls) if pk == 'tuple' else ls
    def near_equal():
        '''two hierarchies of the same shape and outer labels: a is a full product (its levels may be ONE shared Index object),
        b differs from it in a single inner label under an early (or, less often, the last) outer label'''
        inner = sorted(rng.sample(range(3), 2))
        spare = [i for i in range(3) if i not in inner][0]
        a = [['t', [['s', o], ['i', i]]] for o in 'AB' for i in inner]
        b = [list(x) for x in a]
        o = 'A' if rng.random() < 0.8 else 'B'
        k = rng.choice([j for j, l in enumerate(b) if l[1][0] == ['s', o]])
        b[k] = ['t', [['s', o], ['i', spare]]]
        return (a, b) if rng.random() < 0.7 else (b, a)
    if r < 0.2:
        a, b = labs(), labs()
        if rng.random() < 0.25:
            b = list(a)
        elif pk == 'tuple' and rng.random() < 0.5:
            a, b = near_equal()
        cs = {'op': 'setop', 'kind': rng.choice(['union', 'intersection', 'difference']), 'a': a, 'b': b, 'bform': 'index'}
        real = {'a': a, 'b': b}
        if pk in ('str', 'int', 'date') and a and b and rng.random() < 0.35:          # (an empty index is float64 and would turn int labels into equal floats)
            cs['bform'] = rng.choice(['array', 'array', 'list'])
            real['brep'] = [rng.choice(b) for _ in range(rng.randint(0, 2))]
            cs['b'] = list(b) + real['brep']          # the operand as given (with its repeats) is what the statement sees: it is not 'identical' to a
        return cs, real, (None, None)
    if rng.random() < 0.08:
        # the matrix product: the same label set on the paired axes, stored in different orders (nothing about @ says the orders agree)
        labs_ = [['s', x] for x in rng.sample(list('abcdefg'), rng.randint(1, 4))]
        la, lb = list(labs_), list(labs_)
        rng.shuffle(la)
        rng.shuffle(lb)
        other = [['s', x] for x in rng.sample(list('pqrs'), rng.randint(1, 3))]
        ints = lambda n: [['i', rng.choice([1, 2, 3, 10, 100, -1, 0])] for _ in range(n)]
        s = {'index': la, 'vals': ints(len(la)), 'dt': ['i', 64], 'name': ['none']}
        if rng.random() < 0.5:
            f = {'index': lb, 'columns': other, 'cols': [{'dt': ['i', 64], 'vals': ints(len(lb))} for _ in other], 'name': ['none']}
            return {'op': 'sf_matmul', 'a': abs_nser(s), 'b': abs_nframe(f)}, {'a': s, 'b': f}, (None, C.rand_layout(rng, f))
        f = {'index': other, 'columns': lb, 'cols': [{'dt': ['i', 64], 'vals': ints(len(other))} for _ in lb], 'name': ['none']}
        return {'op': 'fs_matmul', 'a': abs_nframe(f), 'b': abs_nser(s)}, {'a': f, 'b': s}, (C.rand_layout(rng, f), None)
    fnname = rng.choice(['add', 'sub', 'mul', 'eq', 'ne', 'lt', 'le', 'gt', 'and', 'or'])
    kind = 'b' if fnname in ('and', 'or') else rng.choice('iif')
    if r < 0.45:
        la, lb = labs(), labs()
        if pk == 'tuple' and rng.random() < 0.4:
            la, lb = near_equal()
        elif rng.random() < 0.3:
            lb = list(la)
        elif rng.random() < 0.3:
            lb = list(la)
            rng.shuffle(lb)
            if pk == 'tuple':
                lb = _tree_sorted(lb)
        ca, cb = _numcol(rng, len(la), kind), _numcol(rng, len(lb), kind)
        a = {'index': la, 'vals': ca['vals'], 'dt': ca['dt'], 'name': ['none']}
        b = {'index': lb, 'vals': cb['vals'], 'dt': cb['dt'], 'name': ['none']}
        return {'op': 's_binop', 'fn': fnname, 'a': abs_nser(a), 'b': abs_nser(b)}, {'a': a, 'b': b}, (None, None)
    # frames: rows and columns often drawn from the SAME pool (covariance-style tables), operands permuted
    cpool = pool if rng.random() < 0.5 else POOLS['str' if pk != 'str' else 'int']

    def frame(rl, cl):
        cols = [_numcol(rng, len(rl), kind) for _ in cl]
        return {'index': rl, 'columns': cl, 'cols': cols, 'name': ['none']}
    ra = labs(rng.randint(1, 4))
    ca = rng.sample(cpool, rng.randint(1, 4)) if cpool is not pool else list(ra)
    if cpool is pool and rng.random() < 0.6:
        rng.shuffle(ca)
    if pk == 'tuple' and cpool is pool:
        ca = _tree_sorted(ca)
    fa = frame(ra, ca)
    q = rng.random()
    if q < 0.35:
        rb, cb = list(ra), list(ca)
        rng.shuffle(cb)
        if rng.random() < 0.5:
            rng.shuffle(rb)
    elif q < 0.5:
        rb, cb = list(ra), list(ca)
    else:
        rb = labs(rng.randint(0, 4))
        cb = rng.sample(cpool, rng.randint(0, 4))
    if pk == 'tuple':
        rb = _tree_sorted(rb)
        if cpool is pool:
            cb = _tree_sorted(cb)
    if r < 0.8:
        fb = frame(rb, cb)
        return ({'op': 'f_binop', 'fn': fnname, 'a': abs_nframe(fa), 'b': abs_nframe(fb)}, {'a': fa, 'b': fb},
                (C.rand_layout(rng, fa), C.rand_layout(rng, fb)))
    if r < 0.87 and pk != 'tuple':
        # axis 1: the Series meets the index; square results (as many rows after alignment as columns) included
        col = _numcol(rng, len(rb), kind)
        s = {'index': rb, 'vals': col['vals'], 'dt': col['dt'], 'name': ['none']}
        return {'op': 'fsT_binop', 'fn': fnname, 'a': abs_nframe(fa), 'b': abs_nser(s)}, {'a': fa, 'b': s}, (C.rand_layout(rng, fa), None)
    if r < 0.92:
        col = _numcol(rng, len(cb), kind)
        s = {'index': cb, 'vals': col['vals'], 'dt': col['dt'], 'name': ['none']}
        return {'op': 'fs_binop', 'fn': fnname, 'a': abs_nframe(fa), 'b': abs_nser(s)}, {'a': fa, 'b': s}, (C.rand_layout(rng, fa), None)
    v = ['b', 1] if kind == 'b' else rng.choice([['i', 2], ['f', 1, 2], ['i', -1]])
    return ({'op': 'f_scalar', 'fn': fnname, 'a': abs_nframe(fa), 'v': num(P.dec(v)), 'reflected': rng.random() < 0.5}, {'a': fa, 'v': v},
            (C.rand_layout(rng, fa), None))


def main(ctx):
    quick = ctx.tier == 'quick'
    r = ctx.model_check('MC_C06', 'MC_C06_quick.cfg', dump=True)
    if r.ok and r.dump:
        n = 0
        for cs, exp in core.cases_from_dump(r.dump):
            n += 1
            real = {k: {'index': cs[k]['index'], 'vals': [['i', v[1]] for v in cs[k]['vals']], 'dt': ['i', 64], 'name': ['none']} for k in ('a', 'b')}
            act = run_case(cs, real)
            ctx.replayed += 1
            # the specification states the result as a label -> value map (union order is the implementation's choice)
            if act.get('k') != 'nseries' or dict(zip(map(str, act['index']), act['vals'])) != dict(zip(map(str, exp['index']), exp['vals'])) or len(act['index']) != len(exp['index']) \
                    or (cs['a']['index'] == cs['b']['index'] and act['index'] != cs['a']['index']):
                ctx.violation('R', 'aligned result differs from the specification', case={'cs': cs}, expected=exp, actual=act)
            if n <= 2:
                ctx.sample({'leg': 'R', 'case': cs, 'expected': exp})
        ctx.exhaustive = True
    events, meta = [], {}
    for i in range(3000 if quick else 60000):
        cs, real, lays = gen_case(ctx.rng)
        res = run_case(cs, real, lays)
        events.append({'id': i, 'cs': cs, 'res': res})
        meta[i] = (real, lays)
        ctx.count('V_' + cs['op'])
    rej = ctx.validate_events('Trace_C06', 'Trace.cfg', events)
    for ev in events:
        if ev['id'] in rej:
            ctx.violation('V', 'recorded result violates ' + rej[ev['id']][0], case={'cs': ev['cs'], 'real': meta[ev['id']][0], 'layouts': meta[ev['id']][1]},
                          actual=ev['res'], clause=rej[ev['id']][0])
    ctx.sample({'leg': 'V', 'event': events[0]})
    return ctx.finish(rule='M/R: every ordered pair of duplicate-free label sequences over {a,b,c} (length 0..3) x {add,mul,eq,lt} with the permutation-invariance statement checked over all reorderings; V: seeded random index set operations (str/int/mixed/tuple/date labels) and Series/Frame/Frame-Series/scalar operators over overlapping, disjoint, permuted, equal and empty label sets, incl. square frames whose rows and columns share one label pool')
