'''C04 selection: M (MC_C04), R (TLC cases on every layout), V (random frames/keys validated by Trace_Ops).'''
import datetime

import numpy as np

import static_frame as sf

from .. import project as P, tlaval
from . import common as C, ops

run_case = ops.run_case


def auto_flags(rng, c):
    '''labels 0..n-1: let the container build its own auto-integer (map-less) index most of the time'''
    for ax in ('index', 'columns'):
        labs = c.get(ax)
        if ax == 'index' and 'cols' in c and not c['cols']:
            continue        # a Frame without columns cannot take its row count from data
        if labs is not None and len(labs) and labs == [['i', i] for i in range(len(labs))] and rng.random() < 0.7:
            c[ax + '_auto'] = True


def gen_case(rng):
    r = rng.random()
    if r < 0.7:
        f = C.rand_frame(rng, 4, 5, index_kind=rng.choice(['str', 'int', 'auto', 'intshift', 'date']))
        lay = C.rand_layout(rng, f)
        auto_flags(rng, f)
        r2 = rng.random()
        if r2 < 0.4:
            cs = {'op': 'f_iloc', 'f': f, 'rk': C.rand_iloc_key(rng, len(f['index'])), 'ck': C.rand_iloc_key(rng, len(f['columns']))}
        elif r2 < 0.8:
            cs = {'op': 'f_loc', 'f': f, 'rk': C.rand_loc_key(rng, f['index']), 'ck': C.rand_loc_key(rng, f['columns'])}
            if f.get('index_auto') and f['index'] and rng.random() < 0.3:
                cs['rk'] = rng.choice([['locslice', ['none'], ['i', 0], ['none']], ['locslice', ['i', 0], ['i', 0], ['none']]])
            if f.get('columns_auto') and f['columns'] and rng.random() < 0.3:
                cs['ck'] = rng.choice([['locslice', ['none'], ['i', 0], ['none']], ['locslice', ['i', 0], ['i', 0], ['none']]])
        elif r2 < 0.92:
            cs = {'op': 'f_getitem', 'f': f, 'ck': C.rand_loc_key(rng, f['columns'])}
        else:
            cs = {'op': 'f_bloc', 'f': f, 'mask': [[rng.random() < 0.4 for _ in f['columns']] for _ in f['index']]}
        return cs, lay
    if rng.random() < 0.12:
        # a positional selection followed by a label selection on its result (the result of the first step must carry a working label map:
        # after iloc[::2] on an auto-integer index the labels 0, 2, 4 are no longer the positions)
        s = C.rand_series(rng, 7, index_kind=rng.choice(['auto', 'auto', 'int', 'str']), min_n=2)
        auto_flags(rng, s)
        n = len(s['index'])
        k1 = rng.choice([['slice', ['none'], ['none'], ['i', 2]], ['slice', ['none'], ['none'], ['i', -1]], ['slice', ['i', 0], ['none'], ['i', 3]], ['slice', ['none'], ['i', n - 1], ['i', 2]],
                         ['slice', ['i', 1], ['none'], ['none']], ['list', sorted(rng.sample(range(n), rng.randint(1, n)), reverse=rng.random() < 0.5)], ['mask', [rng.random() < 0.6 for _ in range(n)]]])
        lab = rng.choice(s['index'])
        k2 = rng.choice([['loc', lab], ['loc', lab], ['loclist', [lab]], ['locslice', ['none'], lab, ['none']]])
        return {'op': 's_iloc_loc', 's': s, 'rk': k1, 'rk2': k2}, None
    s = C.rand_series(rng, 6, index_kind=rng.choice(['str', 'int', 'auto', 'intshift', 'date']))
    auto_flags(rng, s)
    op = rng.choice(['s_iloc', 's_loc', 's_getitem'])
    n = len(s['index'])
    cs = {'op': op, 's': s, 'rk': C.rand_iloc_key(rng, n) if op == 's_iloc' else C.rand_loc_key(rng, s['index'])}
    if op != 's_iloc' and s.get('index_auto') and n and rng.random() < 0.3:
        # label slices around the label 0 of an auto-integer index (0 is a label like any other: a stop of 0 includes it, nothing more)
        z = ['i', 0]
        cs['rk'] = rng.choice([['locslice', ['none'], z, ['none']], ['locslice', z, z, ['none']], ['locslice', z, ['none'], ['i', -1]], ['locslice', ['i', n - 1], z, ['i', -1]]])
    return cs, None


# ---- datetime-typed indices: selection by period (SFDate / Trace_C04D) -------------------------------------------------------
CAL = [(y, m, d) for y in (2019, 2020, 2021) for m in (1, 2, 3, 11, 12) for d in (1, 2, 15, 28)]


def d64(lab, unit):
    y, m, d = lab[1:]
    return np.datetime64('%04d-%02d-%02d' % (y, m, d), 'D') if unit == 'D' else np.datetime64('%04d-%02d' % (y, m), 'M')


def period_key(p, via):
    '''one period as the user would write it'''
    if p[0] == 'D':
        txt = '%04d-%02d-%02d' % tuple(p[1:])
        if via == 'date':
            return datetime.date(*p[1:])
        return txt if via == 'str' else np.datetime64(txt)
    txt = '%04d-%02d' % tuple(p[1:]) if p[0] == 'M' else '%04d' % p[1]
    return txt if via in ('str', 'date') else np.datetime64(txt)


def rand_period(rng, labels, unit):
    pool = [l for l in labels] if labels and rng.random() < 0.85 else [['dt'] + list(rng.choice(CAL))]
    y, m, d = rng.choice(pool)[1:]
    u = rng.choice(['D', 'D', 'M', 'Y'] if unit == 'D' else ['M', 'M', 'Y'])
    return ['D', y, m, d] if u == 'D' else ['M', y, m] if u == 'M' else ['Y', y]


def date_event(rng):
    unit = rng.choice(['D', 'D', 'D', 'M'])
    n = rng.randint(0, 7)
    cal = CAL if unit == 'D' else sorted({(y, m, 1) for y, m, _ in CAL})
    labs = [['dt'] + list(t) for t in rng.sample(cal, min(n, len(cal)))]
    if rng.random() < 0.75:
        labs.sort()
    n = len(labs)
    go = rng.random() < 0.5
    stale = go and n > 0 and rng.random() < 0.7
    cls = {('D', False): sf.IndexDate, ('D', True): sf.IndexDateGO, ('M', False): sf.IndexYearMonth, ('M', True): sf.IndexYearMonthGO}[(unit, go)]
    q = rng.random()
    via = rng.choice(['str', 'date', 'dt64'])
    if q < 0.45:
        key = ['dkey', rand_period(rng, labs, unit)]
        pykey = period_key(key[1], via)
    elif q < 0.65:
        u = rng.choice(['D', 'M', 'Y'] if unit == 'D' else ['M', 'Y'])
        ps = []
        for _ in range(rng.randint(0, 3)):
            p = rand_period(rng, labs, unit)
            while p[0] != u:
                p = rand_period(rng, labs, unit)
            if p not in ps or rng.random() < 0.1:
                ps.append(p)
        key = ['dlist', ps]
        pykey = [period_key(p, via) for p in ps]
    else:
        a = ['none'] if rng.random() < 0.25 else rand_period(rng, labs, unit)
        b = ['none'] if rng.random() < 0.25 else rand_period(rng, labs, unit)
        key = ['dslice', a, b]
        pykey = slice(None if a[0] == 'none' else period_key(a, via), None if b[0] == 'none' else period_key(b, via))
    container = rng.choice(['index', 'series', 'series_getitem', 'frame_rows', 'frame_columns'])
    vals = [d64(l, unit) for l in labs]
    try:
        if stale:
            ix = cls(vals[:-1])
            ix.append(vals[-1])       # the caches are now behind the label list until something rebuilds them
        else:
            ix = cls(vals)
        if container == 'index':
            r = ix.loc_to_iloc(pykey)
            if isinstance(r, slice):
                res = {'k': 'positions', 'ps': list(range(*r.indices(n)))}
            elif isinstance(r, (int, np.integer)):
                res = {'k': 'elem', 'p': int(r)}
            elif isinstance(r, np.ndarray) and r.dtype == bool:
                res = {'k': 'positions', 'ps': [int(i) for i in np.flatnonzero(r)]}
            else:
                res = {'k': 'positions', 'ps': [int(i) for i in r]}
        else:
            if container in ('series', 'series_getitem'):
                c = sf.Series(np.arange(n), index=ix)
                r = c.loc[pykey] if container == 'series' else c[pykey]
                out = r.values.tolist() if isinstance(r, sf.Series) else None
                labels_out = list(r.index.values) if isinstance(r, sf.Series) else None
            elif container == 'frame_rows':
                c = sf.Frame.from_items((('p', np.arange(n)), ('q', np.arange(n) * 2.0)), index=ix)
                r = c.loc[pykey]
                out = r['p'].values.tolist() if isinstance(r, sf.Frame) else None
                labels_out = list(r.index.values) if isinstance(r, sf.Frame) else None
                if out is None:
                    r = r['p']
            else:
                c = (sf.FrameGO if go else sf.Frame)(np.arange(n * 2).reshape(2, n), columns=ix)
                r = c[pykey]
                out = r.iloc[0].values.tolist() if isinstance(r, sf.Frame) else None
                labels_out = list(r.columns.values) if isinstance(r, sf.Frame) else None
                if out is None:
                    r = r.iloc[0]
            if out is None:
                res = {'k': 'elem', 'p': int(r)}
            else:
                res = {'k': 'positions', 'ps': [int(x) for x in out]}
                # every value still paired with its original label
                if [x for x in labels_out] != [vals[i] for i in res['ps']]:
                    res = {'k': 'mispaired', 'ps': res['ps'], 'labels': [str(x) for x in labels_out]}
    except Exception as e:
        res = {'k': 'err', 'cat': P.err_category(e), 'msg': '%s: %s' % (type(e).__name__, str(e)[:80])}
    return {'kind': 'date', 'labels': labs, 'unit': unit, 'key': key, 'via': via, 'cls': cls.__name__, 'stale': bool(stale), 'container': container, 'res': res}


def main(ctx):
    quick = ctx.tier == 'quick'
    r = ctx.model_check('MC_C04', 'MC_C04_quick.cfg' if quick else 'MC_C04_thorough.cfg', dump=True)
    ctx.model_check('MC_C04', 'MC_C04_neg.cfg', expect_violation='SliceAsBuiltIsRequired', coverage=False)
    if r.ok and r.dump:
        ops.replay_dump(ctx, r.dump, violation_what='selection differs from the specification')
        ctx.exhaustive = True
    ops.validate_random(ctx, gen_case, 3000 if quick else 60000, what='recorded selection is not a step of the specification')
    ctx.model_check('MC_C04D', 'MC_C04D_quick.cfg' if quick else 'MC_C04D_thorough.cfg')
    ctx.model_check('MC_C04D', 'MC_C04D_neg.cfg', expect_violation='SliceAsBuiltAnyOrder', coverage=False)
    events = [date_event(ctx.rng) for _ in range(1500 if quick else 40000)]
    for k, ev in enumerate(events):
        ev['id'] = k
    rej = ctx.validate_events('Trace_C04D', 'Trace.cfg', events, chunk=500)
    for ev in events:
        if ev['id'] in rej:
            ctx.violation('V', 'recorded selection on a datetime index violates %s' % rej[ev['id']][0], case={k: ev[k] for k in ev if k not in ('res', 'id')}, actual=ev['res'], clause=rej[ev['id']][0], expected=rej[ev['id']][1])
    ctx.count('V_date_events', len(events))
    return ctx.finish(rule='R: every (frame, row key, column key) case of MC_C04 on every block layout (quick: 3 sampled layouts per case); V: seeded random frames (<=4x5, 5 dtype kinds, 5 index kinds, random layout) x random iloc/loc/getitem/bloc keys; datetime indices (IndexDate / IndexYearMonth, static / grow-only / grow-only with a pending append) x scalar / list / slice keys of day, month and year unit given as strings, date objects and datetime64, through the index, Series.loc, Series[], Frame rows and Frame columns (Trace_C04D); MC_C04D: all ascending date indices of <=3 labels x all period keys')
