'''C04 selection: M (MC_C04), R (TLC cases on every layout), V (random frames/keys validated by Trace_C04).'''
import json

import static_frame as sf

from .. import core, project as P
from . import common as C


def run_case(cs, layout=None):
    op = cs['op']
    if op.startswith('f_'):
        f = P.build_frame(cs['f'], layout)
        if op == 'f_iloc':
            return C.execute(lambda: f.iloc[C.py_iloc_key(cs['rk']), C.py_iloc_key(cs['ck'])])
        if op == 'f_loc':
            return C.execute(lambda: f.loc[C.py_loc_key(cs['rk']), C.py_loc_key(cs['ck'])])
        if op == 'f_getitem':
            return C.execute(lambda: f[C.py_loc_key(cs['ck'])])
        if op == 'f_bloc':
            import numpy as np
            return C.execute(lambda: f.bloc[np.array(cs['mask'], dtype=bool).reshape(f.shape)])
    else:
        s = P.build_series(cs['s'])
        if op == 's_iloc':
            return C.execute(lambda: s.iloc[C.py_iloc_key(cs['rk'])])
        if op == 's_loc':
            return C.execute(lambda: s.loc[C.py_loc_key(cs['rk'])])
        if op == 's_getitem':
            return C.execute(lambda: s[C.py_loc_key(cs['rk'])])
    raise ValueError(op)


def normalise(res, cs=None):
    '''Observables the property speaks about.  bloc: the (row label, column label) -> value association;
    the order in which the as-built code emits the pairs follows the block layout (recorded under C03), so the
    pairs are put in row-major order here.'''
    if cs is not None and cs['op'] == 'f_bloc' and res.get('k') == 'series':
        ri = {json.dumps(l): i for i, l in enumerate(cs['f']['index'])}
        ci = {json.dumps(l): i for i, l in enumerate(cs['f']['columns'])}
        try:
            order = sorted(range(len(res['index'])), key=lambda i: (ri[json.dumps(res['index'][i][1][0])], ci[json.dumps(res['index'][i][1][1])]))
        except (KeyError, IndexError, TypeError):
            return res
        res = dict(res)
        res['index'] = [res['index'][i] for i in order]
        res['vals'] = [res['vals'][i] for i in order]
    return res


def gen_case(rng):
    r = rng.random()
    if r < 0.7:
        f = C.rand_frame(rng, 4, 5, index_kind=rng.choice(['str', 'int', 'auto', 'intshift', 'date']))
        lay = C.rand_layout(rng, f)
        r2 = rng.random()
        if r2 < 0.4:
            cs = {'op': 'f_iloc', 'f': f, 'rk': C.rand_iloc_key(rng, len(f['index'])), 'ck': C.rand_iloc_key(rng, len(f['columns']))}
        elif r2 < 0.8:
            cs = {'op': 'f_loc', 'f': f, 'rk': C.rand_loc_key(rng, f['index']), 'ck': C.rand_loc_key(rng, f['columns'])}
        elif r2 < 0.92:
            cs = {'op': 'f_getitem', 'f': f, 'ck': C.rand_loc_key(rng, f['columns'])}
        else:
            cs = {'op': 'f_bloc', 'f': f, 'mask': [[rng.random() < 0.4 for _ in f['columns']] for _ in f['index']]}
        return cs, lay
    s = C.rand_series(rng, 6, index_kind=rng.choice(['str', 'int', 'auto', 'intshift', 'date']))
    op = rng.choice(['s_iloc', 's_loc', 's_getitem'])
    n = len(s['index'])
    cs = {'op': op, 's': s, 'rk': C.rand_iloc_key(rng, n) if op == 's_iloc' else C.rand_loc_key(rng, s['index'])}
    return cs, None


def main(ctx):
    quick = ctx.tier == 'quick'
    # ---- M + R: TLC enumerates the small-scope cases with their expected results
    r = ctx.model_check('MC_C04', 'MC_C04_quick.cfg' if quick else 'MC_C04_thorough.cfg', dump=True)
    ctx.model_check('MC_C04', 'MC_C04_neg.cfg', expect_violation='SliceAsBuiltIsRequired', coverage=False)
    if r.ok and r.dump:
        n = 0
        for cs, exp in core.cases_from_dump(r.dump):
            n += 1
            if cs['op'].startswith('f_'):
                lays = P.layouts_for([c['dt'] for c in cs['f']['cols']])
                if quick and len(lays) > 3:
                    lays = ctx.rng.sample(lays, 3)
            else:
                lays = [None]
            for lay in lays:
                act = normalise(run_case(cs, lay), cs)
                ctx.replayed += 1
                if act != exp:
                    ctx.violation('R', 'selection differs from the specification', case={'cs': cs, 'layout': lay}, expected=exp, actual=act)
            if n <= 2:
                ctx.sample({'leg': 'R', 'case': cs, 'expected': exp})
        ctx.exhaustive = True
    # ---- V: random frames, layouts and keys, checked by TLC against the column-level specification
    nev = 3000 if quick else 60000
    events = []
    meta = {}
    for i in range(nev):
        cs, lay = gen_case(ctx.rng)
        res = normalise(run_case(cs, lay), cs)
        events.append({'id': i, 'cs': cs, 'res': res})
        meta[i] = lay
        ctx.count('V_' + cs['op'])
        ctx.count('V_result_' + res['k'])
    rej = ctx.validate_events('Trace_C04', 'Trace.cfg', events)
    for ev in events:
        if ev['id'] in rej:
            ctx.violation('V', 'recorded selection is not a step of the specification', case={'cs': ev['cs'], 'layout': meta[ev['id']]},
                          actual=ev['res'], clause=rej[ev['id']][0], expected=rej[ev['id']][1])
    ctx.sample({'leg': 'V', 'event': events[0]})
    return ctx.finish(rule='R: every (frame, row key, column key) case of MC_C04 on every block layout; V: seeded random frames (<=4x5, 5 dtype kinds, 5 index kinds, random layout) x random iloc/loc/getitem/bloc keys; distinct = distinct cases')
