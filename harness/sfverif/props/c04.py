'''C04 selection: M (MC_C04), R (TLC cases on every layout), V (random frames/keys validated by Trace_Ops).'''
from . import common as C, ops

run_case = ops.run_case


def gen_case(rng):
    r = rng.random()
    if r < 0.7:
        f = C.rand_frame(rng, 4, 5, index_kind=rng.choice(['str', 'int', 'auto', 'intshift', 'date']))
        lay = C.rand_layout(rng, f)
        r2 = rng.random()
        if r2 < 0.4:
            cs = {'op': 'f_iloc', 'f': f, 'rk': C.rand_iloc_key(rng, len(f['index'])), 'ck': C.rand_iloc_key(rng, len(f['columns']))}
        elif r2 < 0.8:
            cs = {'op': 'f_loc', 'f': f, 'rk': C.rand_loc_key(rng, f['index']), 'ck': C.rand_loc_key(rng, f['columns'])}
        elif r2 < 0.92:
            cs = {'op': 'f_getitem', 'f': f, 'ck': C.rand_loc_key(rng, f['columns'])}
        else:
            cs = {'op': 'f_bloc', 'f': f, 'mask': [[rng.random() < 0.4 for _ in f['columns']] for _ in f['index']]}
        return cs, lay
    s = C.rand_series(rng, 6, index_kind=rng.choice(['str', 'int', 'auto', 'intshift', 'date']))
    op = rng.choice(['s_iloc', 's_loc', 's_getitem'])
    n = len(s['index'])
    cs = {'op': op, 's': s, 'rk': C.rand_iloc_key(rng, n) if op == 's_iloc' else C.rand_loc_key(rng, s['index'])}
    return cs, None


def main(ctx):
    quick = ctx.tier == 'quick'
    r = ctx.model_check('MC_C04', 'MC_C04_quick.cfg' if quick else 'MC_C04_thorough.cfg', dump=True)
    ctx.model_check('MC_C04', 'MC_C04_neg.cfg', expect_violation='SliceAsBuiltIsRequired', coverage=False)
    if r.ok and r.dump:
        ops.replay_dump(ctx, r.dump, violation_what='selection differs from the specification')
        ctx.exhaustive = True
    ops.validate_random(ctx, gen_case, 3000 if quick else 60000, what='recorded selection is not a step of the specification')
    return ctx.finish(rule='R: every (frame, row key, column key) case of MC_C04 on every block layout (quick: 3 sampled layouts per case); V: seeded random frames (<=4x5, 5 dtype kinds, 5 index kinds, random layout) x random iloc/loc/getitem/bloc keys')
