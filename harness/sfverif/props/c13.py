'''C13 grouping partitions the container; windows cover it as specified.'''
import json

import numpy as np

import static_frame as sf

from .. import core, project as P, tlaval
from . import common as C


def _cn(v):
    '''group keys of several columns are consolidated to one dtype (1 -> 1.0): compared numerically'''
    return ['i', v[1]] if v[0] == 'f' and v[2] == 1 else v


def _pos(labels):
    return {json.dumps(l): i for i, l in enumerate(labels)}


def run_group(cs, layout=None):
    '''returns (groups, applied) or raises'''
    kind = cs['kind']
    if kind == 'series':
        s = P.build_series(cs['s'])
        src_labels = cs['s']['index']
        if cs['by'] == 'values':
            it = list(s.iter_group_items())
            applied = s.iter_group().apply(len)
        else:
            it = list(s.iter_group_labels_items(cs['by']))
            applied = s.iter_group_labels(cs['by']).apply(len)
        pos = _pos(src_labels)
        groups = []
        for k, g in it:
            groups.append({'key': [_cn(P.enc(k))], 'label': P.enc(k), 'members': [pos[json.dumps(l)] for l in P.labels_of(g.index)], 'sub': P.proj(g)})
    else:
        grow = bool(cs.get('grow'))
        f = P.build_frame(cs['f'], layout, cls=sf.FrameGO if grow else None)
        axis = cs['axis']
        by = cs['by']

        def enrich(items):
            '''the per-group enrichment loop on a grow-only source: every group handed out is snapshotted, then (when it is itself
            grow-only) given a new column while the iteration is still running; neither the source nor any other group may see that'''
            before = P.proj_frame(f)
            out = []
            for k, g in items:
                snap = g.to_frame() if isinstance(g, sf.FrameGO) else g
                out.append((k, snap))
                if isinstance(g, sf.FrameGO):
                    g['__grown__'] = np.zeros(len(g.index), dtype=np.int64)
            if P.proj_frame(f) != before:
                raise AssertionError('the source changed while its groups were grown')
            return out
        if by[0] == 'cols':
            key = [P.dec(x) for x in by[1]]
            key = key if len(key) > 1 else key[0]
            it = enrich(f.iter_group_items(key, axis=axis)) if grow else list(f.iter_group_items(key, axis=axis))
            applied = f.iter_group(key, axis=axis).apply(lambda g: g.shape[axis])
        else:
            it = enrich(f.iter_group_labels_items(by[1], axis=axis)) if grow else list(f.iter_group_labels_items(by[1], axis=axis))
            applied = f.iter_group_labels(by[1], axis=axis).apply(lambda g: g.shape[axis])
        src_labels = cs['f']['index'] if axis == 0 else cs['f']['columns']
        pos = _pos(src_labels)
        groups = []
        for k, g in it:
            labs = P.labels_of(g.index if axis == 0 else g.columns)
            kk = [_cn(P.enc(x)) for x in k] if isinstance(k, tuple) and by[0] == 'cols' and len(by[1]) > 1 else [_cn(P.enc(k))]
            groups.append({'key': kk, 'label': P.enc(k), 'members': [pos[json.dumps(l)] for l in labs], 'sub': P.proj(g)})
    return groups, {'index': P.labels_of(applied.index), 'vals': P.enc_array(applied.values)}


def keys_of(cs):
    if cs['kind'] == 'series':
        if cs['by'] == 'values':
            return [[_cn(v)] for v in cs['s']['vals']]
        return [[l[1][cs['by']]] for l in cs['s']['index']]
    f = cs['f']
    by = cs['by']
    if by[0] == 'cols':
        if cs['axis'] == 0:
            idx = [f['columns'].index(x) for x in by[1]]
            return [[_cn(f['cols'][j]['vals'][i]) for j in idx] for i in range(len(f['index']))]
        idx = [f['index'].index(x) for x in by[1]]
        return [[_cn(c['vals'][i]) for i in idx] for c in f['cols']]
    labels = f['index'] if cs['axis'] == 0 else f['columns']
    return [[l[1][by[1]]] for l in labels]


def run_window(cs):
    n = cs['n']
    labels = ['L%d' % i for i in range(n)]
    kw = dict(size=cs['size'], step=cs['step'], start_shift=cs['start_shift'], label_shift=cs['label_shift'], size_increment=cs['size_increment'], window_sized=cs['window_sized'])
    route = cs.get('route', 'series_items')
    # the same windows through every iterator form: items / values-only / arrays, on a Series and along either axis of a Frame (the
    # values-only forms carry no label: it is taken from the items form, the window itself from the form under test)
    if route.startswith('series'):
        s = sf.Series(np.arange(n), index=labels)
        items = list(s.iter_window_items(**kw))
        if route == 'series_items':
            pairs = items
        elif route == 'series_values':
            pairs = list(zip([k for k, _ in items], s.iter_window(**kw)))
        else:
            pairs = list(zip([k for k, _ in items], s.iter_window_array(**kw)))
    else:
        axis = 0 if 'axis0' in route else 1
        data = np.stack((np.arange(n), np.arange(n)), axis=1) if axis == 0 else np.stack((np.arange(n), np.arange(n)), axis=0)
        f = (sf.FrameGO if 'go' in route else sf.Frame)(data, index=labels if axis == 0 else ('r0', 'r1'), columns=('c0', 'c1') if axis == 0 else labels)
        items = list(f.iter_window_items(axis=axis, **kw))
        if route.endswith('items'):
            pairs = items
        elif route.endswith('values'):
            pairs = list(zip([k for k, _ in items], f.iter_window(axis=axis, **kw)))
        else:
            pairs = list(zip([k for k, _ in items], f.iter_window_array(axis=axis, **kw)))
        if len(pairs) != len(items):
            return [{'label': -1, 'lo': -99, 'hi': -99}]
        pairs = [(k, (w.iloc[:, 0] if axis == 0 else w.iloc[0]) if isinstance(w, sf.Frame) else (w[:, 0] if axis == 0 else w[0])) for k, w in pairs]
    out = []
    for label, w in pairs:
        vals = (w.values if hasattr(w, 'values') else np.asarray(w)).tolist()
        out.append({'label': int(label[1:]), 'lo': vals[0] if vals else 0, 'hi': (vals[-1] + 1) if vals else 0})
        if vals and vals != list(range(vals[0], vals[-1] + 1)):
            out[-1]['lo'] = -99  # not contiguous
    return out


def gen_group(rng):
    n = rng.choice([0, 1, 2, 3, 5, 8, 20])
    distinct = rng.choice([1, 2, 3, n + 1])
    if rng.random() < 0.25:
        kinds = rng.choice(['i', 'U', 'O', 'b'])
        col = C.rand_column(rng, kinds, n)
        if kinds == 'i':
            col['vals'] = [['i', rng.randrange(distinct)] for _ in range(n)]
        if kinds == 'O':
            col['vals'] = [rng.choice([['i', 1], ['s', 'x'], ['s', 'yy'], ['i', 0]]) for _ in range(n)]
        if rng.random() < 0.4 and n:
            idx = C.rand_labels(rng, n, 'tuple')
            n = len(idx)
            s = {'index': idx, 'vals': col['vals'][:n], 'dt': col['dt'], 'name': ['s', 'nm']}
            return {'op': 'group', 'kind': 'series', 's': s, 'by': rng.choice([0, 1])}, None
        s = {'index': C.rand_labels(rng, n, 'str' if n <= 12 else 'int'), 'vals': col['vals'], 'dt': col['dt'], 'name': ['s', 'nm']}
        return {'op': 'group', 'kind': 'series', 's': s, 'by': 'values'}, None
    if rng.random() < 0.12 and n >= 2:
        # two key columns of different types whose values read the same when written next to each other: (1, '1a') / (11, 'a'),
        # ('a', 13) / ('a1', 3): distinct key tuples must stay distinct groups
        if rng.random() < 0.5:
            pairs = [(['i', 1], ['s', '1a']), (['i', 11], ['s', 'a']), (['i', 1], ['s', 'a']), (['i', 11], ['s', '1a'])]
            dts = (['i', 64], ['U', 2])
        else:
            pairs = [(['s', 'a'], ['i', 13]), (['s', 'a1'], ['i', 3]), (['s', 'a'], ['i', 3]), (['s', 'a1'], ['i', 13])]
            dts = (['U', 2], ['i', 64])
        rows = [rng.choice(pairs[:rng.choice([2, 2, 3, 4])]) for _ in range(n)]
        cols = [{'dt': dts[0], 'vals': [r[0] for r in rows]}, {'dt': dts[1], 'vals': [r[1] for r in rows]}, C.rand_column(rng, 'i', n)]
        f = {'index': C.rand_labels(rng, n, 'str' if n <= 12 else 'int'), 'columns': [['s', 'k1'], ['s', 'k2'], ['s', 'v']], 'cols': cols, 'name': ['s', 'nm']}
        return {'op': 'group', 'kind': 'frame', 'f': f, 'axis': 0, 'by': ['cols', [['s', 'k1'], ['s', 'k2']]], 'grow': False}, C.rand_layout(rng, f)
    nc = rng.randint(1, 4)
    kinds = [rng.choice('iiUbfO') for _ in range(nc)]
    cols = []
    for k in kinds:
        c = C.rand_column(rng, k, n)
        if k == 'i':
            c['vals'] = [['i', rng.randrange(distinct)] for _ in range(n)]
        if k == 'f':
            c['vals'] = [['f', rng.randrange(distinct), 1] for _ in range(n)]
        if k == 'O':
            c['vals'] = [rng.choice([['i', 1], ['s', 'x'], ['i', 0]]) for _ in range(n)]
        cols.append(c)
    f = {'index': C.rand_labels(rng, n, 'str' if n <= 12 else 'int'), 'columns': C.rand_labels(rng, nc, 'str'), 'cols': cols, 'name': ['s', 'nm']}
    r = rng.random()
    if r < 0.65 or n == 0:
        nk = rng.choice([1, 1, 2]) if nc >= 2 else 1
        return {'op': 'group', 'kind': 'frame', 'f': f, 'axis': 0, 'by': ['cols', rng.sample(f['columns'], nk)], 'grow': rng.random() < 0.3}, C.rand_layout(rng, f)
    if r < 0.8:
        idx = C.rand_labels(rng, n, 'tuple')
        f['index'] = idx
        for c in f['cols']:
            c['vals'] = c['vals'][:len(idx)]
        return {'op': 'group', 'kind': 'frame', 'f': f, 'axis': 0, 'by': ['depth', rng.choice([0, 1])], 'grow': rng.random() < 0.5}, C.rand_layout(rng, f)
    # axis 1: group columns by the values of a row (homogeneous frame)
    nc = rng.choice([2, 3, 5, 9])
    cols = [{'dt': ['i', 64], 'vals': [['i', rng.randrange(2)] for _ in range(2)]} for _ in range(nc)]
    f = {'index': [['s', 'r0'], ['s', 'r1']], 'columns': C.rand_labels(rng, nc, 'str'), 'cols': cols, 'name': ['none']}
    by = [rng.choice(f['index'])] if rng.random() < 0.75 else list(f['index'])
    return {'op': 'group', 'kind': 'frame', 'f': f, 'axis': 1, 'by': ['cols', by], 'grow': rng.random() < 0.4}, C.rand_layout(rng, f)


WINDOW_ROUTES = ['series_items', 'series_items', 'series_values', 'series_array', 'frame_axis0_items', 'frame_axis0_values', 'frame_axis0_array', 'frame_axis1_items', 'frame_axis1_values', 'frame_axis1_array', 'framego_axis0_values']


def gen_window(rng):
    return {'route': rng.choice(WINDOW_ROUTES), 'op': 'window', 'n': rng.choice([0, 1, 2, 3, 5, 7, 12]), 'size': rng.randint(1, 4), 'step': rng.randint(1, 4),
            'start_shift': rng.randint(-3, 3), 'label_shift': rng.randint(-3, 3), 'size_increment': rng.choice([0, 0, 1, -1, 2]),
            'window_sized': rng.random() < 0.6}


def main(ctx):
    quick = ctx.tier == 'quick'
    r = ctx.model_check('MC_C13', 'MC_C13_quick.cfg' if quick else 'MC_C13_thorough.cfg', dump=True)
    if r.ok and r.dump:
        n = 0
        for st in tlaval.iter_dump(r.dump):
            res = tlaval.plain(st['res'])
            cs = tlaval.plain(st['cs'])
            if res.get('k') == 'pending':
                continue
            n += 1
            if cs['op'] == 'window':
                norm = lambda w: {'label': w['label'], 'lo': 0, 'hi': 0} if w['lo'] >= w['hi'] else w
                try:
                    act = [norm(w) for w in run_window(cs)]
                except Exception as e:
                    act = {'k': 'err', 'cat': P.err_category(e)}
                exp = [norm(w) for w in res['windows']]
                ctx.replayed += 1
                if act != exp:
                    ctx.violation('R', 'windows differ from the specification', case={'cs': cs}, expected=exp, actual=act)
            else:
                # real Frame grouped by one or two int columns holding the enumerated keys
                keys = cs['keys']
                nk = len(keys[0]) if keys else 1
                f = {'index': [['s', 'abcdefgh'[i]] for i in range(len(keys))], 'columns': [['s', 'k%d' % j] for j in range(nk)] + [['s', 'v']],
                     'cols': [{'dt': ['i', 64], 'vals': [k[j] for k in keys]} for j in range(nk)] + [{'dt': ['i', 64], 'vals': [['i', 100 + i] for i in range(len(keys))]}], 'name': ['none']}
                gcs = {'op': 'group', 'kind': 'frame', 'f': f, 'axis': 0, 'by': ['cols', f['columns'][:nk]]}
                for lay in P.layouts_for([c['dt'] for c in f['cols']]):
                    try:
                        groups, applied = run_group(gcs, lay)
                        act = [{'key': g['key'], 'members': g['members']} for g in groups]
                    except Exception as e:
                        act = {'k': 'err', 'cat': P.err_category(e)}
                    exp = [{'key': g['key'], 'members': g['members']} for g in res['groups']]
                    ctx.replayed += 1
                    if act != exp:
                        ctx.violation('R', 'groups differ from the specification', case={'cs': gcs, 'layout': lay}, expected=exp, actual=act)
            if n <= 2:
                ctx.sample({'leg': 'R', 'case': cs, 'expected': res})
        ctx.exhaustive = True
    events, meta = [], {}
    for i in range(1500 if quick else 30000):
        if ctx.rng.random() < 0.6:
            cs, lay = gen_group(ctx.rng)
            try:
                groups, applied = run_group(cs, lay)
                ev = {'id': i, 'cs': dict(cs, keys=keys_of(cs)), 'groups': groups, 'applied': applied}
            except Exception as e:
                ctx.violation('V', 'grouping raised', case={'cs': cs, 'layout': lay}, actual=P.proj_err(e), clause='error')
                continue
        else:
            cs, lay = gen_window(ctx.rng), None
            try:
                ev = {'id': i, 'cs': cs, 'windows': run_window(cs)}
            except Exception as e:
                ctx.violation('V', 'window iteration raised', case={'cs': cs}, actual=P.proj_err(e), clause='error')
                continue
        events.append(ev)
        meta[i] = lay
        ctx.count('V_' + cs['op'])
    rej = ctx.validate_events('Trace_C13', 'Trace.cfg', events, chunk=300)
    for ev in events:
        if ev['id'] in rej:
            ctx.violation('V', 'recorded ' + ev['cs']['op'] + ' violates ' + rej[ev['id']][0], case={'cs': ev['cs'], 'layout': meta[ev['id']]},
                          actual=ev.get('groups') and [{'key': g['key'], 'members': g['members']} for g in ev['groups']] or ev.get('windows'), clause=rej[ev['id']][0], expected=rej[ev['id']][1])
    ctx.sample({'leg': 'V', 'event_cs': {k: v for k, v in events[0]['cs'].items() if k not in ('f', 's')}})
    return ctx.finish(rule='M/R: every key sequence of length N (1 and 2 key columns) and every window parameter combination of MC_C13 (n<=N, size/step 1..3, shifts -2..2, increment -1..1); V: seeded random Series/Frames grouped by values, 1-2 columns, label depth, both axes (object / mixed keys included) with apply, and random window parameters')
