'''Shared helpers for the per-property drivers: abstract keys -> Python keys, random abstract containers,
case execution with error categories.'''
import numpy as np

import static_frame as sf

from .. import project as P

SN = ['none']


def comp(c):
    return None if c[0] == 'none' else c[1]


def py_iloc_key(key):
    k = key[0]
    if k == 'nokey':
        return None
    if k == 'all':
        return slice(None)
    if k == 'int':
        return key[1]
    if k == 'slice':
        return slice(comp(key[1]), comp(key[2]), comp(key[3]))
    if k == 'list':
        return list(key[1])
    if k == 'arr':
        return np.array(key[1], dtype=np.int64)
    if k == 'mask':
        return np.array(key[1], dtype=bool)
    raise ValueError(key)


def py_loc_key(key):
    k = key[0]
    if k == 'nokey':
        return None
    if k == 'all':
        return slice(None)
    if k == 'loc':
        return P.dec(key[1])
    if k == 'locslice':
        return slice(None if key[1][0] == 'none' else P.dec(key[1]), None if key[2][0] == 'none' else P.dec(key[2]), comp(key[3]))
    if k == 'loclist':
        return [P.dec(x) for x in key[1]]
    if k == 'mask':
        return np.array(key[1], dtype=bool)
    if k == 'bseries':
        return sf.Series(np.array(key[2], dtype=bool), index=[P.dec(x) for x in key[1]])
    if k == 'iloc':
        return sf.ILoc[py_iloc_key(key[1])]
    raise ValueError(key)


def execute(fn):
    try:
        return P.proj(fn())
    except Exception as e:  # the error category is part of the observable behaviour
        return P.proj_err(e)


# ---------------------------------------------------------------------------------------------
# random abstract containers

LABELS_STR = ['a', 'b', 'c', 'd', 'e', 'f', 'g', 'h', 'i', 'j', 'k', 'l']
STRS = ['x', 'yy', 'zzz', '', 'q r']


def rand_value(rng, kind, na=0.0):
    if kind == 'i':
        return ['i', rng.choice([0, 1, 2, 3, -1, -7, 10, 100])]
    if kind == 'f':
        if rng.random() < na:
            return ['nan']
        n = rng.choice([0, 1, 2, 3, -1, 5, 7, -3])
        d = rng.choice([1, 1, 2, 4])
        from fractions import Fraction
        q = Fraction(n, d)
        return ['f', q.numerator, q.denominator]
    if kind == 'b':
        return ['b', rng.choice([0, 1])]
    if kind == 'U':
        return ['s', rng.choice(STRS)]
    if kind == 'O':
        r = rng.random()
        if r < na:
            return rng.choice([['none'], ['nan']])
        return rng.choice([['i', rng.choice([0, 1, 2])], ['s', rng.choice(STRS)], ['b', rng.choice([0, 1])], ['f', 1, 2], ['none']])
    if kind == 'M':
        if rng.random() < na:
            return ['nat']
        return ['d', 'D', rng.choice([0, 1, 31, 59, 365, 18000, 18001])]
    raise ValueError(kind)


def rand_column(rng, kind, n, na=0.0):
    vals = [rand_value(rng, kind, na) for _ in range(n)]
    if kind == 'i':
        dt = ['i', 64]
    elif kind == 'f':
        dt = ['f', 64]
    elif kind == 'b':
        dt = ['b', 8]
    elif kind == 'U':
        w = max([len(v[1]) for v in vals] + [1])
        dt = ['U', w]
    elif kind == 'O':
        dt = ['O', 0]
    elif kind == 'M':
        dt = ['M', 'D']
    return {'dt': dt, 'vals': vals}


def rand_labels(rng, n, kind=None):
    kind = kind or rng.choice(['str', 'str', 'int', 'intshift'])
    if kind == 'str':
        return [['s', x] for x in rng.sample(LABELS_STR, n)]
    if kind == 'int':
        return [['i', x] for x in rng.sample(range(0, 3 * n + 3), n)]
    if kind == 'intshift':
        return [['i', x] for x in range(10, 10 + n)]
    if kind == 'auto':
        return [['i', x] for x in range(n)]
    if kind == 'date':
        base = rng.choice([0, 18000])
        return [['d', 'D', base + x] for x in sorted(rng.sample(range(0, 4 * n + 2), n))]
    if kind == 'tuple':  # depth-2 hierarchical, tree ordered
        out = []
        outer = rng.sample(['A', 'B', 'C', 'D'], min(4, max(1, (n + 1) // 2)))
        i = 0
        per = -(-n // len(outer))
        for o in outer:
            inner = rng.sample(range(0, 6), min(per, n - i))
            for x in inner:
                out.append(['t', [['s', o], ['i', x]]])
                i += 1
            if i >= n:
                break
        return out
    raise ValueError(kind)


def rand_frame(rng, max_rows=4, max_cols=4, kinds='ifbUO', min_rows=0, min_cols=0, na=0.0, index_kind=None, columns_kind=None, name=True):
    nr = rng.randint(min_rows, max_rows)
    nc = rng.randint(min_cols, max_cols)
    # runs of equal kinds make multi-column 2-D blocks possible
    ks = []
    while len(ks) < nc:
        k = rng.choice(kinds)
        ks.extend([k] * rng.choice([1, 1, 2, 3]))
    ks = ks[:nc]
    cols = [rand_column(rng, k, nr, na) for k in ks]
    # equal-width U columns so that they can share a block
    i = 0
    while i < nc:
        if cols[i]['dt'][0] == 'U':
            j = i
            while j + 1 < nc and cols[j + 1]['dt'][0] == 'U' and rng.random() < 0.7:
                j += 1
            w = max(cols[k]['dt'][1] for k in range(i, j + 1))
            for k in range(i, j + 1):
                cols[k]['dt'] = ['U', w]
            i = j + 1
        else:
            i += 1
    f = {'index': rand_labels(rng, nr, index_kind), 'columns': rand_labels(rng, nc, columns_kind or rng.choice(['str', 'str', 'int'])),
         'cols': cols, 'name': rng.choice([['none'], ['s', 'nm']]) if name else ['none']}
    return f


def rand_layout(rng, f):
    '''A random admissible block layout (dtype-homogeneous blocks), sampled without enumerating all of them.'''
    dts = [c['dt'] for c in f['cols']]
    out = []
    i = 0
    n = len(dts)
    while i < n:
        j = i
        while j + 1 < n and dts[j + 1] == dts[i]:
            j += 1
        run = j - i + 1
        w = rng.randint(1, run) if rng.random() < 0.7 else 1
        out.append([w, 2] if w > 1 or rng.random() < 0.4 else [1, 1])
        i += w
    return out


def rand_series(rng, max_n=5, kinds='ifbUO', na=0.0, index_kind=None, min_n=0):
    n = rng.randint(min_n, max_n)
    c = rand_column(rng, rng.choice(kinds), n, na)
    return {'index': rand_labels(rng, n, index_kind), 'vals': c['vals'], 'dt': c['dt'], 'name': rng.choice([['none'], ['s', 'nm']])}


def rand_iloc_key(rng, n, allow_int=True):
    r = rng.random()
    if r < 0.08:
        return ['all']
    if r < 0.30 and allow_int:
        return ['int', rng.randint(-n - 1, n)]
    if r < 0.62:
        def c():
            return ['none'] if rng.random() < 0.3 else ['i', rng.randint(-n - 2, n + 2)]
        st = rng.choice([['none'], ['i', 1], ['i', 2], ['i', 3], ['i', -1], ['i', -2], ['i', -3]])
        return ['slice', c(), c(), st]
    if r < 0.85:
        k = rng.randint(0, n + 1)
        lo = -n if rng.random() < 0.9 else -n - 1
        return ['list', [rng.randint(lo, n - 1 if rng.random() < 0.95 else n) for _ in range(k)]] if n > 0 or k == 0 else ['list', []]
    m = [rng.random() < 0.5 for _ in range(n)]
    if rng.random() < 0.05:
        m = m + [True]
    return ['mask', m]


def rand_loc_key(rng, labels, allow_single=True, absent=0.06):
    n = len(labels)
    absent_label = ['s', 'ZZ'] if (not labels or labels[0][0] != 'i') else rng.choice([['i', 999], ['i', 999], ['i', -1], ['i', -2]])
    if absent_label in labels:
        absent_label = ['i', 999]

    def lab():
        if n == 0 or rng.random() < absent:
            return absent_label
        return rng.choice(labels)
    r = rng.random()
    if r < 0.08:
        return ['all']
    if r < 0.30 and allow_single:
        return ['loc', lab()]
    if r < 0.60:
        a = ['none'] if rng.random() < 0.25 else lab()
        b = ['none'] if rng.random() < 0.25 else lab()
        st = rng.choice([['none'], ['none'], ['i', 1], ['i', 2], ['i', -1], ['i', -2]])
        return ['locslice', a, b, st]
    if r < 0.80:
        k = rng.randint(0, n + 1)
        return ['loclist', [lab() for _ in range(k)]]
    if r < 0.90:
        return ['mask', [rng.random() < 0.5 for _ in range(n)]]
    if r < 0.96:
        # Boolean Series with permuted, partial index
        k = rng.randint(0, n)
        sub = rng.sample(labels, k) if n else []
        return ['bseries', sub, [rng.random() < 0.6 for _ in sub]]
    return ['iloc', rand_iloc_key(rng, n, allow_single)]
