'''C02 flat indices: unique labels and the exact label <-> position bijection, for every construction and
derivation route and for grow-only indices after any history of appends / extends.

 M  MC_C02 (SFIndex): the grow-only index at the grain of IndexGO.append (hash map or map-less auto-integer form,
    promotion rule, deferred label-array rebuild), all append sequences with the recache step interleaved.
 V  Trace_C02: construct / derive / setop / grow events recorded from the real classes; the derived labels are computed
    in TLA+ per route; the grow events carry the private map / recache state so that each real append is checked
    against the modelled transition GoAppendIx (and each materialising read against GoRecache).
 R  behaviours of MC_C02 (TLC -simulate) replayed on a real IndexGO with the abstract state compared after each step.
'''
import copy
import json
import pickle

import numpy as np

import static_frame as sf

from .. import project as P, tlaval, tlc
from . import common as C

STRS = ['a', 'b', 'c', 'd', 'e', 'f', 'g', 'h']


def label_pool(rng, kind):
    if kind == 'i':
        return [['i', v] for v in rng.sample(range(-3, 12), 9)]
    if kind == 's':
        return [['s', s] for s in rng.sample(STRS, 8)]
    if kind == 'f':
        return [['f', 2 * v + 1, 2] for v in rng.sample(range(-4, 9), 8)]
    if kind == 'd':
        return [['d', 'D', 18000 + v] for v in rng.sample(range(0, 40), 8)]
    if kind == 't':
        return [['t', [['s', a], ['i', b]]] for a, b in rng.sample([(a, b) for a in 'abc' for b in (1, 2, 3)], 8)]
    if kind == 'O':
        return rng.sample([['s', s] for s in STRS[:5]] + [['i', v] for v in (1, 2, 3, 40)], 8)
    if kind == 'b':
        return [['b', 1], ['b', 0]]
    raise ValueError(kind)


KINDS = ['i', 'i', 's', 's', 'f', 'd', 't', 'O', 'b']


def rand_labels(rng, kind, nmax=6, dup=0.0):
    pool = label_pool(rng, kind)
    n = rng.randint(0, min(nmax, len(pool)))
    labs = pool[:n]
    absent = pool[n:n + 3]
    if labs and rng.random() < dup:
        labs = list(labs)
        labs.insert(rng.randint(0, len(labs)), rng.choice(labs))
    return labs, absent


def py(labels):
    return [P.dec(x) for x in labels]


# ---- construction routes ------------------------------------------------------------------------------------------------
def _arr(labels, kind):
    vals = py(labels)
    if kind in ('t', 'O'):
        a = np.empty(len(vals), dtype=object)
        for i, v in enumerate(vals):
            a[i] = v
        return a
    if kind == 'd':
        return np.array(vals, dtype='datetime64[D]')
    return np.array(vals) if vals else np.array([], dtype={'i': np.int64, 's': '<U1', 'f': float, 'b': bool}[kind])


CTOR = {
    'Index(list)': lambda L, k: sf.Index(py(L)),
    'Index(tuple)': lambda L, k: sf.Index(tuple(py(L))),
    'Index(generator)': lambda L, k: sf.Index(x for x in py(L)),
    'Index(array)': lambda L, k: sf.Index(_arr(L, k)),
    'IndexGO(list)': lambda L, k: sf.IndexGO(py(L)),
    'IndexGO(generator)': lambda L, k: sf.IndexGO(x for x in py(L)),
    'Index.from_labels': lambda L, k: sf.Index.from_labels(py(L)),
    'Index(Index)': lambda L, k: sf.Index(sf.Index(py(L))),
    'IndexGO(Index)': lambda L, k: sf.IndexGO(sf.Index(py(L))),
    'Index(IndexGO)': lambda L, k: sf.Index(sf.IndexGO(py(L))),
    'Series(index=)': lambda L, k: sf.Series(np.arange(len(L)), index=py(L)).index,
    'Series.from_items': lambda L, k: sf.Series.from_items((x, i) for i, x in enumerate(py(L))).index,
    'Frame(columns=)': lambda L, k: sf.Frame(np.zeros((2, len(L))), columns=py(L)).columns,
    'FrameGO(columns=)': lambda L, k: sf.FrameGO(np.zeros((2, len(L))), columns=py(L)).columns,
    'Frame(index=)': lambda L, k: sf.Frame(np.zeros((len(L), 1)), index=py(L)).index,
    'Frame.from_items': lambda L, k: sf.Frame.from_items((x, (0, 1)) for x in py(L)).columns,
    'set_index': lambda L, k: sf.Frame.from_items((('k', _arr(L, k)), ('v', np.arange(len(L))))).set_index('k').index,
    'reindex': lambda L, k: sf.Series((), index=()).reindex(py(L)).index if k != 'd' else sf.Series(np.arange(len(L)), index=py(L)).index,
}
CTOR_DATE = {
    'IndexDate(list)': lambda L, k: sf.IndexDate(py(L)),
    'IndexDate(strings)': lambda L, k: sf.IndexDate([str(x) for x in py(L)]),
    'IndexDate(generator)': lambda L, k: sf.IndexDate(x for x in py(L)),
    'IndexDateGO(list)': lambda L, k: sf.IndexDateGO(py(L)),
    'IndexDate(array)': lambda L, k: sf.IndexDate(_arr(L, k)),
    'IndexDate(Index)': lambda L, k: sf.IndexDate(sf.Index(py(L))),
    'IndexSecond(strings)': lambda L, k: sf.IndexSecond([str(x) for x in py(L)]),           # labels re-expressed at a finer unit stay distinct
    'Series(index_constructor=IndexDate)': lambda L, k: sf.Series(np.arange(len(L)), index=[str(x) for x in py(L)], index_constructor=sf.IndexDate).index,
}
# coarser and finer datetime index classes: labels at the class's own unit ('M' months, 'Y' years, 's' seconds since the epoch)
UNIT_CLS = {'M': ('IndexYearMonth', 'IndexYearMonthGO'), 'Y': ('IndexYear', 'IndexYearGO'), 's': ('IndexSecond', 'IndexSecondGO'), 'h': ('IndexHour', 'IndexHourGO')}


def unit_labels(rng, unit):
    base = {'M': 590, 'Y': 48, 's': 1600000000, 'h': 440000}[unit]
    pool = [['d', unit, base + v] for v in rng.sample([v for v in range(0, 30) if unit != 'h' or (base + v) % 24], 8)]          # (an hour label that is a whole day would be read back as a date by the observer)
    n = rng.randint(0, 6)
    labs = pool[:n]
    if labs and rng.random() < 0.3:
        labs = list(labs)
        labs.insert(rng.randint(0, len(labs)), rng.choice(labs))
    return labs, pool[n:n + 3]


def unit_ctor_event(rng):
    unit = rng.choice(sorted(UNIT_CLS))
    labels, absent = unit_labels(rng, unit)
    static, go = (getattr(sf, n) for n in UNIT_CLS[unit])
    vals = py(labels)
    routes = {
        'list': lambda: static(vals),
        'go_list': lambda: go(vals),
        'strings': lambda: static([str(x) for x in vals]),
        'generator': lambda: static(x for x in vals),
        'array': lambda: static(np.array(vals, dtype='datetime64[%s]' % unit)),
        'from_index': lambda: static(sf.Index(vals)),
        'go_from_static': lambda: go(static(vals)),
        'static_from_go': lambda: static(go(vals)),
        'series_index_constructor': lambda: sf.Series(np.arange(len(vals)), index=[str(x) for x in vals], index_constructor=static).index,
        'frame_columns_constructor': lambda: sf.Frame(np.zeros((1, len(vals))), columns=[str(x) for x in vals], columns_constructor=static).columns,
    }
    name = rng.choice(sorted(routes))
    return {'kind': 'construct', 'route': 'unit_%s:%s' % (unit, name), 'labels': labels, 'obs': attempt(routes[name], py(absent))}


CTOR_AUTO = {
    'auto:Series': lambda n: sf.Series(np.arange(n) * 2).index,
    'auto:Frame.columns': lambda n: sf.Frame(np.zeros((2, n))).columns,
    'auto:Frame.index': lambda n: sf.Frame(np.zeros((n, 2))).index,
    'auto:FrameGO.columns': lambda n: sf.FrameGO(np.zeros((2, n))).columns,
    'auto:loc_is_iloc': lambda n: sf.Index(range(n), loc_is_iloc=True),
    'auto:IndexGO.loc_is_iloc': lambda n: sf.IndexGO(range(n), loc_is_iloc=True),
    'auto:IndexAutoFactory': lambda n: sf.Series(np.arange(n), index=sf.IndexAutoFactory).index,
    'auto:reset': lambda n: sf.Series(np.arange(n), index=[chr(97 + i) for i in range(n)]).relabel(sf.IndexAutoFactory).index,
    'auto:concat': lambda n: sf.Series.from_concat((sf.Series(np.arange(n - n // 2), index=list('abcdefgh')[:n - n // 2]), sf.Series(np.arange(n // 2), index=list('abcdefgh')[:n // 2])), index=sf.IndexAutoFactory).index,
}


def same_unit(x):
    '''labels of a finer-unit datetime index compared as dates'''
    if isinstance(x, np.datetime64) and np.datetime_data(x.dtype)[0] in ('h', 'm', 's', 'ms', 'us', 'ns'):
        return x.astype('datetime64[D]') if x == x.astype('datetime64[D]') else x
    return x


def observe(ix, absent=(), hier=False):
    '''every view of one index, each recorded independently'''
    try:
        if hier:
            it = [tuple(t) for t in ix]
            rev = [tuple(t) for t in reversed(ix)]
            vals = [tuple(r) for r in ix.values] if len(ix) else []
            ilocs = [tuple(ix.iloc[i]) for i in range(len(ix))]
        else:
            it = [same_unit(x) for x in ix]
            rev = [same_unit(x) for x in reversed(ix)]
            vals = [same_unit(x) for x in ix.values]
            ilocs = [same_unit(ix.iloc[i]) for i in range(len(ix))]
        lookup = []
        for x in (list(ix) if not hier else it):
            r = ix.loc_to_iloc(x)
            lookup.append(int(r) if isinstance(r, (int, np.integer)) else -7)
        absent_hits = []
        for a in absent:
            hit = bool(a in ix)
            if not (getattr(ix, '_map', True) is None and (isinstance(a, (bool, np.bool_)) or (isinstance(a, int) and a < 0))):      # the map-less form reads a negative integer as a position (C04)
                try:
                    r = ix.loc_to_iloc(a)
                    hit = hit or (isinstance(r, (int, np.integer)) and not isinstance(r, (bool, np.bool_)))       # an absent label must not resolve to a position
                except Exception:
                    pass
            absent_hits.append(hit)
        return {'k': 'obs', 'labels': P.enc_seq(it), 'rev': P.enc_seq(rev), 'values': P.enc_seq(vals), 'ilocs': P.enc_seq(ilocs), 'len': len(ix),
                'positions': [int(p) for p in ix.positions], 'lookup': lookup,
                'member': [bool(x in ix) for x in (list(ix) if not hier else it)], 'absent': absent_hits}
    except Exception as e:
        return {'k': 'err', 'cat': P.err_category(e), 'msg': '%s: %s' % (type(e).__name__, str(e)[:100])}


def attempt(fn, absent=(), hier=False):
    try:
        ix = fn()
    except Exception as e:
        return {'k': 'err', 'cat': P.err_category(e), 'msg': '%s: %s' % (type(e).__name__, str(e)[:100])}
    if not isinstance(ix, sf.core.index_base.IndexBase):
        return {'k': 'elem', 'v': P.enc(same_unit(ix) if not isinstance(ix, tuple) else ix)}
    return observe(ix, absent, hier or isinstance(ix, sf.IndexHierarchy))


# ---- derivation routes ---------------------------------------------------------------------------------------------------
SRC_CLS = {'i': [sf.Index, sf.IndexGO], 's': [sf.Index, sf.IndexGO], 'f': [sf.Index, sf.IndexGO], 't': [sf.Index, sf.IndexGO], 'O': [sf.Index, sf.IndexGO],
           'b': [sf.Index], 'd': [sf.IndexDate, sf.IndexDateGO, sf.Index]}


def rand_derive(rng, labels, absent, kind):
    n = len(labels)
    routes = ['iloc', 'iloc', 'loc', 'loc', 'drop_iloc', 'drop_loc', 'roll', 'sort', 'relabel_map', 'level_add', 'copy', 'rename', 'ctor_from_index',
              'to_go', 'to_static', 'values_ctor', 'iter_ctor', 'deepcopy', 'pickle', 'head', 'tail', 'relabel_fn', 'setop']
    if kind not in ('d', 'b'):
        routes.append('astype_object')
    if kind in ('t', 'O', 'b'):
        routes = [r for r in routes if r != 'sort']          # ordering of tuples / mixed objects is outside the sort specification
    route = rng.choice(routes)
    if route == 'level_add' and not labels:
        route = 'copy'
    if route == 'relabel_fn' and kind == 'd':
        route = 'rename'
    if route == 'roll' and not labels:
        route = 'copy'         # roll of an empty index divides by its length
    if route == 'iloc':
        return route, C.rand_iloc_key(rng, n)
    if route == 'loc':
        while True:
            key = C.rand_loc_key(rng, labels + absent[:1] if rng.random() < 0.1 else labels, absent=0.0) if labels else ['all']
            if key[0] in ('bseries', 'iloc'):
                continue
            if key[0] == 'locslice':
                key[3] = rng.choice([['none'], ['none'], ['i', 1], ['i', 2]])       # descending label slices: C04
                if key[1][0] != 'none' and key[2][0] != 'none' and key[1] in labels and key[2] in labels and labels.index(key[1]) > labels.index(key[2]):
                    continue
            if kind == 'b' and key[0] in ('loc', 'loclist'):
                continue         # a Boolean label is read as a mask element, not a label
            return route, key
    if route == 'drop_iloc':
        while True:
            key = C.rand_iloc_key(rng, n)
            if key[0] == 'list' and len(set(k % n if n else k for k in key[1])) != len(key[1]):
                continue
            return route, key
    if route == 'drop_loc':
        if not labels or kind == 'b':
            return 'drop_iloc', ['slice', ['none'], ['i', 1], ['none']]
        k = rng.randint(0, n)
        return route, rng.choice([['loclist', rng.sample(labels, k)], ['loc', rng.choice(labels)]])
    if route == 'roll':
        return route, rng.randint(-n - 2, n + 2)
    if route == 'sort':
        return route, rng.random() < 0.6
    if route == 'relabel_map':
        keys = rng.sample(labels, rng.randint(0, n)) if labels else []
        pool = labels + absent
        vals = [rng.choice(pool) for _ in keys]
        return route, [keys, vals]
    if route == 'level_add':
        return route, ['s', 'L']
    if route in ('head', 'tail'):
        return route, rng.randint(1, n + 1)          # head(0) / tail(0): tail(0) is iloc[-0:], the whole index
    if route == 'setop':
        pool = labels + absent
        other = rng.sample(pool, rng.randint(0, len(pool)))
        return route, [rng.choice(['union', 'intersection', 'difference']), other]
    if route == 'relabel_fn':
        return route, rng.choice(['identity', 'const'])
    return route, ['none']


def apply_route(ix, route, arg, kind):
    if route == 'iloc':
        return ix.iloc[C.py_iloc_key(arg)]
    if route == 'loc':
        return ix.loc[C.py_loc_key(arg)]
    if route == 'drop_iloc':
        return ix.drop.iloc[C.py_iloc_key(arg)]
    if route == 'drop_loc':
        return ix.drop.loc[C.py_loc_key(arg)]
    if route == 'roll':
        return ix.roll(arg)
    if route == 'sort':
        return ix.sort(ascending=arg)
    if route == 'relabel_map':
        return ix.relabel({P.dec(k): P.dec(v) for k, v in zip(arg[0], arg[1])})
    if route == 'relabel_fn':
        return ix.relabel((lambda x: x) if arg == 'identity' else (lambda x: 0))
    if route == 'level_add':
        return ix.level_add(P.dec(arg))
    if route == 'head':
        return ix.head(arg)
    if route == 'tail':
        return ix.tail(arg)
    if route == 'copy':
        return ix.copy()
    if route == 'rename':
        return ix.rename('renamed')
    if route == 'astype_object':
        return ix.astype(object)
    if route == 'ctor_from_index':
        return ix.__class__(ix)
    if route == 'to_go':
        return ix._MUTABLE_CONSTRUCTOR(ix) if ix.STATIC else ix.copy()
    if route == 'to_static':
        return ix._IMMUTABLE_CONSTRUCTOR(ix) if not ix.STATIC else ix.copy()
    if route == 'values_ctor':
        return ix.__class__(ix.values)
    if route == 'iter_ctor':
        return ix.__class__(x for x in ix)
    if route == 'deepcopy':
        return copy.deepcopy(ix)
    if route == 'pickle':
        return pickle.loads(pickle.dumps(ix))
    raise ValueError(route)


def derive_event(rng):
    kind = rng.choice(KINDS)
    labels, absent = rand_labels(rng, kind)
    cls = rng.choice(SRC_CLS[kind])
    ix = cls(py(labels))
    if kind == 'i' and rng.random() < 0.3:
        # an auto-integer (map-less) source holding 0..n-1: whatever is derived from it by a key that is not the leading run of positions
        # holds OTHER labels than its positions and needs a real map (lookup and membership of the result are observed)
        n = rng.randint(0, 7)
        labels = [['i', i] for i in range(n)]
        absent = [['i', n], ['i', n + 3], ['i', 50]]
        cls = rng.choice([sf.Index, sf.IndexGO])
        ix = rng.choice([lambda: cls(range(n), loc_is_iloc=True), lambda: (sf.Series(np.arange(n)).index if cls is sf.Index else sf.FrameGO(np.zeros((1, n))).columns)])()
    if cls in (sf.IndexGO, sf.IndexDateGO) and labels and rng.random() < 0.5 and ix._map is not None:
        # a grown source: the last label arrives by append, so the derivation starts from a stale cache
        ix = cls(py(labels[:-1]))
        ix.append(P.dec(labels[-1]))
    # (label keys that name an ABSENT label are left to C04 on a map-less source: there they are read as positions, the known finding
    #  C04-auto-index-labels-read-as-positions - a thorough run met it here through the slice 1:1 on the one-label automatic index)
    route, arg = rand_derive(rng, labels, [] if getattr(ix, '_map', True) is None else absent, kind)
    src = {'labels': labels, 'cls': cls.__name__}
    if route == 'setop':
        op, other = arg
        oix = sf.Index(py(other)) if kind != 'd' else sf.IndexDate(py(other))
        obs = attempt(lambda: getattr(ix, op)(oix), [P.dec(a) for a in absent if a not in other])
        return {'kind': 'setop', 'route': op, 'src': labels, 'other': other, 'cls': cls.__name__, 'obs': obs}
    if route == 'relabel_fn':
        want = labels if arg == 'identity' else [['i', 0]] * len(labels)
        obs = attempt(lambda: apply_route(ix, route, arg, kind))
        return {'kind': 'construct', 'route': 'relabel_fn:' + arg, 'labels': want, 'cls': cls.__name__, 'obs': obs}
    if route in ('head', 'tail'):
        n = len(labels)
        key = ['slice', ['none'], ['i', arg], ['none']] if route == 'head' else ['slice', ['i', max(n - arg, 0)], ['none'], ['none']]
        obs = attempt(lambda: apply_route(ix, route, arg, kind))
        return {'kind': 'derive', 'route': 'iloc', 'via': route, 'src': labels, 'arg': key, 'cls': cls.__name__, 'obs': obs}
    ab = [P.dec(a) for a in absent] if route not in ('relabel_map', 'level_add') else []
    obs = attempt(lambda: apply_route(ix, route, arg, kind), ab)
    return {'kind': 'derive', 'route': route, 'src': labels, 'arg': arg, 'cls': cls.__name__, 'obs': obs}


def construct_event(rng):
    q = rng.random()
    if q < 0.15:
        n = rng.randint(0, 6)
        route = rng.choice(sorted(CTOR_AUTO))
        labels = [['i', i] for i in range(n)]
        absent = [n, n + 3, -1, 'a']
        return {'kind': 'construct', 'route': route, 'labels': labels, 'obs': attempt(lambda: CTOR_AUTO[route](n), absent)}
    kind = rng.choice(KINDS)
    labels, absent = rand_labels(rng, kind, dup=0.3)
    if kind == 'd' and rng.random() < 0.6:
        route = rng.choice(sorted(CTOR_DATE))
        fn = CTOR_DATE[route]
    else:
        route = rng.choice(sorted(CTOR))
        fn = CTOR[route]
    if (route in ('Series.from_items', 'Frame.from_items', 'reindex') and len(set(map(str, labels))) != len(labels)) or (route == 'Frame.from_items' and not labels):
        route, fn = 'Index(list)', CTOR['Index(list)']          # routes that consume pairs into a mapping first cannot see a duplicate
    return {'kind': 'construct', 'route': route, 'labels': labels, 'obs': attempt(lambda: fn(labels, kind), py(absent))}


# ---- hierarchical derivations that end in a flat index (flat / level_drop) and back ----------------------------------------
def hier_event(rng):
    outer = rng.sample([['s', 'A'], ['s', 'B'], ['s', 'C']], rng.randint(1, 3))
    rows = []
    for o in outer:
        for i in rng.sample([['i', 1], ['i', 2], ['i', 3]], rng.randint(1, 3)):
            rows.append(['t', [o, i]])
    if rng.random() < 0.5:
        # depth 3, ragged, second-level labels not repeated under different outer labels (so that an outer level can be dropped):
        # the levels that stay must be re-linked (positions after the first branch), observed through lookup, values and iteration
        rows, second = [], 0
        for o in outer:
            for _ in range(rng.randint(1, 2)):
                second += 1
                for x in rng.sample([['s', 'x'], ['s', 'y'], ['s', 'z']], rng.randint(1, 3)):
                    rows.append(['t', [o, ['i', second], x]])
        if rng.random() < 0.5:
            # depth 4: every depth-3 label fans out into one or two leaves (an inner drop then shrinks sub-trees below the root's children)
            rows = [['t', r[1] + [leaf]] for r in rows for leaf in rng.sample([['s', 'r'], ['s', 's']], rng.randint(1, 2))]
        ih3 = sf.IndexHierarchy.from_labels([P.dec(r) for r in rows])
        if rng.random() < 0.3:
            ih3 = sf.IndexHierarchyGO(ih3)
        if rng.random() < 0.5:
            ih3.values          # with and without a materialised label table
        route = rng.choice(['ih_level_drop_outer', 'ih_level_drop_inner', 'ih_level_drop_inner', 'ih_copy'])
        fn = {'ih_level_drop_outer': lambda: ih3.level_drop(1), 'ih_level_drop_inner': lambda: ih3.level_drop(-1), 'ih_copy': lambda: ih3.copy()}[route]
        return {'kind': 'derive', 'route': route, 'src': rows, 'arg': ['none'], 'cls': type(ih3).__name__, 'obs': attempt(fn)}
    ih = sf.IndexHierarchy.from_labels([P.dec(r) for r in rows])
    if rng.random() < 0.3:
        ih = sf.IndexHierarchyGO(ih)
    route = rng.choice(['ih_flat', 'ih_level_drop_outer', 'ih_level_drop_inner', 'ih_level_add', 'ih_roll', 'ih_iloc', 'ih_copy', 'ih_pickle'])
    arg = ['none']
    if route == 'ih_flat':
        fn = lambda: ih.flat()
    elif route == 'ih_level_drop_outer':
        fn = lambda: ih.level_drop(1)
    elif route == 'ih_level_drop_inner':
        fn = lambda: ih.level_drop(-1)
    elif route == 'ih_level_add':
        arg = ['s', 'L']
        fn = lambda: ih.level_add('L')
    elif route == 'ih_roll':
        arg = rng.randint(-len(rows) - 1, len(rows) + 1)
        fn = lambda: ih.roll(arg)
    elif route == 'ih_iloc':
        while True:
            arg = C.rand_iloc_key(rng, len(rows), allow_int=False)
            break
        fn = lambda: ih.iloc[C.py_iloc_key(arg)]
    elif route == 'ih_drop_iloc':
        arg = ['list', sorted(rng.sample(range(len(rows)), rng.randint(0, len(rows))))]
        fn = lambda: ih.drop.iloc[C.py_iloc_key(arg)] if arg[1] else ih.drop.iloc[[]]
    elif route == 'ih_copy':
        fn = lambda: ih.copy()
    else:
        fn = lambda: pickle.loads(pickle.dumps(ih))
    return {'kind': 'derive', 'route': route, 'src': rows, 'arg': arg, 'cls': type(ih).__name__, 'obs': attempt(fn)}


# ---- hierarchical construction routes: the same rows through every constructor; non-unique / non-tree orders rejected -----
def _tree_order(rows):
    keys = []
    for r in rows:
        if r[1][0] not in keys:
            keys.append(r[1][0])
    return [r for k in keys for r in rows if r[1][0] == k]


def hier_ctor_event(rng):
    outer = rng.sample([['s', 'A'], ['s', 'B'], ['s', 'C']], rng.randint(1, 3))
    pool = [['i', 1], ['i', 2], ['i', 3]]
    first = rng.sample(pool, rng.randint(1, 3))
    product = rng.random() < 0.5
    rows = [['t', [o, i]] for o in outer for i in (first if product else rng.sample(pool, rng.randint(1, 3)))]
    flavour = rng.random()
    shaped = 'tree'
    if flavour < 0.15 and len(rows) > 2:
        rng.shuffle(rows)                      # most shuffles are not trees in the given order
        shaped = 'shuffled'
    elif flavour < 0.27:
        rows.insert(rng.randrange(len(rows) + 1), rng.choice(rows))       # a repeated tuple
        shaped = 'dup'
    pyrows = [P.dec(r) for r in rows]
    cls = rng.choice([sf.IndexHierarchy, sf.IndexHierarchy, sf.IndexHierarchyGO])
    routes = ['ih_from_labels', 'ih_from_type_blocks', 'ih_from_frame_set_index', 'ih_from_labels_delimited']
    is_tree = rows == _tree_order(rows) and len({json.dumps(r) for r in rows}) == len(rows)
    if is_tree:
        routes += ['ih_from_tree', 'ih_from_index_items']
        if product:
            routes += ['ih_from_product', 'ih_from_index_items_shared']
    if shaped == 'dup' and product:
        routes += ['ih_from_product_dup_level']
    route = rng.choice(routes)
    o_py = []
    for t in pyrows:          # outer labels in the order of the rows as given
        if t[0] not in o_py:
            o_py.append(t[0])
    inner = {o: [t[1] for t in pyrows if t[0] == o] for o in o_py}
    product_now = all(inner[o] == inner[o_py[0]] for o in o_py)          # after a shuffle the parents may hold the same labels in different orders
    if route in ('ih_from_product', 'ih_from_index_items_shared') and not product_now:
        route = 'ih_from_labels'
    if route == 'ih_from_labels':
        fn = lambda: cls.from_labels(pyrows)
    elif route == 'ih_from_labels_delimited':
        delim = rng.choice([' ', '|', ';'])
        fn = lambda: cls.from_labels_delimited([delim.join(repr(x) for x in t) for t in pyrows], delimiter=delim)
    elif route == 'ih_from_type_blocks':
        def fn():
            a0 = np.array([t[0] for t in pyrows])
            a1 = np.array([t[1] for t in pyrows])
            a0.flags.writeable = False
            a1.flags.writeable = False
            return cls._from_type_blocks(sf.TypeBlocks.from_blocks((a0, a1)))
    elif route == 'ih_from_frame_set_index':
        def fn():
            f = sf.Frame.from_records([(t[0], t[1], k) for k, t in enumerate(pyrows)], columns=('o', 'i', 'v'))
            ix = f.set_index_hierarchy(('o', 'i')).index
            return ix if cls is sf.IndexHierarchy else cls(ix)
    elif route == 'ih_from_tree':
        fn = lambda: cls.from_tree({o: inner[o] for o in o_py})
    elif route == 'ih_from_index_items':
        fn = lambda: cls.from_index_items((o, sf.Index(inner[o])) for o in o_py)
    elif route == 'ih_from_index_items_shared':
        def fn():
            shared = sf.Index(inner[o_py[0]])
            return cls.from_index_items((o, shared) for o in o_py)
    elif route == 'ih_from_product':
        fn = lambda: cls.from_product(o_py, inner[o_py[0]])
    else:   # a level label repeated in a product: the rows repeat
        lv = [P.dec(x) for x in first] + [P.dec(first[0])]
        rows = [['t', [o, ['i', i]]] for o in outer for i in lv]
        pyrows = [P.dec(r) for r in rows]
        fn = lambda: cls.from_product(o_py, lv)
    present = {json.dumps(r) for r in rows}
    absent = [['t', [o, i]] for o in [['s', 'A'], ['s', 'B'], ['s', 'Z']] for i in pool + [['i', 9]] if json.dumps(['t', [o, i]]) not in present][:4]
    return {'kind': 'construct', 'route': route, 'labels': rows, 'cls': cls.__name__, 'obs': attempt(fn, [P.dec(a) for a in absent], hier=True)}


# ---- grow-only histories ----------------------------------------------------------------------------------------------------
def private_state(ix):
    '''the model's state variables read off the object without triggering the deferred rebuild'''
    dt = getattr(ix, '_DTYPE', None)
    norm = (lambda x: np.datetime64(x).astype(dt)) if dt is not None and dt.kind == 'M' else same_unit
    return {'mutable': P.enc_seq(norm(x) for x in ix._labels_mutable), 'cache': P.enc_seq(norm(x) for x in ix._labels),
            'recache': bool(ix._recache), 'hasMap': ix._map is not None}


READS = [('values', lambda ix: ix.values), ('len', lambda ix: len(ix)), ('iter', lambda ix: list(ix)), ('positions', lambda ix: ix.positions),
         ('repr', lambda ix: repr(ix)), ('iloc0', lambda ix: ix.iloc[0:1]), ('copy', lambda ix: ix.copy())]


def go_history(rng, start_id):
    flavour = rng.choice(['auto', 'auto', 'auto_columns', 's', 'i', 'd', 'ym', 'O', 't'])
    if flavour == 'auto':
        n = rng.randint(0, 3)
        ix = sf.IndexGO(range(n), loc_is_iloc=True)
        pool = [['i', v] for v in range(0, 8)] + [['s', 'a'], ['s', 'b'], ['i', -1]]
    elif flavour == 'auto_columns':
        n = rng.randint(0, 3)
        f = sf.FrameGO(np.zeros((2, n)))
        ix = f.columns
        pool = [['i', v] for v in range(0, 8)] + [['s', 'a']]
    elif flavour == 'd':
        labs, _ = rand_labels(rng, 'd', 3)
        ix = sf.IndexDateGO(py(labs))
        pool = [['d', 'D', 18000 + v] for v in range(0, 12)]
    elif flavour == 'ym':
        ix = sf.IndexYearMonthGO(['2020-01', '2020-03'][:rng.randint(0, 2)])
        pool = [['d', 'M', 600 + v] for v in range(0, 8)]
    else:
        labs, _ = rand_labels(rng, flavour, 3)
        ix = sf.IndexGO(py(labs))
        pool = label_pool(rng, flavour) + [l for l in labs]
    events = []
    for step in range(rng.randint(2, 8)):
        q = rng.random()
        pre = private_state(ix)
        if q < 0.6:
            if flavour.startswith('auto') and rng.random() < 0.6:
                v = ['i', len(pre['mutable'])] if rng.random() < 0.7 else rng.choice(pool)
            else:
                v = rng.choice(pool)
            pv = P.dec(v)
            try:
                if flavour == 'auto_columns':
                    f[pv] = np.array([1.0, 2.0])
                else:
                    ix.append(pv)
                outcome = 'ok'
            except Exception as e:
                outcome = 'rejected'
            post = private_state(ix)
            # the lookup of the appended label straight after the append, before anything has rebuilt the cached arrays
            try:
                stale = ix.loc_to_iloc(pv)
                stale = int(stale) if isinstance(stale, (int, np.integer)) else -7
            except Exception:
                stale = -1
            absent = [P.dec(p) for p in pool if p not in post['mutable']][:4]
            events.append({'kind': 'grow', 'flavour': flavour, 'pre': pre, 'v': v, 'outcome': outcome, 'post': post, 'stale': stale, 'obs': observe(ix, absent)})
        elif q < 0.75 and flavour != 'auto_columns':
            k = rng.randint(0, 3)
            vs = [rng.choice(pool) for _ in range(k)]
            try:
                ix.extend([P.dec(v) for v in vs] if rng.random() < 0.5 else (P.dec(v) for v in vs))
                outcome = 'ok'
            except Exception:
                outcome = 'rejected'
            post = private_state(ix)
            absent = [P.dec(p) for p in pool if p not in post['mutable']][:4]
            events.append({'kind': 'extend', 'flavour': flavour, 'pre': pre, 'vs': vs, 'outcome': outcome, 'post': post, 'obs': observe(ix, absent)})
        else:
            name, fn = rng.choice(READS)
            try:
                fn(ix)
            except Exception:
                pass
            events.append({'kind': 'read', 'flavour': flavour, 'what': name, 'pre': pre, 'post': private_state(ix)})
    return events


ISO_ROUTES = {
    'Index(go)': lambda g: sf.Index(g), 'IndexGO(go)': lambda g: sf.IndexGO(g), 'copy': lambda g: g.copy(), 'iloc_all': lambda g: g.iloc[:], 'rename': lambda g: g.rename('r'),
    'Series(index=go)': lambda g: sf.Series(np.arange(len(g)), index=g).index, 'Frame(columns=go)': lambda g: sf.Frame(np.zeros((1, len(g))), columns=g).columns,
    'FrameGO(columns=go)': lambda g: sf.FrameGO(np.zeros((1, len(g))), columns=g).columns, 'to_static': lambda g: g._IMMUTABLE_CONSTRUCTOR(g),
    'deepcopy': lambda g: copy.deepcopy(g), 'loc_all': lambda g: g.loc[:], 'values_ctor': lambda g: sf.Index(g.values), 'sort': lambda g: g.sort() if len(g) else g.copy(),
}


def isolation_event(rng):
    '''an index derived from a grow-only index holds the labels the source had then, whatever is appended to the source afterwards'''
    kind = rng.choice(['i', 's', 'd', 'O', 'auto'])
    if kind == 'auto':
        n = rng.randint(0, 4)
        labels, extra = [['i', i] for i in range(n)], [['i', n], ['i', n + 1]]
        g = sf.IndexGO(range(n), loc_is_iloc=True)
    else:
        labels, extra = rand_labels(rng, kind, 4)
        g = (sf.IndexDateGO if kind == 'd' else sf.IndexGO)(py(labels))
    if labels and kind != 'auto' and rng.random() < 0.4:
        g = (sf.IndexDateGO if kind == 'd' else sf.IndexGO)(py(labels[:-1]))
        g.append(P.dec(labels[-1]))
    route = rng.choice(sorted(ISO_ROUTES))
    want = labels
    if route == 'sort':
        if kind in ('O',):
            route = 'copy'
    try:
        d = ISO_ROUTES[route](g)
    except Exception as e:
        return {'kind': 'construct', 'route': 'isolation:' + route, 'labels': labels, 'obs': {'k': 'err', 'cat': P.err_category(e), 'msg': str(e)[:80]}}
    for v in extra[:rng.randint(1, 2)]:
        g.append(P.dec(v))
    if route == 'sort':
        return {'kind': 'derive', 'route': 'sort', 'via': 'isolation', 'src': labels, 'arg': True, 'obs': observe(d, py(extra))}
    return {'kind': 'construct', 'route': 'isolation:' + route, 'labels': want, 'obs': observe(d, py(extra))}


# ---- R: behaviours of MC_C02 replayed on a real IndexGO ---------------------------------------------------------------------
def replay_behaviour(ctx, beh):
    ix = None
    prev = None
    for k, st in enumerate(beh):
        m = st['ix']
        last = st['last']
        if k == 0:
            labels = [P.dec(x) for x in m['mutable']]
            ix = sf.IndexGO(labels, loc_is_iloc=True) if not m['hasMap'] else sf.IndexGO(labels)
        elif last == 'recache':
            ix.values            # the public read that performs the deferred rebuild
        else:
            # the appended value: the new last label, or (rejected) any duplicate
            if last == 'ok':
                v = P.dec(m['mutable'][-1])
                try:
                    ix.append(v)
                    out = 'ok'
                except Exception:
                    out = 'rejected'
            else:
                v = P.dec(ctx.rng.choice(prev['mutable']))
                try:
                    ix.append(v)
                    out = 'ok'
                except KeyError:
                    out = 'rejected'
            if out != last:
                return 'outcome', {'step': k, 'want': last, 'got': out, 'value': repr(v)}
        got = private_state(ix)
        want = {'mutable': m['mutable'], 'hasMap': m['hasMap'], 'recache': m['recache']}
        if {k2: got[k2] for k2 in want} != want:
            return 'state', {'step': k, 'want': want, 'got': got}
        if not got['recache'] and got['cache'] != got['mutable']:
            return 'cache_coherent', {'step': k, 'got': got}
        prev = m
    obs = observe(ix)
    if obs.get('k') != 'obs' or obs['labels'] != m['mutable'] or obs['lookup'] != list(range(len(m['mutable']))):
        return 'final_observation', {'want': m['mutable'], 'got': obs}
    return None, None


def main(ctx):
    quick = ctx.tier == 'quick'
    rng = ctx.rng
    ctx.model_check('MC_C02', 'MC_C02_quick.cfg', timeout=3000)
    if not quick:
        ctx.model_check('MC_C02', 'MC_C02_thorough.cfg', timeout=6000)
        ctx.exhaustive = True
    ctx.model_check('MC_C02', 'MC_C02_neg.cfg', expect_violation='Bij', coverage=False, label='negative control: promotion rule dropped')
    behs, _ = tlc.simulate('MC_C02', 'MC_C02_quick.cfg', num=150 if quick else 3000, depth=9, seed=ctx.seed)
    for beh in behs:
        clause, detail = replay_behaviour(ctx, beh)
        ctx.replayed += 1
        if clause:
            ctx.violation('R', 'a real IndexGO driven along a behaviour of SFIndex leaves it: ' + clause, case={'behaviour': [[s['ix']['mutable'], s['last']] for s in beh]}, actual=detail, clause=clause)
    ctx.log('R: %d behaviours replayed' % len(behs))
    events = []
    for i in range(1500 if quick else 40000):
        q = rng.random()
        if q < 0.28:
            events.append(construct_event(rng))
            ctx.count('V_construct')
        elif q < 0.65:
            events.append(derive_event(rng))
            ctx.count('V_derive')
        elif q < 0.72:
            events.append(isolation_event(rng))
            ctx.count('V_isolation')
        elif q < 0.81:
            events.append(hier_event(rng))
            ctx.count('V_hier')
        elif q < 0.84:
            events.append(hier_ctor_event(rng))
            ctx.count('V_hier_ctor')
        elif q < 0.87:
            events.append(unit_ctor_event(rng))
            ctx.count('V_unit_ctor')
        else:
            events += go_history(rng, 0)
            ctx.count('V_go_histories')
    for k, ev in enumerate(events):
        ev['id'] = k
    rej = ctx.validate_events('Trace_C02', 'Trace.cfg', events, chunk=600)
    for ev in events:
        if ev['id'] in rej:
            ctx.violation('V', 'recorded %s event (%s) violates %s' % (ev['kind'], ev.get('route') or ev.get('flavour'), rej[ev['id']][0]),
                          case={k: ev[k] for k in ev if k not in ('obs', 'id', 'post')}, actual=ev.get('obs') or ev.get('post'), clause=rej[ev['id']][0], expected=rej[ev['id']][1])
    from . import twin
    tev = twin.events(rng, 2600 if quick else 60000, [twin.flat_pair, twin.hier_pair, twin.hier_pair, twin.lazy_pair, twin.derived_pair, twin.derived_pair, twin.derived_pair])
    for k, ev in enumerate(tev):
        ev['id'] = k
        ctx.count('V_twin_' + ev['info'].get('kind', 'history').split(':')[0])
    rej = ctx.validate_events('Trace_C02', 'Trace.cfg', tev, chunk=600)
    for ev in tev:
        if ev['id'] in rej:
            ctx.violation('V', 'a call on a grown index differs from the same call on an index built at once: %s' % ev['what'], case={'method': ev['what'], 'info': ev['info']},
                          actual=json.loads(ev['stale']), expected=json.loads(ev['fresh']), clause=rej[ev['id']][0])
    from . import c05
    hev = []
    for i in range(200 if quick else 3000):
        hev += c05.go_history(ctx, len(hev))
    for k, ev in enumerate(hev):
        ev['id'] = k
    rej = ctx.validate_events('Trace_C05', 'Trace.cfg', hev, chunk=500)
    for ev in hev:
        if ev['id'] in rej:
            ctx.violation('V', 'hierarchical grow-only history: recorded %s event violates %s' % (ev['kind'], rej[ev['id']][0]), case={k: ev[k] for k in ev if k not in ('obs', 'id')},
                          actual=ev.get('obs') or {'rows': ev.get('rows'), 'outcome': ev.get('outcome')}, clause=rej[ev['id']][0], expected=rej[ev['id']][1])
    ctx.sample({'leg': 'V', 'event': {k: events[0][k] for k in events[0] if k != 'obs'}})
    return ctx.finish(rule='M: grow-only index at the grain of IndexGO.append (map / map-less form, promotion, deferred rebuild), MaxLen 4 (thorough 6), all append sequences over 6 values x recache interleavings; '
                           'R: TLC -simulate behaviours driven through a real IndexGO with map / recache / label state compared after each step; '
                           'V: construct (26 flat + 9 auto-integer + 8 datetime routes; int, str, float, date, tuple, mixed-object, bool labels; 30% with a duplicate), derive (23 routes incl. set operations, static / grow-only / stale-cache sources), hierarchical flat / level_drop / level_add / roll / selection, and grow-only histories (plain, auto-integer, FrameGO columns, date, year-month) with the private state bound to SFIndex step by step; twin sweep: one of ~45 public calls on a grown IndexGO / IndexHierarchyGO (reads that materialise caches between the appends, none at the end) against the same call on a twin built at once; also never-read static hierarchies against read ones, and indices DERIVED by one or two operations (selections, sorts, level edits, set operations; directly or through a Series / Frame) against indices built from the same labels')


def replay(rec):
    import json
    print('the record holds the route, the labels and the observation; re-run ./check C02 with the same VERIF_SEED to regenerate the events')
    print(json.dumps({k: rec.get(k) for k in ('property', 'leg', 'clause', 'what', 'case', 'expected', 'actual')}, indent=1, default=str)[:6000])
    return 0
