'''C16 single-table export / import round trips reproduce the Frame.

 M  MC_C16 (SFDelim): every pair of string cells of up to 2 (thorough 3) characters from {a, 1, blank, delimiter, quote} x three
    delimiters: the csv layer is lossless, the required reading round-trips, the import as built round-trips wherever no known
    loss class applies (negative control: everywhere).
 R  every enumerated table written and read by the real Frame; lines and result go back to TLC (Trace_C16).
 V  random tables (bool / int / float / str columns, index depth 1-3, columns depth 1-2, 4 delimiters, default or disabled
    StoreFilter) validated by Trace_C16: file text = writer model, result = import as built, result = original where the
    statement speaks; pairs / records / items / dict-records / pickle routes compared directly.
'''
import copy
import io
import pickle
from fractions import Fraction

import numpy as np

import static_frame as sf
from static_frame.core.store_filter import STORE_FILTER_DEFAULT, STORE_FILTER_DISABLE

from .. import core, project as P, tlaval

QUOTE = '"'


def chars(s):
    return list(s)


def cell_py(c):
    k = c[0]
    if k == 'i':
        return int(c[1])
    if k == 'q':
        return c[1] / c[2]
    if k == 'b':
        return bool(c[1])
    if k == 's':
        return ''.join(c[1])
    if k == 'nan':
        return np.nan
    if k == 'none':
        return None
    raise ValueError(c)


def cell_enc(v):
    if v is None:
        return ['none']
    if isinstance(v, (bool, np.bool_)):
        return ['b', bool(v)]
    if isinstance(v, (int, np.integer)):
        return ['i', int(v)]
    if isinstance(v, (float, np.floating)):
        v = float(v)
        if v != v:
            return ['nan']
        if v in (float('inf'), float('-inf')):
            return ['inf', 1 if v > 0 else -1]
        fr = Fraction(v).limit_denominator(10 ** 6)
        return ['q', fr.numerator, fr.denominator]
    if isinstance(v, (str, np.str_)):
        return ['s', chars(str(v))]
    return ['o', repr(v)]


def column_array(col):
    vals = [cell_py(c) for c in col['cells']]
    k = col['kind']
    if k == 'i':
        return np.array(vals, dtype=np.int64)
    if k == 'f':
        return np.array(vals, dtype=np.float64)
    if k == 'b':
        return np.array(vals, dtype=bool)
    if any(v is None or isinstance(v, float) for v in vals):
        a = np.empty(len(vals), dtype=object)
        a[:] = vals
        return a
    return np.array(vals, dtype=str) if vals else np.array([], dtype='<U1')


def build_frame(T):
    n = len(T['ix'][0]) if T['ix'] else len(T['data'][0]['cells'])
    di = len(T['ix'])
    if di == 1:
        index = sf.Index([cell_py(c) for c in T['ix'][0]])
    else:
        index = sf.IndexHierarchy.from_labels(list(zip(*[[cell_py(c) for c in col] for col in T['ix']])))
    dc = len(T['labels'][0])
    if dc == 1:
        columns = sf.Index([cell_py(l[0]) for l in T['labels']])
    else:
        columns = sf.IndexHierarchy.from_labels([tuple(cell_py(x) for x in l) for l in T['labels']])
    return sf.Frame.from_items(zip(range(len(T['data'])), (column_array(c) for c in T['data'])), index=index).relabel(columns=columns)


def kind_of(arr):
    k = arr.dtype.kind
    return {'i': 'int', 'u': 'int', 'f': 'float', 'b': 'bool', 'U': 'str', 'O': 'str', 'S': 'str'}.get(k, 'other:' + k)


def project(g, di, dc):
    ix = [[cell_enc(v) for v in g.index.values_at_depth(k)] for k in range(g.index.depth)]
    if dc == 1:
        labels = [[cell_enc(l)] for l in g.columns]
    else:
        labels = [[cell_enc(x) for x in l] for l in g.columns]
    data = []
    for arr in g.iter_array(axis=0):
        data.append({'kind': kind_of(arr), 'cells': [cell_enc(v) for v in arr]})
    return {'k': 'table', 'ix': ix, 'labels': labels, 'data': data}


def run_delimited(T, cfg, route=None):
    f = build_frame(T)
    d = cfg['d']
    q = cfg['q']
    qk = {} if q == QUOTE else {'quote_char': q}
    sfil = STORE_FILTER_DEFAULT if cfg['filtered'] else STORE_FILTER_DISABLE
    buf = io.StringIO()
    di, dc = len(T['ix']), len(T['labels'][0])
    if route == 'csv' and d == ',':
        f.to_csv(buf, store_filter=sfil, **qk)
    elif route == 'tsv' and d == '\t':
        f.to_tsv(buf, store_filter=sfil, **qk)
    else:
        f.to_delimited(buf, delimiter=d, store_filter=sfil, **qk)
    text = buf.getvalue()
    lines = [chars(x) for x in text.split('\n')]
    if lines and lines[-1] == []:
        lines.pop()
    buf.seek(0)
    try:
        if route == 'csv' and d == ',':
            g = sf.Frame.from_csv(buf, index_depth=di, columns_depth=dc, store_filter=sfil, **qk)
        elif route == 'tsv' and d == '\t':
            g = sf.Frame.from_tsv(buf, index_depth=di, columns_depth=dc, store_filter=sfil, **qk)
        else:
            g = sf.Frame.from_delimited(buf, delimiter=d, index_depth=di, columns_depth=dc, store_filter=sfil, **qk)
        res = project(g, di, dc)
    except Exception as e:
        res = {'k': 'err', 'why': type(e).__name__}
    return lines, res


# ---- random tables ------------------------------------------------------------------------------------------------------------------
SPECIALS = ["it's", "'q'", "a'b,c", 'True', 'nan', 'None', '12', '1.5', '-3', ' a', 'a ', ' ', '', 'a b', 'x"y', '"q"', 'a,b', 'a|b', 'a;b', 'inf', '1.', '.5', '1-', 'NULL', ' 1']


def rand_text(rng, d):
    if rng.random() < 0.3:
        return rng.choice(SPECIALS)
    alpha = 'abcxyz' + ' ' * 2 + d + QUOTE + "'" + ',;|' + '12.-'
    alpha = alpha.replace('\t', '') + ('' if d == '\t' else d)
    return ''.join(rng.choice(alpha) for _ in range(rng.randint(0, 5)))


def rand_table(rng, d):
    n = rng.randint(1, 4)
    di = rng.choice([1, 1, 2, 3])
    # index: tree-ordered unique tuples
    outer = rng.sample(['p', 'q r', 'u,v', 'w'], rng.randint(1, 3))
    rows = []
    while len(rows) < n:
        for o in outer:
            if len(rows) >= n:
                break
            if di == 1:
                rows.append([['s', chars(rng.choice(['x', 'y', 'z', 'k l', 'm"n']) + str(len(rows)))] if rng.random() < 0.7 else ['i', 10 * len(rows) + 3]])
            elif di == 2:
                rows.append([['s', chars(o)], ['i', len(rows)]])
            else:
                rows.append([['s', chars(o)], ['i', len(rows) // 2], ['s', chars('a%d' % len(rows))]])
    if di == 1:
        kind = rng.choice(['s', 'i'])
        rows = [[['s', chars('r%d' % i)] if kind == 's' else ['i', i * 3 - 2]] for i in range(n)]
        if kind == 's' and rng.random() < 0.4:
            rows = [[['s', chars(rand_text(rng, d) + 'k%d' % i)]] for i in range(n)]
    else:
        rows.sort(key=lambda r: outer.index(''.join(r[0][1])))
    ix = [[r[k] for r in rows] for k in range(di)]
    nc = rng.randint(1, 4)
    dc = rng.choice([1, 1, 2])
    labels = []
    for j in range(nc):
        if dc == 1:
            labels.append([['s', chars('c%d' % j)] if rng.random() < 0.7 else ['i', j + 1]])
        else:
            labels.append([['s', chars('AB'[j // 2 % 2])], ['i', j] if rng.random() < 0.5 else ['s', chars('n%d' % j)]])
    if dc == 1 and rng.random() < 0.3:
        labels = [[['s', chars(rand_text(rng, d) + 'h%d' % j)]] for j in range(nc)]
    data = []
    for j in range(nc):
        k = rng.choice('iifbss')
        if k == 'i':
            cells = [['i', rng.choice([0, 1, -1, 7, -20, 123456789, 2 ** 31 - 1, -(2 ** 31) + 1, rng.randint(-500, 500)])] for _ in range(n)]
        elif k == 'f':
            cells = []
            for _ in range(n):
                if rng.random() < 0.2:
                    cells.append(['nan'])
                else:
                    fr = Fraction(rng.randint(-400, 4000), 4)
                    cells.append(['q', fr.numerator, fr.denominator])
        elif k == 'b':
            cells = [['b', rng.random() < 0.5] for _ in range(n)]
        else:
            cells = [['s', chars(rand_text(rng, d))] for _ in range(n)]
            if rng.random() < 0.15 and n > 1:
                cells[rng.randrange(n)] = ['nan']          # a missing value inside a string column (never the only cell: the column would have no string at all)
        data.append({'kind': k, 'cells': cells})
    return {'ix': ix, 'labels': labels, 'data': data}


def strict_equal(a, b, dtypes=False):
    try:
        if a.shape != b.shape or list(a.index) != list(b.index) or list(a.columns) != list(b.columns):
            return False
        for x, y in zip(a.iter_array(axis=0), b.iter_array(axis=0)):
            if dtypes and x.dtype != y.dtype:
                return False
            if kind_of(x) != kind_of(y):
                return False
            for u, v in zip(x.tolist(), y.tolist()):
                if u != v and not (u != u and v != v):
                    return False
                if type(u) is not type(v) and not (isinstance(u, float) and isinstance(v, float)):
                    return False
        return True
    except Exception:
        return False


def route_event(rng, T):
    f = build_frame(T).rename('nm')
    route = rng.choice(['pairs', 'records', 'items', 'dict_records', 'dict_records', 'dict_records_items', 'json', 'pickle', 'deepcopy', 'pickle_series'])
    if rng.random() < 0.5 and f.columns.depth == 1:
        # a column with explicit None cells (a str column whose missing value is None, or nothing but None): present-but-None is not absent
        n = len(f)
        pool = [None] * n if rng.random() < 0.3 else [rng.choice([None, 'v%d' % i, None, 'w']) for i in range(n)]
        a = np.empty(n, dtype=object)
        a[:] = pool
        cols = list(f.iter_array(axis=0))
        at = rng.randint(0, len(cols))
        cols.insert(at, a)
        labels = list(f.columns)
        labels.insert(at, 'zN')
        f = sf.Frame.from_items(zip(labels, cols), index=f.index, name='nm')
    try:
        if route == 'pairs':
            pairs = f.to_pairs(0)
            g = sf.Frame.from_items(((j, [val for _, val in v]) for j, (k, v) in enumerate(pairs)), index=f.index).relabel(columns=f.columns)
            eq = strict_equal(f, g) and [k for k, _ in pairs] == list(f.columns) and all([lab for lab, _ in v] == list(f.index) for _, v in pairs)
        elif route == 'records':
            recs = list(zip(*[arr.tolist() for arr in f.iter_array(axis=0)]))
            g = sf.Frame.from_records(recs, index=f.index, columns=f.columns)
            eq = strict_equal(f, g)
        elif route == 'items':
            g = sf.Frame.from_items(f.items(), index=f.index).relabel(columns=f.columns)
            eq = strict_equal(f, g, dtypes=True)
        elif route == 'dict_records':
            if f.columns.depth != 1:
                return None
            cols = [arr.tolist() for arr in f.iter_array(axis=0)]
            g = sf.Frame.from_dict_records([dict(zip(f.columns, [c[i] for c in cols])) for i in range(len(f))], index=f.index)
            eq = strict_equal(f, g)
        elif route == 'dict_records_items':
            if f.columns.depth != 1 or f.index.depth != 1:
                return None
            cols = [arr.tolist() for arr in f.iter_array(axis=0)]
            g = sf.Frame.from_dict_records_items((lab, dict(zip(f.columns, [c[i] for c in cols]))) for i, lab in enumerate(f.index))
            eq = strict_equal(f, g)
        elif route == 'json':
            import json
            if f.columns.depth != 1 or not all(isinstance(c, str) for c in f.columns):
                return None
            cols = [arr.tolist() for arr in f.iter_array(axis=0)]
            g = sf.Frame.from_json(json.dumps([dict(zip(f.columns, [c[i] for c in cols])) for i in range(len(f))]))
            eq = strict_equal(f.relabel(index=sf.IndexAutoFactory), g)
        elif route in ('pickle', 'deepcopy'):
            if f.columns.depth == 1 and rng.random() < 0.5:
                # a grow-only Frame exported right after it was grown (nothing has re-read its columns in between)
                f = f.to_frame_go()
                for j in range(rng.randint(1, 2)):
                    f['zG%d' % j] = np.arange(len(f.index)) * (j + 2)
                route = route + '_grown'
            g = pickle.loads(pickle.dumps(f)) if route.startswith('pickle') else copy.deepcopy(f)
            eq = strict_equal(f, g, dtypes=True) and g.name == f.name and g.index.__class__ is f.index.__class__ and g.columns.__class__ is f.columns.__class__
            eq = eq and not any(b.flags.writeable for b in g._blocks._blocks) and not g.index.values.flags.writeable and not g.columns.values.flags.writeable
        else:
            s = f.iloc[:, 0].rename('sn')
            g = pickle.loads(pickle.dumps(s))
            eq = g.equals(s, compare_dtype=True, compare_name=True, compare_class=True) and not g.values.flags.writeable and list(g.index) == list(s.index)
    except Exception as e:
        eq = False
        route = route + ':' + type(e).__name__ + ':' + str(e)[:60]
    return {'kind': 'route', 'route': route, 'equal': bool(eq)}


def pad(ev):
    ev.setdefault('T', {'ix': [], 'labels': [], 'data': []})
    ev.setdefault('cfg', {'d': ',', 'q': QUOTE, 'filtered': True})
    ev.setdefault('lines', [])
    ev.setdefault('res', {'k': 'none'})
    ev.setdefault('route', '')
    ev.setdefault('equal', True)
    return ev


def main(ctx):
    quick = ctx.tier == 'quick'
    rng = ctx.rng
    r = ctx.model_check('MC_C16', 'MC_C16_quick.cfg' if quick else 'MC_C16_thorough.cfg', dump=True, timeout=12000, heap='12g')
    ctx.model_check('MC_C16', 'MC_C16_neg.cfg', expect_violation='AsBuiltRoundTrip', coverage=False)
    events = []
    if r.ok and r.dump:
        for cs, exp in core.cases_from_dump(r.dump):
            if quick and rng.random() > 0.35:
                continue
            lines, res = run_delimited(cs['T'], cs['cfg'])
            events.append(pad({'kind': 'delimited', 'T': cs['T'], 'cfg': cs['cfg'], 'lines': lines, 'res': res, 'leg': 'R'}))
        ctx.exhaustive = not quick
    nR = len(events)
    ctx.replayed += nR
    for i in range(1200 if quick else 30000):
        d = rng.choice([',', ',', '\t', '|', ';'])
        T = rand_table(rng, d)
        cfg = {'d': d, 'q': QUOTE if rng.random() < 0.75 else "'", 'filtered': rng.random() < 0.7}
        try:
            lines, res = run_delimited(T, cfg, route=rng.choice(['csv', 'tsv', None]))
        except Exception as e:
            ctx.machinery('could not build / write a table: %r' % (e,))
            continue
        events.append(pad({'kind': 'delimited', 'T': T, 'cfg': cfg, 'lines': lines, 'res': res, 'leg': 'V'}))
        ctx.count('V_delimited_' + {',': 'comma', '\t': 'tab', '|': 'pipe', ';': 'semicolon'}[d])
        if rng.random() < 0.25:
            ev = route_event(rng, T)
            if ev:
                ev['leg'] = 'V'
                events.append(pad(ev))
                ctx.count('V_route_' + ev['route'].split(':')[0])
    for k, ev in enumerate(events):
        ev['id'] = k
    rej = ctx.validate_events('Trace_C16', 'Trace.cfg', events, chunk=250)
    ctx.validated -= nR
    for ev in events:
        if ev['id'] in rej:
            clause = rej[ev['id']][0]
            if ev['kind'] == 'route':
                ctx.violation('V', 'export / import through %s does not reproduce the Frame' % ev['route'], case={'route': ev['route']}, actual={'equal': ev['equal']}, clause=clause)
            else:
                ctx.violation(ev['leg'], 'delimited export / import: ' + clause, case={'T': ev['T'], 'cfg': ev['cfg']}, actual={'lines': [''.join(x) for x in ev['lines']], 'res': ev['res']}, clause=clause, expected=rej[ev['id']][1])
    ctx.sample({'leg': 'V', 'event': {'cfg': events[nR]['cfg'], 'lines': [''.join(x) for x in events[nR]['lines']]}})
    return ctx.finish(rule='M/R: two-row table, string index, one string column whose two cells range over all texts of <=2 (thorough 3) characters from {a, 1, blank, delimiter, quote} x delimiters comma / tab / pipe; every enumerated table written and read by the real Frame. '
                           'V: random tables (1-4 rows, index depth 1-3, columns depth 1-2, 1-4 columns of int (incl. +-2^31) / float quarters with NaN / bool / str cells over an alphabet with both delimiters, quote, blanks, digit-looking, Boolean-looking and StoreFilter words) x 4 delimiters x 2 quote characters x default / disabled StoreFilter x to_csv / to_tsv / to_delimited; pairs, records, items, dict-records, dict-records-items, JSON records, pickle, deepcopy routes, half of them with an added column holding explicit None cells (some or all)')


def replay(rec):
    '''re-run one recorded delimited round trip on the current tree and print the file and the table read back'''
    import json
    case = rec.get('case') or {}
    if 'T' not in case:
        print(json.dumps(rec, indent=1)[:3000])
        return 0
    lines, res = run_delimited(case['T'], case['cfg'])
    print('clause   :', rec.get('clause'))
    print('cfg      :', case['cfg'])
    print('file now :', [''.join(x) for x in lines])
    print('recorded :', (rec.get('actual') or {}).get('lines'))
    print('read now :', json.dumps(res)[:1500])
    print('expected :', json.dumps(rec.get('expected'))[:1500])
    return 0
