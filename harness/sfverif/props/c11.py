'''C11 concatenation and overlay keep every input cell exactly once, aligned by label.'''
import numpy as np

import static_frame as sf

from .. import core, project as P
from . import common as C
from .c06 import nser, nframe, abs_nser, abs_nframe, _numcol, POOLS
from .c15 import num


def _cl(l):
    '''labels are compared numerically: an empty (float64) input index turns int labels into equal floats'''
    return ['i', l[1]] if l[0] == 'f' and l[2] == 1 else l


def _fix(res):
    for k in ('index', 'columns'):
        if k in res:
            res[k] = [_cl(l) for l in res[k]]
    return res


def run_case(cs, real, layouts):
    r = _run_case(cs, real, layouts)
    return _fix(r) if r.get('k') != 'err' else r


def _run_case(cs, real, layouts):
    op = cs['op']
    try:
        fill = P.dec(real.get('fill', ['nan']))
        if op in ('f_concat', 'f_concat_items'):
            frames = [P.build_frame(f, lay) for f, lay in zip(real['frames'], layouts)]
            kw = dict(axis=cs['axis'], union=cs['union'], fill_value=fill)
            if real.get('generator'):
                src = (f for f in frames)
            else:
                src = frames
            if op == 'f_concat':
                if cs['auto']:
                    kw['index' if cs['axis'] == 0 else 'columns'] = sf.IndexAutoFactory
                return nframe(sf.Frame.from_concat(src, **kw))
            keys = [P.dec(k) for k in real['keys']]
            return nframe(sf.Frame.from_concat_items(zip(keys, frames), **kw))
        if op == 's_concat':
            sers = [P.build_series(s) for s in real['sers']]
            kw = {'index': sf.IndexAutoFactory} if cs['auto'] else {}
            return nser(sf.Series.from_concat(sers, **kw))
        if op == 'f_overlay':
            frames = [P.build_frame(f, lay) for f, lay in zip(real['frames'], layouts)]
            return nframe(sf.Frame.from_overlay(frames))
        if op == 's_overlay':
            return nser(sf.Series.from_overlay([P.build_series(s) for s in real['sers']]))
    except Exception as e:
        return P.proj_err(e)
    raise ValueError(op)


def gen_case(rng):
    r = rng.random()
    pk = rng.choice(['str', 'int'])
    pool = POOLS[pk]
    other = POOLS['int' if pk == 'str' else 'str']
    k = rng.choice([1, 2, 2, 3, 4])
    kind = rng.choice('iif')
    if r < 0.15:
        sers = []
        used = []
        for i in range(k):
            n = rng.randint(0, 3)
            if rng.random() < 0.85:
                avail = [l for l in pool + other if l not in used]
                labs = rng.sample(avail, min(n, len(avail)))
            else:
                labs = rng.sample(pool, n)
            used += labs
            col = _numcol(rng, len(labs), kind)
            sers.append({'index': labs, 'vals': col['vals'], 'dt': col['dt'], 'name': ['none']})
        auto = rng.random() < 0.3
        return {'op': 's_concat', 'sers': [abs_nser(s) for s in sers], 'auto': auto}, {'sers': sers}, []
    if r < 0.25:
        sers = []
        for i in range(k):
            labs = rng.sample(pool, rng.randint(1, 4))
            col = _numcol(rng, len(labs), 'f')
            col['vals'] = [['nan'] if rng.random() < 0.4 else v for v in col['vals']]
            sers.append({'index': labs, 'vals': col['vals'], 'dt': col['dt'], 'name': ['none']})
        return {'op': 's_overlay', 'sers': [abs_nser(s) for s in sers]}, {'sers': sers}, []
    axis = rng.choice([0, 1])
    union = rng.random() < 0.7
    frames, used = [], []
    same_across = rng.random() < 0.3
    base_across = rng.sample(pool, rng.randint(1, 4))
    for i in range(k):
        n_along = rng.randint(0, 3)
        if rng.random() < 0.9:
            avail = [l for l in other if l not in used]
            along = rng.sample(avail, min(n_along, len(avail)))
        else:
            along = rng.sample(other, n_along)      # may repeat a label of an earlier input
        used += along
        across = list(base_across) if same_across else rng.sample(pool, rng.randint(0, 4))
        if same_across and rng.random() < 0.3:
            rng.shuffle(across)
        rl, cl = (along, across) if axis == 0 else (across, along)
        kinds = [rng.choice('iif') for _ in cl]
        frames.append({'index': rl, 'columns': cl, 'cols': [_numcol(rng, len(rl), kd) for kd in kinds], 'name': ['none']})
    lays = [C.rand_layout(rng, f) for f in frames]
    if r < 0.4 and rng.random() < 0.4 and axis == 0:
        # overlay over equal columns where complete integer columns share a 2-D block to the left of float columns with holes
        cl = rng.sample(pool, rng.randint(3, 4))
        kinds = ['i', 'i'] + ['f'] * (len(cl) - 2)
        frames, lays = [], []
        rows_all = rng.sample(other, rng.randint(2, 3))
        for i in range(k):
            rl = list(rows_all) if i == 0 else rng.sample(rows_all, rng.randint(1, len(rows_all)))
            f = {'index': rl, 'columns': list(cl), 'cols': [_numcol(rng, len(rl), kd) for kd in kinds], 'name': ['none']}
            frames.append(f)
            lays.append([[2, 2]] + ([[len(cl) - 2, 2]] if rng.random() < 0.5 else [[1, 1]] * (len(cl) - 2)))
    if r < 0.4:
        for f in frames:
            for c in f['cols']:
                c['vals'] = [['nan'] if rng.random() < 0.4 and c['dt'][0] == 'f' else v for v in c['vals']]
        return {'op': 'f_overlay', 'frames': [abs_nframe(f) for f in frames]}, {'frames': frames}, lays
    fill = rng.choice([['nan'], ['nan'], ['i', 0], ['f', -1, 1]])
    if r < 0.55:
        keys = [['s', 'K%d' % i] for i in range(k)]
        return ({'op': 'f_concat_items', 'frames': [abs_nframe(f) for f in frames], 'keys': keys, 'axis': axis, 'union': union, 'fill': num(P.dec(fill))},
                {'frames': frames, 'keys': keys, 'fill': fill}, lays)
    auto = rng.random() < 0.25
    return ({'op': 'f_concat', 'frames': [abs_nframe(f) for f in frames], 'axis': axis, 'union': union, 'fill': num(P.dec(fill)), 'auto': auto},
            {'frames': frames, 'fill': fill, 'generator': rng.random() < 0.3}, lays)


def main(ctx):
    quick = ctx.tier == 'quick'
    r = ctx.model_check('MC_C11', 'MC_C11_quick.cfg' if quick else 'MC_C11_thorough.cfg', dump=True)
    if r.ok and r.dump:
        n = 0
        for cs, exp in core.cases_from_dump(r.dump):
            n += 1
            real = {'frames': [{'index': f['index'], 'columns': f['columns'], 'name': ['none'],
                                'cols': [{'dt': ['i', 64], 'vals': [['i', v[1]] for v in col]} for col in f['cols']]} for f in cs['frames']], 'fill': ['nan']}
            for variant in range(2):
                lays = [C.rand_layout(ctx.rng, f) for f in real['frames']]
                act = run_case(cs, real, lays)
                ctx.replayed += 1
                ok = (act.get('k') == 'err') == (exp.get('k') == 'err')
                if ok and exp.get('k') != 'err':
                    # map comparison: the order of the aligned axis is the implementation's choice
                    def cells(x):
                        return {(str(x['index'][i]), str(x['columns'][j])): x['cols'][j][i] for i in range(len(x['index'])) for j in range(len(x['columns']))}
                    ok = cells(act) == cells(exp) and (act['index'] == exp['index'] if cs['axis'] == 0 else act['columns'] == exp['columns'])
                if not ok:
                    ctx.violation('R', 'concatenation differs from the specification', case={'cs': cs, 'layouts': lays}, expected=exp, actual=act)
            if n <= 2:
                ctx.sample({'leg': 'R', 'case': cs, 'expected': exp})
        ctx.exhaustive = True
    events, meta = [], {}
    for i in range(2500 if quick else 50000):
        cs, real, lays = gen_case(ctx.rng)
        res = run_case(cs, real, lays)
        events.append({'id': i, 'cs': cs, 'res': res})
        meta[i] = (real, lays)
        ctx.count('V_' + cs['op'])
    rej = ctx.validate_events('Trace_C11', 'Trace.cfg', events)
    for ev in events:
        if ev['id'] in rej:
            ctx.violation('V', 'recorded result violates ' + rej[ev['id']][0], case={'cs': ev['cs'], 'real': meta[ev['id']][0], 'layouts': meta[ev['id']][1]},
                          actual=ev['res'], clause=rej[ev['id']][0])
    ctx.sample({'leg': 'V', 'event': events[0]})
    return ctx.finish(rule='M/R: every choice of aligned-axis labels over {x,y,z} for 2 (thorough 3) inputs x axis x union/intersection x duplicate concat label, replayed on random layouts; V: seeded random concatenations of 1-4 Frames/Series (partially overlapping / permuted / equal labels, int and float columns, fill values, auto index, generator inputs, items form) and overlays, both axes')
