'''Thin driver around TLC: run a model / trace spec, collect statistics, coverage, dumps, printed values.'''
import atexit
import os
import re
import shutil
import subprocess
import tempfile
import time

from . import tlaval

VERIF = os.path.dirname(os.path.dirname(os.path.dirname(os.path.abspath(__file__))))
SPEC_DIR = os.path.join(VERIF, 'spec')
JAR = '/opt/veriftools/tla/tla2tools.jar:/opt/veriftools/tla/CommunityModules-deps.jar'

_SCRATCH = None


def scratch():
    '''A per-process scratch directory, removed at exit.'''
    global _SCRATCH
    if _SCRATCH is None:
        base = os.environ.get('VERIF_SCRATCH_BASE') or tempfile.gettempdir()
        _SCRATCH = tempfile.mkdtemp(prefix='sfverif-', dir=base)
        atexit.register(lambda: shutil.rmtree(_SCRATCH, ignore_errors=True))
    return _SCRATCH


def subdir(name):
    d = tempfile.mkdtemp(prefix=name + '-', dir=scratch())
    return d


class TLCError(Exception):
    pass


class TLCResult:
    def __init__(self):
        self.rc = None
        self.stdout = ''
        self.generated = 0
        self.distinct = 0
        self.initial = 0
        self.depth = 0
        self.violated = None      # name of violated invariant / property, if any
        self.error = None         # machinery error text
        self.coverage = {}        # action -> (distinct, generated)
        self.dump = None
        self.wall = 0.0
        self.cmd = ''
        self.trace_text = None    # counterexample as printed

    @property
    def transitions(self):
        return max(self.generated - self.initial, 0)

    @property
    def ok(self):
        return self.rc == 0 and self.violated is None and self.error is None

    def printed(self, tag=None):
        '''Values printed with PrintT(<<tag, ...>>): parsed, in output order.'''
        out = []
        for v in iter_printed(self.stdout):
            if tag is None or (isinstance(v, list) and v and v[0] == tag):
                out.append(v)
        return out


def iter_printed(stdout):
    '''PrintT output: a value starting with << at the beginning of a line; may span lines.'''
    lines = stdout.split('\n')
    i = 0
    while i < len(lines):
        ln = lines[i]
        if ln.startswith('<<'):
            buf = ln
            depth = buf.count('<<') - buf.count('>>')
            while depth > 0 and i + 1 < len(lines):
                i += 1
                buf += '\n' + lines[i]
                depth = buf.count('<<') - buf.count('>>')
            try:
                yield tlaval.plain(tlaval.parse(buf))
            except ValueError:
                pass
        i += 1


_RE_STATES = re.compile(r'(\d+) states generated, (\d+) distinct states found')
_RE_INIT = re.compile(r'initial states: (?:\d+ states generated, with )?(\d+)(?: of them)? distinct')
_RE_DEPTH = re.compile(r'The depth of the complete state graph search is (\d+)')
_RE_INV = re.compile(r'Invariant (\S+) is violated')
_RE_PROP = re.compile(r'(?:Action property|Temporal properties|Error: Action property) (\S+)? ?(?:is|were) violated')
_RE_COV = re.compile(r'^<(\w+) line \d+, col \d+ to line \d+, col \d+ of module (\w+)>: (\d+):(\d+)', re.M)


def run(module, cfg, *, workers=None, dump=False, coverage=False, env=None, timeout=3600,
        simulate=None, depth=None, seed=None, heap='4g', deadlock=False, extra=(), view_dfs=False):
    '''Run TLC on spec/<module>.tla with spec/<cfg> (or an absolute cfg path).'''
    res = TLCResult()
    work = subdir(module)
    spec = os.path.join(SPEC_DIR, module + '.tla')
    cfgp = cfg if os.path.isabs(cfg) else os.path.join(SPEC_DIR, cfg)
    if workers is None:
        workers = os.cpu_count() or 4
    cmd = ['java', '-XX:+UseParallelGC', '-Xmx' + heap, '-Djava.io.tmpdir=' + work]          # (TLC leaves an empty tlc-<n> directory per run in the JVM's temporary directory)
    if view_dfs:
        cmd.append('-Dtlc2.tool.queue.IStateQueue=StateDeque')
    cmd += ['-cp', JAR, 'tlc2.TLC', '-workers', str(workers), '-metadir', os.path.join(work, 'meta'),
            '-noGenerateSpecTE', '-config', cfgp]
    if not deadlock:
        cmd.append('-deadlock')  # "-deadlock" switches deadlock checking OFF
    if dump:
        res.dump = os.path.join(work, 'states')
        cmd += ['-dump', res.dump]
        res.dump += '.dump'
    if coverage:
        cmd += ['-coverage', '1']
    if simulate is not None:
        cmd += ['-simulate', simulate]
    if depth is not None:
        cmd += ['-depth', str(depth)]
    if seed is not None:
        cmd += ['-seed', str(seed)]
    cmd += list(extra)
    cmd.append(spec)
    e = dict(os.environ)
    e.pop('JAVA_TOOL_OPTIONS', None)
    if env:
        e.update({k: str(v) for k, v in env.items()})
    res.cmd = ' '.join(cmd)
    t0 = time.time()
    try:
        p = subprocess.run(cmd, cwd=work, env=e, stdout=subprocess.PIPE, stderr=subprocess.STDOUT,
                           timeout=timeout, text=True, errors='replace')
        res.rc = p.returncode
        res.stdout = p.stdout
    except subprocess.TimeoutExpired as ex:
        res.rc = -1
        res.stdout = (ex.stdout or b'').decode('utf8', 'replace') if isinstance(ex.stdout, bytes) else (ex.stdout or '')
        res.error = 'timeout after %ss' % timeout
    res.wall = time.time() - t0
    out = res.stdout
    m = None
    for m in _RE_STATES.finditer(out):
        pass
    if m:
        res.generated, res.distinct = int(m.group(1)), int(m.group(2))
    m = _RE_INIT.search(out)
    if m:
        res.initial = int(m.group(1))
    m = _RE_DEPTH.search(out)
    if m:
        res.depth = int(m.group(1))
    m = _RE_INV.search(out)
    if m:
        res.violated = m.group(1)
    elif 'is violated' in out or 'was violated' in out or 'were violated' in out:
        mm = re.search(r'(\w+) (?:is|was) violated', out)
        res.violated = mm.group(1) if mm else 'property'
    if res.violated:
        i = out.find('Error:')
        res.trace_text = out[i:] if i >= 0 else out
    if res.error is None and res.rc not in (0, 12, 13) and not res.violated:
        i = out.find('Error')
        res.error = out[i:i + 3000] if i >= 0 else 'TLC exit status %s\n%s' % (res.rc, out[-2000:])
    if coverage:
        for m in _RE_COV.finditer(out):
            name = m.group(1)
            d, g = int(m.group(3)), int(m.group(4))
            od, og = res.coverage.get(name, (0, 0))
            res.coverage[name] = (max(od, d), max(og, g))
    return res


def write_cfg(path, *, init='Init', next_='Next', spec=None, invariants=(), properties=(), constants=None,
              constraint=None, postcondition=None, view=None, action_constraint=None):
    lines = []
    if spec:
        lines.append('SPECIFICATION %s' % spec)
    else:
        lines += ['INIT %s' % init, 'NEXT %s' % next_]
    for k, v in (constants or {}).items():
        lines.append('CONSTANT %s = %s' % (k, v) if not str(v).startswith('<-') else 'CONSTANT %s %s' % (k, v))
    for i in invariants:
        lines.append('INVARIANT %s' % i)
    for p in properties:
        lines.append('PROPERTY %s' % p)
    if constraint:
        lines.append('CONSTRAINT %s' % constraint)
    if action_constraint:
        lines.append('ACTION_CONSTRAINT %s' % action_constraint)
    if postcondition:
        lines.append('POSTCONDITION %s' % postcondition)
    if view:
        lines.append('VIEW %s' % view)
    lines.append('CHECK_DEADLOCK FALSE')
    with open(path, 'w') as fh:
        fh.write('\n'.join(lines) + '\n')
    return path


def sany(module):
    spec = os.path.join(SPEC_DIR, module + '.tla')
    p = subprocess.run(['java', '-cp', JAR, 'tla2sany.SANY', spec], cwd=SPEC_DIR, stdout=subprocess.PIPE,
                       stderr=subprocess.STDOUT, text=True)
    ok = p.returncode == 0 and 'Semantic errors' not in p.stdout and '*** Errors' not in p.stdout and 'Fatal errors' not in p.stdout
    return ok, p.stdout


def simulate(module, cfg, *, num, depth, seed=1, timeout=1200, heap='2g'):
    '''Random behaviours of the specification: runs TLC in simulation mode, returns a list of behaviours, each a
    list of states {var: value} (TLA+ values parsed to Python).'''
    import glob
    work = subdir('sim-' + module)
    spec = os.path.join(SPEC_DIR, module + '.tla')
    cfgp = cfg if os.path.isabs(cfg) else os.path.join(SPEC_DIR, cfg)
    prefix = os.path.join(work, 'tr')
    cmd = ['java', '-XX:+UseParallelGC', '-Xmx' + heap, '-Djava.io.tmpdir=' + work, '-cp', JAR, 'tlc2.TLC', '-simulate', 'file=%s,num=%d' % (prefix, num), '-depth', str(depth),
           '-workers', '1', '-seed', str(seed), '-metadir', os.path.join(work, 'meta'), '-noGenerateSpecTE', '-deadlock', '-config', cfgp, spec]
    e = dict(os.environ)
    e.pop('JAVA_TOOL_OPTIONS', None)
    p = subprocess.run(cmd, cwd=work, env=e, stdout=subprocess.PIPE, stderr=subprocess.STDOUT, timeout=timeout, text=True, errors='replace')
    out = []
    for path in sorted(glob.glob(prefix + '_*')):
        with open(path) as fh:
            text = fh.read()
        states = []
        for chunk in re.split(r'^STATE_\d+ ==\s*$', text, flags=re.M)[1:]:
            body = chunk.split('\n\\*')[0].split('\n====')[0]
            body = '\n'.join(l for l in body.split('\n') if l.strip())
            states.append({k: tlaval.plain(v) for k, v in tlaval.parse_state(body + '\n').items()})
        if states:
            out.append(states)
    return out, p.stdout
