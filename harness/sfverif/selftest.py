'''Self-tests run by setup.sh: SANY on every module, parser and projection round trips.'''
import glob
import os
import sys

import numpy as np

from . import project as P, tlaval, tlc


def main():
    bad = 0
    mods = sorted(os.path.basename(p)[:-4] for p in glob.glob(os.path.join(tlc.SPEC_DIR, '*.tla')))
    import concurrent.futures as cf
    with cf.ThreadPoolExecutor(8) as ex:
        for m, (ok, out) in zip(mods, ex.map(tlc.sany, mods)):
            if not ok:
                bad += 1
                print('SANY FAILED', m)
                print(out[-1500:])
    vals = [1, -3, 2 ** 40, 1.5, float('nan'), None, 'a"b', True, (1, 'x'), np.datetime64('2020-01-02'), np.datetime64('NaT'), b'ab', 0.1]
    for v in vals:
        t = P.enc(v)
        back = P.dec(t)
        if P.enc(back) != t:
            bad += 1
            print('projection round trip failed for', repr(v))
        if tlaval.plain(tlaval.parse(tlaval.to_tla(t))) != t:
            bad += 1
            print('TLA+ print/parse round trip failed for', t)
    for dt in ['bool', 'i1', 'i8', 'u2', 'f4', 'f8', 'c16', '<U3', 'S2', 'M8[D]', 'm8[s]', 'O']:
        if P.dec_dtype(P.enc_dtype(np.dtype(dt))) != np.dtype(dt):
            bad += 1
            print('dtype token round trip failed for', dt)
    print('selftest: %d modules parsed, %d failures' % (len(mods), bad))
    return 1 if bad else 0


if __name__ == '__main__':
    sys.exit(main())
