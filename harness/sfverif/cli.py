'''./check <id> --tier quick|thorough [--replay path]'''
import argparse
import importlib
import json
import os
import sys
import traceback


def main():
    ap = argparse.ArgumentParser()
    ap.add_argument('pid')
    ap.add_argument('--tier', default=os.environ.get('VERIF_TIER', 'quick'), choices=['quick', 'thorough'])
    ap.add_argument('--replay', default=None)
    ap.add_argument('--seed', type=int, default=None)
    a = ap.parse_args()
    seed = a.seed if a.seed is not None else int(os.environ.get('VERIF_SEED', '20261002'))
    import static_frame
    repo = os.environ.get('VERIF_REPO', '/repo').rstrip('/') + '/'
    if not os.path.abspath(static_frame.__file__).startswith(repo):
        print('MACHINERY-FAILURE: static_frame imported from %s, not %s' % (static_frame.__file__, repo))
        return 2
    from . import core
    pid = a.pid.upper()
    mod = importlib.import_module('sfverif.props.' + pid.lower())
    if a.replay:
        with open(a.replay) as fh:
            rec = json.load(fh)
        return mod.replay(rec) if hasattr(mod, 'replay') else core.generic_replay(mod, rec)
    ctx = core.Ctx(pid, a.tier, seed)
    # watchdog: a check must never hang (a stuck worker pool, a TLC that does not return): machinery failure after the limit
    import threading
    limit = float(os.environ.get('VERIF_TIMEOUT_S', '2700' if a.tier == 'quick' else '21600'))

    def _expired():
        print('MACHINERY-FAILURE property=%s: no result after %.0f s (watchdog)' % (pid, limit), flush=True)
        os._exit(2)
    wd = threading.Timer(limit, _expired)
    wd.daemon = True
    wd.start()
    try:
        return mod.main(ctx)
    except Exception:
        traceback.print_exc()
        print('MACHINERY-FAILURE property=%s: harness crashed' % pid)
        return 2


if __name__ == '__main__':
    sys.exit(main())
