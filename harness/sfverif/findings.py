'''Classifiers for known findings.  known_findings.json (committed, never written at run time) names a
classifier and its parameters for every genuine defect that is recorded rather than repaired; a violation
record that a classifier recognises is reported as KNOWN-FINDING, everything else stays a VIOLATION.'''

CLASSIFIERS = {}


def classifier(fn):
    CLASSIFIERS[fn.__name__] = fn
    return fn


@classifier
def empty_axis_with_subset(rec, params):
    '''expected: a Frame with zero columns whose row count differs from the source's; actual: init error.'''
    exp, act = rec.get('expected'), rec.get('actual')
    cs = (rec.get('case') or {}).get('cs') or {}
    if not exp or not act or exp.get('k') != 'frame' or act.get('k') != 'err' or act.get('cat') != 'init':
        return False
    src = cs.get('f')
    if src is None:
        return False
    return len(exp['cols']) == 0 and len(exp['index']) != len(src['index'])


def _neg_locslice(k):
    return bool(k) and k[0] == 'locslice' and k[3][0] == 'i' and k[3][1] < 0 and k[2][0] != 'none'


@classifier
def desc_label_slice(rec, params):
    cs = (rec.get('case') or {}).get('cs') or {}
    return _neg_locslice(cs.get('rk')) or _neg_locslice(cs.get('ck'))
