'''Classifiers for known findings.  known_findings.json (committed, never written at run time) names a
classifier and its parameters for every genuine defect that is recorded rather than repaired; a violation
record that a classifier recognises is reported as KNOWN-FINDING, everything else stays a VIOLATION.'''

CLASSIFIERS = {}


def classifier(fn):
    CLASSIFIERS[fn.__name__] = fn
    return fn


@classifier
def empty_axis_with_subset(rec, params):
    '''expected: a Frame with zero columns whose row count differs from the source's; actual: init error.'''
    exp, act = rec.get('expected'), rec.get('actual')
    cs = (rec.get('case') or {}).get('cs') or {}
    if not exp or not act or exp.get('k') != 'frame' or act.get('k') != 'err' or act.get('cat') != 'init':
        return False
    src = cs.get('f')
    if src is None:
        return False
    return len(exp['cols']) == 0 and len(exp['index']) != len(src['index'])


def _neg_locslice(k):
    return bool(k) and k[0] == 'locslice' and k[3][0] == 'i' and k[3][1] < 0 and k[2][0] != 'none'


@classifier
def desc_label_slice(rec, params):
    cs = (rec.get('case') or {}).get('cs') or {}
    return _neg_locslice(cs.get('rk')) or _neg_locslice(cs.get('ck'))


@classifier
def frame_value_single_row(rec, params):
    cs = (rec.get('case') or {}).get('cs') or {}
    exp, act = rec.get('expected') or {}, rec.get('actual') or {}
    if cs.get('op') != 'f_assign' or (cs.get('val') or [None])[0] != 'frame' or act.get('k') != 'err' or exp.get('k') != 'frame':
        return False
    # exactly one row differs between source and expected result <=> one row addressed
    src = cs['f']
    changed = set()
    for c0, c1 in zip(src['cols'], exp['cols']):
        for i, (a, b) in enumerate(zip(c0['vals'], c1['vals'])):
            if a != b and not (a[0] == 'f' and a[2] == 1 and b == ['i', a[1]]):
                changed.add(i)
    return len(changed) <= 1


@classifier
def mask_drops_name(rec, params):
    cs = (rec.get('case') or {}).get('cs') or {}
    exp, act = rec.get('expected') or {}, rec.get('actual') or {}
    if cs.get('op') not in ('f_mask', 's_mask') or exp.get('k') != act.get('k'):
        return False
    e2 = dict(exp)
    e2['name'] = ['none']
    return e2 == act and exp.get('name') != ['none']


@classifier
def empty_axis_result(rec, params):
    exp, act = rec.get('expected') or {}, rec.get('actual') or {}
    cs = (rec.get('case') or {}).get('cs') or {}
    src = cs.get('f')
    if not src or exp.get('k') != 'frame' or act.get('k') != 'err':
        return False
    return len(exp['cols']) == 0 and len(exp['index']) != len(src['index'])


@classifier
def bloc_assign_widens_block(rec, params):
    cs = (rec.get('case') or {}).get('cs') or {}
    exp, act = rec.get('expected') or {}, rec.get('actual') or {}
    if cs.get('op') != 'f_assign_bloc' or exp.get('k') != 'frame' or act.get('k') != 'frame':
        return False
    canon = lambda v: ['i', v[1]] if v[0] == 'f' and v[2] == 1 else v
    if [[canon(v) for v in c['vals']] for c in exp['cols']] != [[canon(v) for v in c['vals']] for c in act['cols']]:
        return False
    # only dtypes differ, and only on columns with no True cell
    mask = cs['mask']
    for j, (e, a) in enumerate(zip(exp['cols'], act['cols'])):
        if e['dt'] != a['dt'] and any(row[j] for row in mask):
            return False
    return True


def _canon_res(r):
    if not isinstance(r, dict):
        return r
    c = lambda v: ['i', v[1]] if isinstance(v, list) and v and v[0] == 'f' and len(v) == 3 and v[2] == 1 else v
    out = dict(r)
    if 'cols' in out:
        out['cols'] = [[c(v) for v in col['vals']] for col in out['cols']]
    if 'vals' in out:
        out['vals'] = [c(v) for v in out['vals']]
        out.pop('dt', None)
    if 'rows' in out:
        out['rows'] = [[c(v) for v in row] for row in out['rows']]
        out.pop('dt', None)
    return out


@classifier
def c03_bloc_order(rec, params):
    case = rec.get('case') or {}
    if case.get('op') not in ('f_bloc', 'bloc_notna'):
        return False
    e, a = rec.get('expected') or {}, rec.get('actual') or {}
    if e.get('k') != 'series' or a.get('k') != 'series':
        return False
    import json
    pe = sorted(json.dumps([i, v]) for i, v in zip(e['index'], e['vals']))
    pa = sorted(json.dumps([i, v]) for i, v in zip(a['index'], a['vals']))
    return pe == pa and e['dt'] == a['dt'] and e['name'] == a['name']


@classifier
def c03_values_equal_dtype_differs(rec, params):
    case = rec.get('case') or {}
    if case.get('op') not in params.get('ops', []):
        return False
    if params.get('val') and ((case.get('cs') or {}).get('val') or [None])[0] != params['val']:
        return False
    e, a = rec.get('expected') or {}, rec.get('actual') or {}
    return e != a and _canon_res(e) == _canon_res(a)


@classifier
def c03_object_reduction(rec, params):
    case = rec.get('case') or {}
    if case.get('op') not in params.get('ops', []):
        return False
    src = case.get('f') or {}
    return any(c['dt'][0] in ('O', 'U', 'S') for c in src.get('cols', []))


@classifier
def c03_all_bool_reduction(rec, params):
    case = rec.get('case') or {}
    if case.get('op') not in params.get('ops', []):
        return False
    src = case.get('f') or {}
    cols = src.get('cols', [])
    return bool(cols) and all(c['dt'][0] == 'b' for c in cols)


@classifier
def zero_sized_source_error(rec, params):
    cs = (rec.get('case') or {}).get('cs') or {}
    act = rec.get('actual') or {}
    src = cs.get('f')
    if not src or act.get('k') != 'err':
        return False
    return len(src['columns']) == 0 or len(src['index']) == 0


@classifier
def fill_widens_block(rec, params):
    cs = (rec.get('case') or {}).get('cs') or {}
    exp, act = rec.get('expected') or {}, rec.get('actual') or {}
    if cs.get('op') not in ('f_fillna', 'f_fillsided') or exp.get('k') != 'frame' or act.get('k') != 'frame':
        return False
    na = lambda v: v[0] in ('nan', 'none', 'nat')
    loose = lambda vals: [['na'] if na(v) else (['i', v[1]] if v[0] == 'f' and v[2] == 1 else v) for v in vals]
    if exp['index'] != act['index'] or exp['columns'] != act['columns'] or len(exp['cols']) != len(act['cols']):
        return False
    for src, e, a in zip(cs['f']['cols'], exp['cols'], act['cols']):
        if loose(e['vals']) != loose(a['vals']):
            return False
        # a dtype difference is the known widening only on a column in which nothing was filled
        if e['dt'] != a['dt'] and loose(e['vals']) != loose(src['vals']):
            return False
    return True


@classifier
def c15_nonnumeric(rec, params):
    cs = (rec.get('case') or {}).get('cs') or {}
    src = cs.get('f') or {}
    return any(c['dt'][0] in ('O', 'U', 'S', 'M', 'm') for c in src.get('cols', []))


def _kinds(rec):
    cs = (rec.get('case') or {}).get('cs') or {}
    return cs, [c['dt'][0] for c in (cs.get('f') or {}).get('cols', [])]


@classifier
def c15_object_row_dtype(rec, params):
    cs, kinds = _kinds(rec)
    return 'b' in kinds and any(k != 'b' for k in kinds)


@classifier
def c15_all_bool_sum(rec, params):
    cs, kinds = _kinds(rec)
    return bool(kinds) and all(k == 'b' for k in kinds) and cs.get('fn') in ('sum', 'prod') and cs.get('axis') == 0


@classifier
def c15_arg_all_nan_line(rec, params):
    cs, kinds = _kinds(rec)
    act = rec.get('actual') or {}
    if cs.get('op') != 'f_arg' or act.get('k') != 'err':
        return False
    f = cs['f']
    na = lambda v: v[0] in ('nan', 'none', 'nat')
    lines = [c['vals'] for c in f['cols']] if cs['axis'] == 0 else [[c['vals'][i] for c in f['cols']] for i in range(len(f['index']))]
    return any(line and all(na(v) for v in line) for line in lines)


@classifier
def astype_boolean_key(rec, params):
    cs = (rec.get('case') or {}).get('cs') or {}
    act = rec.get('actual') or {}
    if cs.get('op') != 'f_astype' or act.get('k') != 'err':
        return False
    k = cs.get('ck') or []
    if k and k[0] == 'iloc':
        k = k[1]
    return bool(k) and k[0] in ('mask', 'bseries')


@classifier
def c06_reflected_logical(rec, params):
    cs = (rec.get('case') or {}).get('cs') or {}
    act = rec.get('actual') or {}
    return cs.get('op') == 'f_scalar' and cs.get('reflected') and cs.get('fn') in ('and', 'or') and act.get('k') == 'err'


@classifier
def c06_logical_unaligned(rec, params):
    cs = (rec.get('case') or {}).get('cs') or {}
    act = rec.get('actual') or {}
    if cs.get('fn') not in ('and', 'or') or act.get('k') != 'err' or cs.get('op') not in ('s_binop', 'f_binop', 'fs_binop'):
        return False
    import json
    S = lambda ls: {json.dumps(l) for l in ls}
    a, b = cs['a'], cs['b']
    if cs['op'] == 's_binop':
        return S(a['index']) != S(b['index'])
    if cs['op'] == 'f_binop':
        return S(a['index']) != S(b['index']) or S(a['columns']) != S(b['columns'])
    return S(a['columns']) != S(b['index'])


@classifier
def c06_empty_operand(rec, params):
    cs = (rec.get('case') or {}).get('cs') or {}
    act = rec.get('actual') or {}
    if act.get('k') != 'err' or cs.get('op') not in ('f_binop', 'fs_binop'):
        return False
    a, b = cs['a'], cs['b']
    empty = lambda x: any(len(x.get(k, [0])) == 0 for k in ('index', 'columns') if k in x)
    return empty(a) or empty(b)


@classifier
def c11_empty_aligned_axis(rec, params):
    cs = (rec.get('case') or {}).get('cs') or {}
    act = rec.get('actual') or {}
    if act.get('k') != 'err' or cs.get('op') not in ('f_concat', 'f_concat_items'):
        return False
    import json
    key = 'columns' if cs['axis'] == 0 else 'index'
    sets = [set(json.dumps(l) for l in f[key]) for f in cs['frames']]
    if not sets:
        return False
    want = set.union(*sets) if cs['union'] else set.intersection(*sets)
    return len(want) == 0


@classifier
def c11_empty_input(rec, params):
    cs = (rec.get('case') or {}).get('cs') or {}
    act = rec.get('actual') or {}
    if act.get('k') != 'err' or cs.get('op') not in ('f_concat', 'f_concat_items', 'f_overlay'):
        return False
    return any(len(f['index']) == 0 or len(f['columns']) == 0 for f in cs['frames'])
