'''Classifiers for known findings.  known_findings.json (committed, never written at run time) names a
classifier and its parameters for every genuine defect that is recorded rather than repaired; a violation
record that a classifier recognises is reported as KNOWN-FINDING, everything else stays a VIOLATION.'''

CLASSIFIERS = {}


def classifier(fn):
    CLASSIFIERS[fn.__name__] = fn
    return fn


@classifier
def empty_axis_with_subset(rec, params):
    '''expected: a Frame with zero columns whose row count differs from the source's; actual: init error.'''
    exp, act = rec.get('expected'), rec.get('actual')
    cs = (rec.get('case') or {}).get('cs') or {}
    if not exp or not act or exp.get('k') != 'frame' or act.get('k') != 'err' or act.get('cat') != 'init':
        return False
    src = cs.get('f')
    if src is None:
        return False
    return len(exp['cols']) == 0 and len(exp['index']) != len(src['index'])


def _neg_locslice(k):
    return bool(k) and k[0] == 'locslice' and k[3][0] == 'i' and k[3][1] < 0 and k[2][0] != 'none'


@classifier
def desc_label_slice(rec, params):
    cs = (rec.get('case') or {}).get('cs') or {}
    return _neg_locslice(cs.get('rk')) or _neg_locslice(cs.get('ck'))


@classifier
def frame_value_single_row(rec, params):
    cs = (rec.get('case') or {}).get('cs') or {}
    exp, act = rec.get('expected') or {}, rec.get('actual') or {}
    if cs.get('op') != 'f_assign' or (cs.get('val') or [None])[0] != 'frame' or act.get('k') != 'err' or exp.get('k') != 'frame':
        return False
    # exactly one row differs between source and expected result <=> one row addressed
    src = cs['f']
    changed = set()
    for c0, c1 in zip(src['cols'], exp['cols']):
        for i, (a, b) in enumerate(zip(c0['vals'], c1['vals'])):
            if a != b and not (a[0] == 'f' and a[2] == 1 and b == ['i', a[1]]):
                changed.add(i)
    return len(changed) <= 1


@classifier
def mask_drops_name(rec, params):
    cs = (rec.get('case') or {}).get('cs') or {}
    exp, act = rec.get('expected') or {}, rec.get('actual') or {}
    if cs.get('op') not in ('f_mask', 's_mask') or exp.get('k') != act.get('k'):
        return False
    e2 = dict(exp)
    e2['name'] = ['none']
    return e2 == act and exp.get('name') != ['none']


@classifier
def empty_axis_result(rec, params):
    exp, act = rec.get('expected') or {}, rec.get('actual') or {}
    cs = (rec.get('case') or {}).get('cs') or {}
    src = cs.get('f')
    if not src or exp.get('k') != 'frame' or act.get('k') != 'err':
        return False
    return len(exp['cols']) == 0 and len(exp['index']) != len(src['index'])


@classifier
def bloc_assign_widens_block(rec, params):
    cs = (rec.get('case') or {}).get('cs') or {}
    exp, act = rec.get('expected') or {}, rec.get('actual') or {}
    if cs.get('op') != 'f_assign_bloc' or exp.get('k') != 'frame' or act.get('k') != 'frame':
        return False
    canon = lambda v: ['i', v[1]] if v[0] == 'f' and v[2] == 1 else v
    if [[canon(v) for v in c['vals']] for c in exp['cols']] != [[canon(v) for v in c['vals']] for c in act['cols']]:
        return False
    # only dtypes differ, and only on columns with no True cell
    mask = cs['mask']
    for j, (e, a) in enumerate(zip(exp['cols'], act['cols'])):
        if e['dt'] != a['dt'] and any(row[j] for row in mask):
            return False
    return True
