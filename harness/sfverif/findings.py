'''Classifiers for known findings.  known_findings.json (committed, never written at run time) names a
classifier and its parameters for every genuine defect that is recorded rather than repaired; a violation
record that a classifier recognises is reported as KNOWN-FINDING, everything else stays a VIOLATION.'''

CLASSIFIERS = {}


def classifier(fn):
    CLASSIFIERS[fn.__name__] = fn
    return fn


@classifier
def empty_axis_with_subset(rec, params):
    '''expected: a Frame with zero columns whose row count differs from the source's; actual: init error.'''
    exp, act = rec.get('expected'), rec.get('actual')
    cs = (rec.get('case') or {}).get('cs') or {}
    if not exp or not act or exp.get('k') != 'frame' or act.get('k') != 'err' or act.get('cat') != 'init':
        return False
    src = cs.get('f')
    if src is None:
        return False
    return len(exp['cols']) == 0 and len(exp['index']) != len(src['index'])


def _neg_locslice(k):
    return bool(k) and k[0] == 'locslice' and k[3][0] == 'i' and k[3][1] < 0 and k[2][0] != 'none'


@classifier
def desc_label_slice(rec, params):
    cs = (rec.get('case') or {}).get('cs') or {}
    return _neg_locslice(cs.get('rk')) or _neg_locslice(cs.get('ck'))


@classifier
def frame_value_single_row(rec, params):
    cs = (rec.get('case') or {}).get('cs') or {}
    exp, act = rec.get('expected') or {}, rec.get('actual') or {}
    if cs.get('op') != 'f_assign' or (cs.get('val') or [None])[0] != 'frame' or act.get('k') != 'err' or exp.get('k') != 'frame':
        return False
    # exactly one row differs between source and expected result <=> one row addressed
    src = cs['f']
    changed = set()
    for c0, c1 in zip(src['cols'], exp['cols']):
        for i, (a, b) in enumerate(zip(c0['vals'], c1['vals'])):
            if a != b and not (a[0] == 'f' and a[2] == 1 and b == ['i', a[1]]):
                changed.add(i)
    return len(changed) <= 1


@classifier
def mask_drops_name(rec, params):
    cs = (rec.get('case') or {}).get('cs') or {}
    exp, act = rec.get('expected') or {}, rec.get('actual') or {}
    if cs.get('op') not in ('f_mask', 's_mask') or exp.get('k') != act.get('k'):
        return False
    e2 = dict(exp)
    e2['name'] = ['none']
    return e2 == act and exp.get('name') != ['none']


@classifier
def empty_axis_result(rec, params):
    exp, act = rec.get('expected') or {}, rec.get('actual') or {}
    cs = (rec.get('case') or {}).get('cs') or {}
    src = cs.get('f')
    if not src or exp.get('k') != 'frame' or act.get('k') != 'err':
        return False
    return len(exp['cols']) == 0 and len(exp['index']) != len(src['index'])


@classifier
def bloc_assign_widens_block(rec, params):
    cs = (rec.get('case') or {}).get('cs') or {}
    exp, act = rec.get('expected') or {}, rec.get('actual') or {}
    if cs.get('op') != 'f_assign_bloc' or exp.get('k') != 'frame' or act.get('k') != 'frame':
        return False
    canon = lambda v: ['i', v[1]] if v[0] == 'f' and v[2] == 1 else v
    if [[canon(v) for v in c['vals']] for c in exp['cols']] != [[canon(v) for v in c['vals']] for c in act['cols']]:
        return False
    # only dtypes differ, and only on columns with no True cell
    mask = cs['mask']
    for j, (e, a) in enumerate(zip(exp['cols'], act['cols'])):
        if e['dt'] != a['dt'] and any(row[j] for row in mask):
            return False
    return True


def _canon_res(r):
    if not isinstance(r, dict):
        return r
    c = lambda v: ['i', v[1]] if isinstance(v, list) and v and v[0] == 'f' and len(v) == 3 and v[2] == 1 else v
    out = dict(r)
    if 'cols' in out:
        out['cols'] = [[c(v) for v in col['vals']] for col in out['cols']]
    if 'vals' in out:
        out['vals'] = [c(v) for v in out['vals']]
        out.pop('dt', None)
    if 'rows' in out:
        out['rows'] = [[c(v) for v in row] for row in out['rows']]
        out.pop('dt', None)
    return out


@classifier
def c03_bloc_order(rec, params):
    case = rec.get('case') or {}
    if case.get('op') not in ('f_bloc', 'bloc_notna'):
        return False
    e, a = rec.get('expected') or {}, rec.get('actual') or {}
    if e.get('k') != 'series' or a.get('k') != 'series':
        return False
    import json
    pe = sorted(json.dumps([i, v]) for i, v in zip(e['index'], e['vals']))
    pa = sorted(json.dumps([i, v]) for i, v in zip(a['index'], a['vals']))
    return pe == pa and e['dt'] == a['dt'] and e['name'] == a['name']


@classifier
def c03_values_equal_dtype_differs(rec, params):
    case = rec.get('case') or {}
    if case.get('op') not in params.get('ops', []):
        return False
    if params.get('val') and ((case.get('cs') or {}).get('val') or [None])[0] != params['val']:
        return False
    e, a = rec.get('expected') or {}, rec.get('actual') or {}
    return e != a and _canon_res(e) == _canon_res(a)


@classifier
def c03_object_reduction(rec, params):
    case = rec.get('case') or {}
    if case.get('op') not in params.get('ops', []):
        return False
    src = case.get('f') or {}
    return any(c['dt'][0] in ('O', 'U', 'S') for c in src.get('cols', []))


@classifier
def zero_sized_source_error(rec, params):
    cs = (rec.get('case') or {}).get('cs') or {}
    act = rec.get('actual') or {}
    src = cs.get('f')
    if not src or act.get('k') != 'err':
        return False
    return len(src['columns']) == 0 or len(src['index']) == 0


@classifier
def fill_widens_block(rec, params):
    cs = (rec.get('case') or {}).get('cs') or {}
    exp, act = rec.get('expected') or {}, rec.get('actual') or {}
    if cs.get('op') not in ('f_fillna', 'f_fillsided') or exp.get('k') != 'frame' or act.get('k') != 'frame':
        return False
    na = lambda v: v[0] in ('nan', 'none', 'nat')
    loose = lambda vals: [['na'] if na(v) else (['i', v[1]] if v[0] == 'f' and v[2] == 1 else v) for v in vals]
    if exp['index'] != act['index'] or exp['columns'] != act['columns'] or len(exp['cols']) != len(act['cols']):
        return False
    for src, e, a in zip(cs['f']['cols'], exp['cols'], act['cols']):
        if loose(e['vals']) != loose(a['vals']):
            return False
        # a dtype difference is the known widening only on a column in which nothing was filled
        if e['dt'] != a['dt'] and loose(e['vals']) != loose(src['vals']):
            return False
    return True


@classifier
def c15_nonnumeric(rec, params):
    cs = (rec.get('case') or {}).get('cs') or {}
    src = cs.get('f') or {}
    return any(c['dt'][0] in ('O', 'U', 'S', 'M', 'm') for c in src.get('cols', []))


def _kinds(rec):
    cs = (rec.get('case') or {}).get('cs') or {}
    return cs, [c['dt'][0] for c in (cs.get('f') or {}).get('cols', [])]


@classifier
def c15_object_row_dtype(rec, params):
    cs, kinds = _kinds(rec)
    if not ('b' in kinds and any(k != 'b' for k in kinds)):
        return False
    act = rec.get('actual') or {}
    # (a) skipna=False: NaN not propagated by min / max / median through the object path
    if cs.get('op') == 'f_reduce' and not cs.get('skipna') and cs.get('fn') in ('min', 'max', 'median'):
        return True
    # (b) axis 1: var / std / median / mean raise TypeError at Frame level on the object row dtype
    if cs.get('op') == 'f_reduce' and cs.get('axis') == 1 and cs.get('fn') in ('var', 'median', 'mean') and act.get('k') == 'err':
        return True
    # (c) min / max with skipna over the object path raise (AttributeError inside np.nanmin) when a line is all missing
    if cs.get('op') == 'f_reduce' and cs.get('fn') in ('min', 'max') and cs.get('skipna') and act.get('k') == 'err':
        f = cs['f']
        na = lambda v: v[0] in ('nan', 'none', 'nat')
        lines = [c['vals'] for c in f['cols']] if cs['axis'] == 0 else [[c['vals'][i] for c in f['cols']] for i in range(len(f['index']))]
        return any(line and all(na(v) for v in line) for line in lines)
    return False


@classifier
def c15_arg_all_nan_line(rec, params):
    cs, kinds = _kinds(rec)
    act = rec.get('actual') or {}
    if cs.get('op') != 'f_arg' or act.get('k') != 'err':
        return False
    f = cs['f']
    na = lambda v: v[0] in ('nan', 'none', 'nat')
    lines = [c['vals'] for c in f['cols']] if cs['axis'] == 0 else [[c['vals'][i] for c in f['cols']] for i in range(len(f['index']))]
    return any(line and all(na(v) for v in line) for line in lines)


@classifier
def astype_boolean_key(rec, params):
    cs = (rec.get('case') or {}).get('cs') or {}
    act = rec.get('actual') or {}
    if cs.get('op') != 'f_astype' or act.get('k') != 'err':
        return False
    k = cs.get('ck') or []
    if k and k[0] == 'iloc':
        k = k[1]
    return bool(k) and k[0] in ('mask', 'bseries')


@classifier
def c06_reflected_logical(rec, params):
    cs = (rec.get('case') or {}).get('cs') or {}
    act = rec.get('actual') or {}
    return cs.get('op') == 'f_scalar' and cs.get('reflected') and cs.get('fn') in ('and', 'or') and act.get('k') == 'err'


@classifier
def c06_logical_unaligned(rec, params):
    cs = (rec.get('case') or {}).get('cs') or {}
    act = rec.get('actual') or {}
    if cs.get('fn') not in ('and', 'or') or act.get('k') != 'err' or cs.get('op') not in ('s_binop', 'f_binop', 'fs_binop', 'fsT_binop'):
        return False
    import json
    S = lambda ls: {json.dumps(l) for l in ls}
    a, b = cs['a'], cs['b']
    if cs['op'] == 's_binop':
        return S(a['index']) != S(b['index'])
    if cs['op'] == 'f_binop':
        return S(a['index']) != S(b['index']) or S(a['columns']) != S(b['columns'])
    if cs['op'] == 'fsT_binop':
        return S(a['index']) != S(b['index'])
    return S(a['columns']) != S(b['index'])


@classifier
def c06_empty_operand(rec, params):
    cs = (rec.get('case') or {}).get('cs') or {}
    act = rec.get('actual') or {}
    if act.get('k') != 'err' or cs.get('op') not in ('f_binop', 'fs_binop', 'fsT_binop'):
        return False
    a, b = cs['a'], cs['b']
    empty = lambda x: any(len(x.get(k, [0])) == 0 for k in ('index', 'columns') if k in x)
    return empty(a) or empty(b)


@classifier
def c11_empty_aligned_axis(rec, params):
    cs = (rec.get('case') or {}).get('cs') or {}
    act = rec.get('actual') or {}
    if act.get('k') != 'err' or cs.get('op') not in ('f_concat', 'f_concat_items'):
        return False
    import json
    key = 'columns' if cs['axis'] == 0 else 'index'
    sets = [set(json.dumps(l) for l in f[key]) for f in cs['frames']]
    if not sets:
        return False
    want = set.union(*sets) if cs['union'] else set.intersection(*sets)
    return len(want) == 0


@classifier
def c11_empty_input(rec, params):
    cs = (rec.get('case') or {}).get('cs') or {}
    act = rec.get('actual') or {}
    if act.get('k') != 'err' or cs.get('op') not in ('f_concat', 'f_concat_items', 'f_overlay'):
        return False
    return any(len(f['index']) == 0 or len(f['columns']) == 0 for f in cs['frames'])


def _c07_pairs(rec):
    case = rec.get('case') or {}
    act = rec.get('actual') or {}
    return case, list(zip(case.get('supplied') or [], (act.get('stored') or [])))


def _same07(s, t):
    if s == t:
        return True
    num = lambda v: v[0] in ('i', 'f')
    if num(s) and num(t):
        from fractions import Fraction
        q = lambda v: Fraction(v[1], v[2] if v[0] == 'f' else 1)
        return q(s) == q(t)
    na = ('nan', 'none', 'nat')
    if s[0] in na and t[0] in na:
        return True
    if s[0] == 'nan' and t[0] == 'c' and t[1][0] == 'nan':
        return True
    if s[0] in ('i', 'f', 'I') and t[0] == 'c' and t[2] == ['f', 0, 1]:
        return _same07(s, t[1])
    return False


# call sites that hand an iterable of Python values to the same unguarded conversion (util.prepare_iter_for_array / iterable_to_array_1d)
C07_ITERABLE_SITES = ('from_records', 'series_from_list', 'series_from_list_rev', 'frame_from_elements', 'frame_from_element_items', 'frame_from_records_items', 'series_from_items')


@classifier
def c07_big_int_float(rec, params):
    case, pairs = _c07_pairs(rec)
    if not pairs or rec.get('clause') != 'lossy':
        return False
    bad = [(s, t) for s, t in pairs if not _same07(s, t)]
    if case.get('site') in C07_ITERABLE_SITES and \
            any(s[0] in ('f', 'F', 'nan', 'c', 'inf') for s, t in pairs):
        # iterables mixing a big int with a float are protected by prepare_iter_for_array (object dtype):
        # a loss there is NOT the known design decision
        return False
    def big_to_float(s, t):
        if s[0] != 'I':
            return False
        if abs(int(s[1])) <= 2 ** 53:
            return False
        inner = t[1] if t[0] == 'c' else t
        if inner[0] == 'I':
            return float(int(s[1])) == float(int(inner[1]))
        return inner[0] in ('F', 'f') and float(int(s[1])) == (float.fromhex(inner[1]) if inner[0] == 'F' else inner[1] / inner[2])
    return bool(bad) and all(big_to_float(s, t) for s, t in bad)


@classifier
def c07_bytes_iterable(rec, params):
    case, pairs = _c07_pairs(rec)
    if case.get('site') not in C07_ITERABLE_SITES or rec.get('clause') != 'lossy':
        return False
    sup = [s for s, t in pairs]
    sto = [t for s, t in pairs]
    return any(s[0] == 'y' for s in sup) and any(s[0] != 'y' for s in sup) and all(t[0] == 'y' for t in sto)


@classifier
def c07_bytes_element(rec, params):
    case, pairs = _c07_pairs(rec)
    if case.get('site') not in ('assign_elem',) or rec.get('clause') != 'lossy':
        return False
    bad = [(s, t) for s, t in pairs if not _same07(s, t)]
    return bool(bad) and all(s[0] == 'y' and t[0] == 'arr' for s, t in bad)


@classifier
def c09_extend_items_midway(rec, params):
    case = rec.get('case') or {}
    hist = case.get('history') or []
    if not hist:
        return False
    last = hist[-1]
    act = rec.get('actual') or {}
    if last.get('name') != 'extend' or last.get('via') != 'items' or act.get('outcome') != 'failed-midway' or act.get('broken'):
        return False
    before = case.get('objs_before') or (rec.get('expected') or {}).get('objs')
    after = act.get('objs')
    if not before or not after or len(before) != len(after):
        return False
    t = last['target'] - 1
    if before[t]['kind'] != 'frame':
        return False
    for i, (b, a) in enumerate(zip(before, after)):
        if i != t and a != b:
            return False
    cur, new = before[t]['labels'], after[t]['labels']
    k = len(new) - len(cur)
    return new[:len(cur)] == cur and 0 < k < len(last['labels']) and new[len(cur):] == last['labels'][:k]


@classifier
def c01_fresh_writeable(rec, params):
    case = rec.get('case') or {}
    return rec.get('clause') == 'writeable_array_reachable' and case.get('attr') in params.get('attrs', [])


@classifier
def c02_tuple_leaf_iloc(rec, params):
    '''level_add on an index whose labels are tuples: iteration / values / lookup keep the tuple as one leaf label, iloc[i] flattens it'''
    cs = rec.get('case') or {}
    return rec.get('clause') == 'iloc_elements' and cs.get('route') == 'level_add' and bool(cs.get('src')) and all(l[0] == 't' for l in cs['src'])


def _mentions_outside(key, n):
    '''does a label key name an integer label outside 0..n-1'''
    if not key:
        return False
    def out(l):
        return l and l[0] == 'i' and not (0 <= l[1] < n)
    k = key[0]
    if k == 'loc':
        return out(key[1])
    if k == 'loclist':
        return any(out(l) for l in key[1])
    if k == 'locslice':
        return out(key[1]) or out(key[2])
    return False


@classifier
def c04_auto_index_passthrough(rec, params):
    '''an auto-integer (map-less) index hands integer label keys to positional selection unchecked: an absent negative label,
    or a slice bound past the end, selects by position instead of raising the lookup error'''
    cs = (rec.get('case') or {}).get('cs') or {}
    exp = rec.get('expected') or {}
    if not isinstance(exp, dict) or exp.get('k') != 'err' or exp.get('cat') != 'lookup':
        return False
    c = cs.get('f') or cs.get('s') or {}
    if c.get('index_auto') and _mentions_outside(cs.get('rk'), len(c['index'])):
        return True
    if c.get('columns_auto') and _mentions_outside(cs.get('ck'), len(c['columns'])):
        return True
    return False


def _tree_ordered(rows):
    rows = [tuple(map(str, r)) for r in rows]
    d = len(rows[0]) if rows else 0
    for depth in range(1, d + 1):
        seen, last = set(), None
        for r in rows:
            p = r[:depth]
            if p != last:
                if p in seen:
                    return False
                seen.add(p)
                last = p
    return True


def _col(f, lab):
    return f['cols'][[str(c) for c in f['columns']].index(str(lab))]['vals']


@classifier
def c20_pivot_singleton_func(rec, params):
    '''pivot does not call the aggregation function on a group of one source row: the cell holds the row's value (pivot.py: len(values) == 1;
    frame.py: "assume no aggregation necessary"), so a function with f([x]) != x (count, range, ...) gives a different cell there'''
    cs = (rec.get('case') or {}).get('cs') or {}
    exp, act = rec.get('expected') or {}, rec.get('actual') or {}
    if rec.get('clause') != 'pivot_cells' or cs.get('op') != 'pivot' or exp.get('k') != 'pivot' or act.get('k') != 'pivot':
        return False
    f = cs['f']
    n = len(f['index'])
    differing = 0
    for r, rk in enumerate(act['rows']):
        er = exp['rows'].index(rk)
        for c, ck in enumerate(act['cols']):
            ec = exp['cols'].index(ck)
            if act['cells'][r][c] == exp['cells'][er][ec]:
                continue
            differing += 1
            src = [i for i in range(n) if [_col(f, l)[i] for l in cs['ixf']] == rk and (not cs['colf'] or [_col(f, l)[i] for l in cs['colf']] == ck[0])]
            if len(src) != 1 or act['cells'][r][c] != _col(f, ck[1])[src[0]]:
                return False
    return differing > 0


@classifier
def c20_pivot_mixed_index_fields(rec, params):
    '''pivot with two or more index fields of different dtypes builds its IndexHierarchy from the distinct tuples in first-seen order and fails
    (ErrorInitIndex: invalid tree-form) when that order is not a tree'''
    cs = (rec.get('case') or {}).get('cs') or {}
    exp, act = rec.get('expected') or {}, rec.get('actual') or {}
    if cs.get('op') != 'pivot' or act.get('k') != 'err' or act.get('cat') != 'init' or exp.get('k') != 'pivot' or len(cs['ixf']) < 2:
        return False
    f = cs['f']
    kinds = {_col(f, l)[0][0] for l in cs['ixf'] if _col(f, l)}
    if len(kinds) < 2:
        return False
    rows = []
    for i in range(len(f['index'])):
        t = [_col(f, l)[i] for l in cs['ixf']]
        if t not in rows:
            rows.append(t)
    return not _tree_ordered(rows)


@classifier
def c20_join_without_composite_index(rec, params):
    '''joins with composite_index=False on keys other than the two indices: the result is indexed by the preserved side's labels and the other
    side is aligned BY LABEL to it, so matched rows get the fill value (right / outer) or a matched right row is repeated as unmatched (outer)'''
    cs = (rec.get('case') or {}).get('cs') or {}
    act = rec.get('actual') or {}
    if cs.get('op') != 'join' or cs.get('composite') or act.get('k') != 'join':
        return False
    both_index = cs['lk']['depth'] and cs['rk']['depth'] and not cs['lk']['cols'] and not cs['rk']['cols']
    return not both_index


@classifier
def c07_bool_in_iterable(rec, params):
    '''an iterable of Python values mixing Booleans with numbers is handed to NumPy, which casts the Booleans to the numeric dtype (True -> 1 / 1.0);
    the numbers themselves are stored unchanged.  Pinned by the repository's own test_frame_display_a (Frame.from_records(((1, 2), (True, False))) is int64).'''
    case, pairs = _c07_pairs(rec)
    if case.get('site') not in C07_ITERABLE_SITES or rec.get('clause') != 'lossy':
        return False
    bad = [(s, t) for s, t in pairs if not _same07(s, t)]
    def bool_to_number(s, t):
        if s[0] != 'b':
            return False
        inner = t[1] if t[0] == 'c' else t
        return inner[0] in ('i', 'f') and inner[1] == s[1] and (inner[0] == 'i' or inner[2] == 1)
    def big_with_bool(s, t):
        # with a Boolean in the iterable NumPy falls back to float64 for ints beyond int64: the big int becomes the nearest float
        if s[0] != 'I' or not any(x[0] == 'b' for x, _ in pairs) or any(x[0] in ('f', 'F', 'c') for x, _ in pairs):
            return False
        return t[0] == 'I' and float(int(s[1])) == float(int(t[1]))
    return bool(bad) and all(bool_to_number(s, t) or big_with_bool(s, t) for s, t in bad)


@classifier
def c18_iter_tuple_processes(rec, params):
    '''iter_tuple / iter_tuple_items through a process pool: the per-call namedtuple class ("Axis") cannot be pickled, every such call raises PicklingError'''
    case = rec.get('case') or {}
    return rec.get('clause') == 'spurious_error' and str(case.get('iface', '')).startswith('Frame.iter_tuple') and case.get('pool') == 'processes'


def _resolve_iloc(key, n):
    k = key[0]
    if k == 'all':
        return list(range(n))
    if k == 'int':
        p = key[1] + n if key[1] < 0 else key[1]
        return [p] if 0 <= p < n else None
    if k == 'slice':
        c = lambda x: None if x[0] == 'none' else x[1]
        return list(range(n))[slice(c(key[1]), c(key[2]), c(key[3]))]
    if k == 'list':
        out = []
        for p in key[1]:
            p = p + n if p < 0 else p
            if not 0 <= p < n:
                return None
            out.append(p)
        return out
    if k == 'mask':
        return [i for i, b in enumerate(key[1]) if b] if len(key[1]) == n else None
    return None


def _resolve_loc(key, labels):
    k = key[0]
    n = len(labels)
    if k == 'all':
        return list(range(n))
    if k == 'iloc':
        return _resolve_iloc(key[1], n)
    if k == 'mask':
        return _resolve_iloc(key, n)
    if k == 'loc':
        return [labels.index(key[1])] if key[1] in labels else None
    if k == 'loclist':
        return [labels.index(x) for x in key[1]] if all(x in labels for x in key[1]) else None
    if k == 'locslice':
        a = 0 if key[1][0] == 'none' else (labels.index(key[1]) if key[1] in labels else None)
        b = n - 1 if key[2][0] == 'none' else (labels.index(key[2]) if key[2] in labels else None)
        if a is None or b is None:
            return None
        st = 1 if key[3][0] == 'none' else key[3][1]
        return list(range(a, b + 1, st)) if st > 0 else None
    return None


def _quilt_positions(cs):
    '''resolved 0-based positions of a Quilt call on (the Quilt axis, the opposite axis), the member of every axis position'''
    q = cs['q']
    along, owner = [], []
    for m, mem in enumerate(q['members']):
        for lab in (mem['f']['index'] if q['axis'] == 0 else mem['f']['columns']):
            along.append(['t', [mem['label'], lab]] if q['retain'] else lab)
            owner.append(m)
    opp = q['members'][0]['f']['columns'] if q['axis'] == 0 else q['members'][0]['f']['index']
    rows, cols = (along, opp) if q['axis'] == 0 else (opp, along)
    op = cs['op']
    if op == 'q_iloc':
        r, c = _resolve_iloc(cs['rk'], len(rows)), _resolve_iloc(cs['ck'], len(cols))
    elif op == 'q_loc':
        r, c = _resolve_loc(cs['rk'], rows), _resolve_loc(cs['ck'], cols)
    elif op == 'q_getitem':
        r, c = list(range(len(rows))), _resolve_loc(cs['ck'], cols)
    elif op == 'q_head':
        r, c = list(range(len(rows)))[:cs['count']], list(range(len(cols)))
    else:
        return None
    if r is None or c is None:
        return None
    return ((r, c) if q['axis'] == 0 else (c, r)), owner


def _member_grouped(ps, owner):
    if len(set(ps)) != len(ps):
        return False
    seen = []
    for i, p in enumerate(ps):
        m = owner[p]
        if seen and seen[-1] != m and m in seen:
            return False
        if not seen or seen[-1] != m:
            seen.append(m)
        elif ps[i - 1] > p:
            return False
    return True


@classifier
def c19_quilt_key_order(rec, params):
    '''Quilt._extract turns the key on the Quilt axis into a Boolean selection: positions come back grouped by member Frame (members in order of first
    appearance in the key) and ascending inside each member, so descending slices, lists that interleave members or go backwards inside a member, and
    repeated positions do not give what the concatenated Frame gives'''
    cs = (rec.get('case') or {}).get('cs') or {}
    if not str(cs.get('op', '')).startswith('q_'):
        return False
    r = _quilt_positions(cs)
    if r is None:
        return False
    (ax, _), owner = r
    return len(ax) > 0 and not _member_grouped(ax, owner)


@classifier
def c19_quilt_empty_selection(rec, params):
    '''a Quilt selection that selects nothing on either axis raises (UnboundLocalError: component_is_series, or ErrorInitFrame from concatenating empty
    parts) instead of returning the empty Frame / Series'''
    cs = (rec.get('case') or {}).get('cs') or {}
    act = rec.get('actual') or {}
    if not str(cs.get('op', '')).startswith('q_') or not isinstance(act, dict) or act.get('k') != 'err':
        return False
    r = _quilt_positions(cs)
    if r is None:
        return False
    (ax, opp), owner = r
    return len(ax) == 0 or len(opp) == 0


@classifier
def c19_batch_zero_sized(rec, params):
    '''a Batch chain in which some label's Frame becomes zero-sized (no rows or no columns): the following step raises ErrorInitFrame / ErrorInitTypeBlocks
    on that Frame (the zero-sized Frame defects recorded under C04 / C14), so the Batch raises instead of yielding the empty result'''
    exp, act = rec.get('expected'), rec.get('actual')
    if not str(rec.get('clause', '')).startswith('batch') or not isinstance(exp, list) or not isinstance(act, list):
        return False
    if not (len(act) == 1 and act[0][0] == ['s', 'ERROR'] and act[0][1].get('cat') == 'init'):
        return False
    def empty(x):
        return x.get('k') == 'frame' and (len(x['index']) == 0 or len(x['columns']) == 0)
    return any(empty(item[1]) for item in exp)


@classifier
def c16_loss_class(rec, params):
    '''the trace specification names the loss class of a delimited round trip that does not reproduce the table (SFDelim: LossTabQuoting,
    LossEdgeBlank, LossBlankCell, LossNumpyUpgrade); each known finding covers exactly one class'''
    return rec.get('clause') == params.get('clause')


@classifier
def c03_object_resolved_all_nan(rec, params):
    '''a reduction with skipna over a Frame whose dtypes resolve to object (Boolean columns next to numeric ones): every block is cast to object first;
    NumPy's nanmin / nanmax on a 1-D object array that is entirely NaN raises AttributeError ('float' object has no attribute 'dtype'), on the same
    column held in a 2-D block it returns NaN'''
    case = rec.get('case') or {}
    if case.get('op') not in params.get('ops', []):
        return False
    cols = (case.get('f') or {}).get('cols', [])
    kinds = {c['dt'][0] for c in cols}
    if not ('b' in kinds and kinds & {'i', 'f'}):
        return False
    all_nan = any(c['dt'][0] == 'f' and c['vals'] and all(v[0] == 'nan' for v in c['vals']) for c in cols)
    sides = [rec.get('actual') or {}, rec.get('expected') or {}]
    return all_nan and any(x.get('k') == 'err' and 'AttributeError' in str(x.get('cat')) for x in sides if isinstance(x, dict))


@classifier
def c03_grown_row_dtype(rec, params):
    '''the dedicated probe of the C03 check: a FrameGO grown by appending a column of another dtype reads its rows as object'''
    case = rec.get('case') or {}
    a = rec.get('actual') or {}
    return case.get('probe') == 'grown_row_dtype' and a.get('grown_values_dtype') == ['O', 0] and a.get('columns_equal') is True


@classifier
def c07_number_in_iterable_with_timedelta(rec, params):
    '''an iterable of Python values mixing a timedelta64 with Booleans / ints is handed to NumPy unguarded, which reads the numbers as durations'''
    case, pairs = _c07_pairs(rec)
    if case.get('site') not in C07_ITERABLE_SITES or rec.get('clause') != 'lossy':
        return False
    if not any(s[0] in ('m', 'mz') for s, _ in pairs):
        return False
    bad = [(s, t) for s, t in pairs if not _same07(s, t)]
    return bool(bad) and all(s[0] in ('b', 'i', 'I') and t[0] in ('m', 'mz') for s, t in bad)

