------------------------------- MODULE SFUpdate -------------------------------
(* Functional update interfaces (C08): assign / drop / mask / astype / relabel / rename / insert.            *)
(* Each returns a NEW container; the source is an unchanged value of the model by construction, and the     *)
(* conformance legs compare the real source before and after every call.                                    *)
EXTENDS SFFrame

(* ---- values that can be assigned ---------------------------------------------------------------------- *)
(* <<"elem", v>>   <<"series", labels, vals, dt>>   <<"arr1", vals, dt>>   <<"frame", [index, columns, cols]>>  *)
ElemDtype(v) == IF Tag(v) = "s" THEN <<"U", Len(v[2])>> ELSE DtypeFromElement(v)

(* a labelled Series value re-indexed to the target labels with NaN where it lacks a label *)
ReindexedVals(val, target) == [i \in 1..Len(target) |-> LET p == Find(val[2], target[i]) IN IF p < 0 THEN NaN ELSE At(val[3], p)]
ReindexedDtype(val, target) == IF (Len(target) > 0 \/ Len(val[2]) = 0) /\ \A i \in 1..Len(target) : Member(val[2], target[i]) THEN val[4] ELSE Resolve(val[4], DtF64)          \* an empty value re-indexed to an empty target is itself

(* Series.assign *)
SeriesAssign(s, r, val) ==
  IF r.err THEN Err("lookup")
  ELSE LET n == Len(s.index)
           target == Take(s.index, r.ps)
           vdt == CASE val[1] = "elem" -> ElemDtype(val[2])
                    [] val[1] = "series" -> ReindexedDtype(val, target)
                    [] val[1] = "arr1" -> val[3]
           avals == CASE val[1] = "elem" -> [i \in 1..Len(r.ps) |-> val[2]]
                      [] val[1] = "series" -> CastSeq(ReindexedVals(val, target), vdt)
                      [] val[1] = "arr1" -> val[2]
           dt == Resolve(s.dt, vdt)
       IN IF val[1] = "arr1" /\ Len(val[2]) # Len(r.ps) THEN Err("value")
          ELSE IF val[1] = "series" /\ ~r.multi THEN Err("runtime")
          ELSE IF val[1] = "series" /\ Dups(r) THEN Err("init_nonunique")
          ELSE MkSeries(s.index,
                 [i \in 1..n |-> LET k == Find(r.ps, i - 1) IN Cast(IF k >= 0 THEN At(avals, k) ELSE s.vals[i], dt)],
                 dt, s.name)

(* Frame.assign: rows r, columns c (both resolved); the columns addressed take Resolve(old dtype, value dtype) *)
(* full = the row key is the null slice: the addressed columns are replaced wholesale and take the value's dtype *)
FrameAssign(f, r, c, val, full) ==
  IF c.err THEN Err("lookup")
  ELSE IF Len(c.ps) = 0 /\ c.multi THEN AsFrame(f)
  ELSE IF ~r.err /\ Len(r.ps) = 0 /\ val[1] = "frame" THEN AsFrame(f)   \* as built: no column addressed, the row key is never looked at
  ELSE IF r.err /\ val[1] = "elem" THEN Err("lookup")
  ELSE IF Dups(c) THEN Unspecified             \* a column key repeating a position: outside the model
  ELSE
  LET rows == r.ps
      csel == c.ps
      rlabels == Take(f.index, rows)
      clabels == Take(f.columns, csel)
      kind == val[1]
      shapeOK == CASE kind = "elem" -> TRUE
                   [] kind = "series" -> (r.multi /\ ~c.multi) \/ (~r.multi /\ c.multi)
                   [] kind = "arr1" -> ((r.multi /\ ~c.multi) /\ Len(val[2]) = Len(rows)) \/ ((~r.multi /\ c.multi) /\ Len(val[2]) = Len(csel))
                   [] kind = "frame" -> r.multi /\ c.multi
      alongRows == r.multi /\ ~c.multi          \* the value runs down one column
      target == IF alongRows THEN rlabels ELSE clabels
      sdt == IF kind = "series" THEN ReindexedDtype(val, target) ELSE DtO
      svals == IF kind = "series" THEN CastSeq(ReindexedVals(val, target), sdt) ELSE <<>>
      (* Frame value re-indexed on both axes with NaN *)
      FCol(cl) == Find(val[2].columns, cl)
      FValDt(cl) == LET p == FCol(cl) IN
                    IF p < 0 THEN DtF64
                    ELSE IF \A i \in 1..Len(rlabels) : Member(val[2].index, rlabels[i]) THEN At(val[2].cols, p).dt
                    ELSE Resolve(At(val[2].cols, p).dt, DtF64)
      FValAt(rl, cl) == LET p == FCol(cl)  q == Find(val[2].index, rl) IN
                        IF p < 0 \/ q < 0 THEN NaN ELSE Cast(At(At(val[2].cols, p).vals, q), FValDt(cl))
      ValDt(j) == CASE kind = "elem" -> ElemDtype(val[2])
                    [] kind = "series" -> sdt
                    [] kind = "arr1" -> val[3]
                    [] kind = "frame" -> FValDt(At(f.columns, j))
      ValAt(i, j) == CASE kind = "elem" -> val[2]
                       [] kind = "series" -> IF alongRows THEN At(svals, Find(rows, i)) ELSE At(svals, Find(csel, j))
                       [] kind = "arr1" -> IF alongRows THEN At(val[2], Find(rows, i)) ELSE At(val[2], Find(csel, j))
                       [] kind = "frame" -> FValAt(At(f.index, i), At(f.columns, j))
      (* a Frame value sharing no row label or no column label with the addressed region: outside the model *)
      disjoint == kind = "frame" /\ (~(\E i \in 1..Len(rlabels) : Member(val[2].index, rlabels[i])) \/ ~(\E j \in 1..Len(clabels) : Member(val[2].columns, clabels[j])))
  IN IF ~shapeOK THEN Err("runtime")
     ELSE IF kind = "series" /\ Len(val[2]) = 0 THEN Unspecified        \* an empty labelled value: outside the model
     ELSE IF disjoint /\ ~r.err THEN Unspecified
     ELSE IF r.err THEN Err("lookup")
     ELSE IF kind \in {"series", "frame"} /\ Dups(r) THEN Err("init_nonunique")    \* the value is re-indexed onto the addressed labels
     ELSE MkFrame(f.index, f.columns,
            [j \in 1..NCols(f) |->
               IF ~Member(csel, j - 1) THEN f.cols[j]
               ELSE LET dt == IF full THEN ValDt(j - 1) ELSE Resolve(f.cols[j].dt, ValDt(j - 1)) IN
                    [dt |-> dt, vals |-> [i \in 1..NRows(f) |-> Cast(IF Member(rows, i - 1) THEN ValAt(i - 1, j - 1) ELSE f.cols[j].vals[i], dt)]]],
            f.name)

(* Frame-valued assignment: as built, the dtype an addressed column ends up with depends on the block layout   *)
(* of the target (recorded under C03); C08 constrains the cells, so these results are compared dtype-free.      *)
CanonVal(v) == IF Tag(v) = "f" /\ v[3] = 1 THEN <<"i", v[2]>> ELSE v
LooseFrame(r) == IF r.k # "frame" THEN r
                 ELSE MkFrame(r.index, r.columns, [j \in 1..Len(r.cols) |-> [dt |-> <<"any", 0>>, vals |-> [i \in 1..Len(r.cols[j].vals) |-> CanonVal(r.cols[j].vals[i])]]], r.name)

(* assign.bloc with an element: exactly the True cells *)
FrameAssignBlocElem(f, mask, v) ==
  MkFrame(f.index, f.columns,
    [j \in 1..NCols(f) |->
       IF ~\E i \in 1..NRows(f) : mask[i][j] THEN f.cols[j]
       ELSE LET dt == Resolve(f.cols[j].dt, ElemDtype(v)) IN
            [dt |-> dt, vals |-> [i \in 1..NRows(f) |-> Cast(IF mask[i][j] THEN v ELSE f.cols[j].vals[i], dt)]]],
    f.name)

(* ---- mask (Series) ------------------------------------------------------------------------------------- *)
SeriesMaskResolved(s, r) ==
  IF r.err THEN Err("lookup")
  ELSE MkSeries(s.index, [i \in 1..Len(s.index) |-> B(Member(r.ps, i - 1))], DtB, s.name)

(* ---- astype ---------------------------------------------------------------------------------------------- *)
(* conversions that are defined for every value of the source kind                                            *)
AstypeVal(v, to) ==
  CASE Kind(to) = "O" -> v
    [] Kind(to) = "f" /\ Tag(v) \in {"i", "b"} -> <<"f", v[2], 1>>
    [] Kind(to) = "i" /\ Tag(v) = "b" -> <<"i", v[2]>>
    [] Kind(to) = "b" /\ Tag(v) = "i" -> <<"b", IF v[2] = 0 THEN 0 ELSE 1>>
    [] OTHER -> v
AstypeCol(col, to) == [dt |-> to, vals |-> [i \in 1..Len(col.vals) |-> AstypeVal(col.vals[i], to)]]
FrameAstype(f, c, to) ==
  IF c.err THEN Err("lookup")
  ELSE IF Dups(c) THEN Unspecified
  ELSE MkFrame(f.index, f.columns, [j \in 1..NCols(f) |-> IF Member(c.ps, j - 1) THEN AstypeCol(f.cols[j], to) ELSE f.cols[j]], f.name)
SeriesAstype(s, to) == LET c == AstypeCol([dt |-> s.dt, vals |-> s.vals], to) IN MkSeries(s.index, c.vals, to, s.name)

(* ---- relabel / rename ------------------------------------------------------------------------------------ *)
(* new labels given explicitly (a sequence of the right length), or as a mapping applied to the old labels      *)
MapLabel(m, l) == LET p == Find(m[1], l) IN IF p < 0 THEN l ELSE At(m[2], p)      \* m = <<from labels, to labels>>
NewLabels(spec, old) ==
  CASE spec[1] = "keep" -> old
    [] spec[1] = "seq" -> spec[2]
    [] spec[1] = "map" -> [i \in 1..Len(old) |-> MapLabel(<<spec[2], spec[3]>>, old[i])]
LabelsOK(spec, old) == LET nl == NewLabels(spec, old) IN Len(nl) = Len(old) /\ Unique(nl)
FrameRelabel(f, ispec, cspec) ==
  IF ~(Len(NewLabels(ispec, f.index)) = Len(f.index) /\ Len(NewLabels(cspec, f.columns)) = Len(f.columns)) THEN Err("init")
  ELSE IF ~LabelsOK(ispec, f.index) \/ ~LabelsOK(cspec, f.columns) THEN Err("init_nonunique")
  ELSE MkFrame(NewLabels(ispec, f.index), NewLabels(cspec, f.columns), f.cols, f.name)
SeriesRelabel(s, ispec) ==
  IF Len(NewLabels(ispec, s.index)) # Len(s.index) THEN Err("init")
  ELSE IF ~LabelsOK(ispec, s.index) THEN Err("init_nonunique")
  ELSE MkSeries(NewLabels(ispec, s.index), s.vals, s.dt, s.name)
FrameRename(f, name) == MkFrame(f.index, f.columns, f.cols, name)
SeriesRename(s, name) == MkSeries(s.index, s.vals, s.dt, name)

(* ---- insert ------------------------------------------------------------------------------------------------ *)
(* Frame.insert_before / insert_after(key, container): the container's columns are placed before / after the   *)
(* column labelled key; a Series contributes one column labelled by its name; rows must align exactly.          *)
SpliceAt(seq, pos, new) == SubSeq(seq, 1, pos) \o new \o SubSeq(seq, pos + 1, Len(seq))    \* pos = number of items kept in front
(* the key of an insert: a label, or <<"iloc", k>> - a position, negative ones counting from the end (ILoc[-1] is the last) *)
InsertPos(labels, key) == IF key[1] = "iloc" THEN NormPos(key[2], Len(labels)) ELSE Find(labels, key)
FrameInsert(f, key, after, ins) ==
  LET p == InsertPos(f.columns, key) IN
  IF p < 0 THEN Err("lookup")
  ELSE LET pos == IF after THEN p + 1 ELSE p
           ncolumns == SpliceAt(f.columns, pos, ins.columns)
       IN IF ins.index # f.index THEN Err("runtime")
          ELSE IF ~Unique(ncolumns) THEN Err("init_nonunique")
          ELSE MkFrame(f.index, ncolumns, SpliceAt(f.cols, pos, ins.cols), f.name)
SeriesInsert(s, key, after, ins) ==
  LET p == InsertPos(s.index, key) IN
  IF p < 0 THEN Err("lookup")
  ELSE LET pos == IF after THEN p + 1 ELSE p
           nindex == SpliceAt(s.index, pos, ins.index)
           dt == IF Len(ins.index) = 0 THEN s.dt ELSE IF Len(s.index) = 0 THEN ins.dt ELSE Resolve(s.dt, ins.dt)
       IN IF ~Unique(nindex) THEN Err("init_nonunique")
          ELSE MkSeries(nindex, CastSeq(SpliceAt(s.vals, pos, ins.vals), dt), dt, s.name)
=============================================================================
