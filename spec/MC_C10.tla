------------------------------- MODULE MC_C10 -------------------------------
(* Small-scope instance for equals (C10): all pairs and triples of one-column containers of length N over         *)
(* {0, 1, 1.0, NaN, None} with dtype and name variants.  The content predicate is an equivalence; the as-built     *)
(* block comparison (== plus the both-missing mask) refines it; with MaskBug (left mask combined with itself, the   *)
(* defect repaired on this tree) symmetry fails -- the negative control.                                           *)
EXTENDS SFEquals
CONSTANTS N, MaskBug
VARIABLES cs, res
vars == <<cs, res>>
Cells == {<<"i", 0>>, <<"i", 1>>, <<"f", 1, 1>>, NaN, None}
Cols == {[dt |-> dt, vals |-> v] : dt \in {DtI64, DtF64, DtO}, v \in [1..N -> Cells]}
OkCol(c) == \A i \in 1..N : (Kind(c.dt) = "i" => Tag(c.vals[i]) = "i") /\ (Kind(c.dt) = "f" => Tag(c.vals[i]) \in {"f", "nan"})
Pending == [k |-> "pending"]
Mk(c, name) == [kind |-> "series", cls |-> "Series", name |-> name, index |-> [i \in 1..N |-> <<"i", i>>], dt |-> c.dt, vals |-> c.vals]
Init == /\ \E a \in Cols, b \in Cols, sk \in BOOLEAN, cd \in BOOLEAN : OkCol(a) /\ OkCol(b) /\
              cs = [a |-> Mk(a, None), b |-> Mk(b, None), opts |-> [name |-> FALSE, dtype |-> cd, class |-> FALSE, skipna |-> sk]]
        /\ res = Pending
Call == res.k = "pending" /\ res' = [k |-> "bool", ab |-> Equals(cs.a, cs.b, cs.opts), ba |-> Equals(cs.b, cs.a, cs.opts)] /\ UNCHANGED cs
Next == Call
Spec == Init /\ [][Next]_vars
Symmetric == Equals(cs.a, cs.b, cs.opts) = Equals(cs.b, cs.a, cs.opts)
Reflexive == cs.opts.skipna => Equals(cs.a, cs.a, cs.opts)
Transitive == \A c \in Cols : OkCol(c) => ((Equals(cs.a, cs.b, cs.opts) /\ Equals(cs.b, Mk(c, None), cs.opts)) => Equals(cs.a, Mk(c, None), cs.opts))
AsBuiltRefines == BlocksEqualsAsBuilt(<<[dt |-> cs.a.dt, vals |-> cs.a.vals]>>, <<[dt |-> cs.b.dt, vals |-> cs.b.vals]>>, cs.opts.skipna, MaskBug)
                    = SeqEq(cs.a.vals, cs.b.vals, cs.opts.skipna)
AsBuiltSymmetric == BlocksEqualsAsBuilt(<<[dt |-> cs.a.dt, vals |-> cs.a.vals]>>, <<[dt |-> cs.b.dt, vals |-> cs.b.vals]>>, cs.opts.skipna, MaskBug)
                    = BlocksEqualsAsBuilt(<<[dt |-> cs.b.dt, vals |-> cs.b.vals]>>, <<[dt |-> cs.a.dt, vals |-> cs.a.vals]>>, cs.opts.skipna, MaskBug)
=============================================================================
