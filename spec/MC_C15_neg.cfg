INIT Init
NEXT Next
CONSTANT NR = 1
CONSTANT NC = 3
INVARIANT TwoStageSoundForAll
CHECK_DEADLOCK FALSE
