INIT Init
NEXT Next
CONSTANT NR = 1
CONSTANT NC = 3
CONSTANT WithBool = FALSE
INVARIANT TwoStageSoundForAll
CHECK_DEADLOCK FALSE
