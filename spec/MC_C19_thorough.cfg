INIT Init
NEXT Next
CONSTANT Sizes <- SizesThorough
INVARIANT WellFormedQ
INVARIANT MaskExtractionIsSelection
INVARIANT MemberGroupedIsSelection
INVARIANT TranslationCovers
CHECK_DEADLOCK FALSE
