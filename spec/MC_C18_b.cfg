SPECIFICATION Spec
CONSTANT N = 5
CONSTANT W = 3
CONSTANT C = 2
CONSTANT Fails = {}
CONSTANT Eager = TRUE
INVARIANT InvPaired
INVARIANT InvComplete
INVARIANT InvError
INVARIANT InvNoLater
PROPERTY Terminates
CHECK_DEADLOCK FALSE
