------------------------------ MODULE Trace_C04D ------------------------------
(* Trace validation for selection on datetime-typed indices (C04): each event is one selection through a real          *)
(* IndexDate / IndexYearMonth (static, grow-only, or grow-only with an append still pending in the caches), on a        *)
(* Series, a Frame axis or the index itself, with the key given as a string, date object or datetime64.                  *)
EXTENDS SFDate, Json, IOUtils
Trace == ndJsonDeserialize(IOEnv.TRACE_FILE)
VARIABLE l
Verdict(ev) ==
  LET r == DateResolve(ev.labels, ev.unit, ev.key) IN
  IF ~DateKeySpecified(ev.labels, ev.unit, ev.key) THEN "ok"
  ELSE IF r.err THEN (IF ev.res.k = "err" /\ ev.res.cat = "lookup" THEN "ok" ELSE "absent_label_not_rejected")
  ELSE IF r.multi /\ ~Unique(r.ps) /\ ev.container # "index" THEN (IF ev.res.k = "err" THEN "ok" ELSE "repeated_label_not_rejected")
  ELSE IF ~r.multi THEN (IF ev.res.k = "elem" /\ ev.res.p = r.ps[1] THEN "ok" ELSE "element")
  ELSE IF ev.res.k = "positions" /\ ev.res.ps = r.ps THEN "ok" ELSE "positions"
Expected(ev) == LET r == DateResolve(ev.labels, ev.unit, ev.key) IN IF r.err THEN <<"err">> ELSE r.ps
Init == l = 1
Next == /\ l <= Len(Trace)
        /\ l' = l + 1
        /\ LET v == Verdict(Trace[l]) IN v = "ok" \/ PrintT(<<"VERDICT", Trace[l].id, v, Expected(Trace[l])>>)
Post == PrintT(<<"DONE", TLCGet("stats").diameter - 1>>)
=============================================================================
