------------------------------- MODULE SFFrame -------------------------------
(* Column-level (block-layout free) model of Series and Frame: a Frame is a sequence of row labels, a      *)
(* sequence of column labels and one [dt, vals] column per column label.  Every public operation is given  *)
(* ONE meaning here; the block-level algorithms of SFBlocks must refine it for every layout, and the real   *)
(* containers must conform to it for every layout (conformance legs R and V).                              *)
EXTENDS SFValue, SFSeq

(* ---- containers ---------------------------------------------------------------------------------------- *)
NRows(f) == Len(f.index)
NCols(f) == Len(f.columns)
WellFormed(f) == /\ Len(f.cols) = NCols(f)
                 /\ \A j \in 1..Len(f.cols) : Len(f.cols[j].vals) = NRows(f)
                 /\ Unique(f.index) /\ Unique(f.columns)
Dtypes(f) == [j \in 1..Len(f.cols) |-> f.cols[j].dt]
Cell(f, r, c) == At(At(f.cols, c).vals, r)          \* 0-based row r, column c

Err(cat) == [k |-> "err", cat |-> cat]
Unspecified == [k |-> "unspecified"]      \* the specification deliberately says nothing about this call
Elem(v) == [k |-> "elem", v |-> v]
MkSeries(index, vals, dt, name) == [k |-> "series", index |-> index, vals |-> vals, dt |-> dt, name |-> name]
MkFrame(index, columns, cols, name) == [k |-> "frame", index |-> index, columns |-> columns, cols |-> cols, name |-> name]
AsFrame(f) == MkFrame(f.index, f.columns, f.cols, f.name)
AsSeries(s) == MkSeries(s.index, s.vals, s.dt, s.name)

(* ---- positional keys -----------------------------------------------------------------------------------  *)
(* <<"all">>  <<"int",p>>  <<"slice",start,stop,step>>  <<"list",<<p,...>>>>  <<"mask",<<BOOLEAN,...>>>>      *)
(* resolved to [multi, ps, err]                                                                             *)
KAll == <<"all">>
Resolved(multi, ps) == [multi |-> multi, ps |-> ps, err |-> FALSE]
Unresolved == [multi |-> TRUE, ps |-> <<>>, err |-> TRUE]

IlocResolve(key, n) ==
  CASE key[1] = "all" -> Resolved(TRUE, SeqRange(n))
    [] key[1] = "int" -> LET p == NormPos(key[2], n) IN IF p < 0 THEN [Unresolved EXCEPT !.multi = FALSE] ELSE Resolved(FALSE, <<p>>)
    [] key[1] = "slice" -> Resolved(TRUE, PySlice(key[2], key[3], key[4], n))
    [] key[1] = "list" -> LET ps == [i \in 1..Len(key[2]) |-> NormPos(key[2][i], n)] IN
                          IF \E i \in 1..Len(ps) : ps[i] < 0 THEN Unresolved ELSE Resolved(TRUE, ps)
    [] key[1] = "mask" -> IF Len(key[2]) # n THEN Unresolved ELSE Resolved(TRUE, Positions(key[2]))
    [] key[1] = "nokey" -> Resolved(TRUE, <<>>)
    [] OTHER -> Unresolved

(* ---- label keys ----------------------------------------------------------------------------------------  *)
(* <<"all">> <<"loc",label>> <<"locslice",a,b,step>> (a, b: label or SNone; step SNone or int)               *)
(* <<"loclist",<<label,...>>>> <<"mask",...>> <<"bseries",<<labels>>,<<BOOLEAN>>>> <<"iloc",ilockey>>        *)
(* The REQUIRED meaning of a label slice: every label from a through b inclusive, in index order, taking     *)
(* every |step|-th; for a negative step from a down to b inclusive.                                          *)
LabelSliceRequired(labels, a, b, step) ==
  LET n == Len(labels)
      st == IF IsSNone(step) THEN 1 ELSE SVal(step)
      pa == IF IsSNone(a) THEN (IF st > 0 THEN 0 ELSE n - 1) ELSE Find(labels, a)
      pb == IF IsSNone(b) THEN (IF st > 0 THEN n - 1 ELSE 0) ELSE Find(labels, b)
  IN IF pa < 0 \/ pb < 0 THEN (IF n = 0 /\ IsSNone(a) /\ IsSNone(b) THEN Resolved(TRUE, <<>>) ELSE Unresolved)
     ELSE Resolved(TRUE, IF st > 0 THEN RangeSeq(pa, pb + 1, st) ELSE RangeSeq(pa, pb - 1, st))

(* The AS-BUILT translation (LocMap.map_slice_args): positions of the labels, stop + 1, then a Python slice. *)
LabelSliceAsBuilt(labels, a, b, step) ==
  LET n == Len(labels)
      pa == IF IsSNone(a) THEN -1 ELSE Find(labels, a)
      pb == IF IsSNone(b) THEN -1 ELSE Find(labels, b)
  IN IF (~IsSNone(a) /\ pa < 0) \/ (~IsSNone(b) /\ pb < 0) THEN Unresolved
     ELSE Resolved(TRUE, PySlice(IF IsSNone(a) THEN SNone ELSE SI(pa), IF IsSNone(b) THEN SNone ELSE SI(pb + 1), step, n))

LocResolve(key, labels) ==
  LET n == Len(labels) IN
  CASE key[1] = "all" -> Resolved(TRUE, SeqRange(n))
    [] key[1] = "loc" -> LET p == Find(labels, key[2]) IN IF p < 0 THEN [Unresolved EXCEPT !.multi = FALSE] ELSE Resolved(FALSE, <<p>>)
    [] key[1] = "locslice" -> LabelSliceRequired(labels, key[2], key[3], key[4])
    [] key[1] = "loclist" -> LET ps == [i \in 1..Len(key[2]) |-> Find(labels, key[2][i])] IN
                             IF \E i \in 1..Len(ps) : ps[i] < 0 THEN Unresolved ELSE Resolved(TRUE, ps)
    [] key[1] = "mask" -> IF Len(key[2]) # n THEN Unresolved ELSE Resolved(TRUE, Positions(key[2]))
    [] key[1] = "bseries" ->
         (* a Boolean Series key is aligned by label: a label selects iff the Series holds True for it *)
         Resolved(TRUE, SelectSeq(SeqRange(n), LAMBDA p : \E i \in 1..Len(key[2]) : key[2][i] = labels[p + 1] /\ key[3][i]))
    [] key[1] = "iloc" -> IlocResolve(key[2], n)
    [] key[1] = "nokey" -> Resolved(TRUE, <<>>)
    [] OTHER -> Unresolved

(* ---- selection ------------------------------------------------------------------------------------------  *)
Dups(r) == r.multi /\ ~Unique(r.ps)       \* a list key repeating a position would repeat a label: rejected
SeriesSelect(s, r) ==
  IF r.err THEN Err("lookup")
  ELSE IF Dups(r) THEN Err("init_nonunique")
  ELSE IF ~r.multi THEN Elem(At(s.vals, r.ps[1]))
  ELSE MkSeries(Take(s.index, r.ps), Take(s.vals, r.ps), s.dt, s.name)

FrameSelect(f, r, c) ==
  IF r.err \/ c.err THEN Err("lookup")
  ELSE IF Dups(r) \/ Dups(c) THEN Err("init_nonunique")
  ELSE IF ~r.multi /\ ~c.multi THEN Elem(Cell(f, r.ps[1], c.ps[1]))
  ELSE IF ~r.multi THEN
         (* one row as a Series labelled by the selected columns; dtype = resolution of their dtypes *)
         LET cs == Take(f.cols, c.ps)
             dt == IF Len(cs) = 0 THEN DtF64 ELSE ResolveSeq([j \in 1..Len(cs) |-> cs[j].dt])
         IN MkSeries(Take(f.columns, c.ps), [j \in 1..Len(cs) |-> Cast(At(cs[j].vals, r.ps[1]), dt)], dt, At(f.index, r.ps[1]))
  ELSE IF ~c.multi THEN
         LET col == At(f.cols, c.ps[1]) IN MkSeries(Take(f.index, r.ps), Take(col.vals, r.ps), col.dt, At(f.columns, c.ps[1]))
  ELSE MkFrame(Take(f.index, r.ps), Take(f.columns, c.ps),
               [j \in 1..Len(c.ps) |-> [dt |-> At(f.cols, c.ps[j]).dt, vals |-> Take(At(f.cols, c.ps[j]).vals, r.ps)]], f.name)

FrameIloc(f, rk, ck) == FrameSelect(f, IlocResolve(rk, NRows(f)), IlocResolve(ck, NCols(f)))
FrameLoc(f, rk, ck)  == FrameSelect(f, LocResolve(rk, f.index), LocResolve(ck, f.columns))
FrameGetItem(f, ck)  == FrameSelect(f, Resolved(TRUE, SeqRange(NRows(f))), LocResolve(ck, f.columns))
SeriesIloc(s, rk)    == SeriesSelect(s, IlocResolve(rk, Len(s.index)))
SeriesLoc(s, rk)     == SeriesSelect(s, LocResolve(rk, s.index))

(* bloc: 2-D Boolean selection -> Series labelled (row label, column label), row-major order; dtype resolved *)
RECURSIVE BlocPairs(_, _, _, _)
BlocPairs(mask, r, c, nc) ==
  IF r > Len(mask) THEN <<>>
  ELSE IF c > nc THEN BlocPairs(mask, r + 1, 1, nc)
  ELSE (IF mask[r][c] THEN <<<<r - 1, c - 1>>>> ELSE <<>>) \o BlocPairs(mask, r, c + 1, nc)
FrameBloc(f, mask) ==
  LET prs == BlocPairs(mask, 1, 1, NCols(f))
      dts == [i \in 1..Len(prs) |-> At(f.cols, prs[i][2]).dt]
      dt == IF Len(prs) = 0 THEN DtF64 ELSE ResolveSeq(dts)
  IN MkSeries([i \in 1..Len(prs) |-> <<"t", <<At(f.index, prs[i][1]), At(f.columns, prs[i][2])>>>>],
              [i \in 1..Len(prs) |-> Cast(Cell(f, prs[i][1], prs[i][2]), dt)], dt, None)

(* ---- drop ------------------------------------------------------------------------------------------------ *)
Without(n, ps) == SelectSeq(SeqRange(n), LAMBDA p : ~Member(ps, p))
FrameDropResolved(f, r, c) ==
  IF r.err \/ c.err THEN Err("lookup")
  ELSE IF Dups(r) \/ Dups(c) THEN Unspecified       \* a drop key naming a label twice: accepted positionally, rejected by label
  ELSE LET keepr == Without(NRows(f), r.ps)
           keepc == Without(NCols(f), c.ps)
       IN MkFrame(Take(f.index, keepr), Take(f.columns, keepc),
                  [j \in 1..Len(keepc) |-> [dt |-> At(f.cols, keepc[j]).dt, vals |-> Take(At(f.cols, keepc[j]).vals, keepr)]], f.name)
NoneSel == Resolved(TRUE, <<>>)
SeriesDropResolved(s, r) ==
  IF r.err THEN Err("lookup")
  ELSE LET keep == Without(Len(s.index), r.ps) IN MkSeries(Take(s.index, keep), Take(s.vals, keep), s.dt, s.name)

(* ---- mask -------------------------------------------------------------------------------------------------  *)
FrameMaskResolved(f, r, c) ==
  IF c.err THEN Err("lookup")
  ELSE IF Len(c.ps) = 0 THEN MkFrame(f.index, f.columns, [j \in 1..NCols(f) |-> [dt |-> DtB, vals |-> [i \in 1..NRows(f) |-> B(FALSE)]]], f.name)   \* as built: no column addressed, the row key is never looked at
  ELSE IF r.err THEN Err("lookup")
  ELSE MkFrame(f.index, f.columns,
               [j \in 1..NCols(f) |-> [dt |-> DtB, vals |-> [i \in 1..NRows(f) |-> B(Member(r.ps, i - 1) /\ Member(c.ps, j - 1))]]], f.name)

(* ---- assign ------------------------------------------------------------------------------------------------ *)
(* element value broadcast over the addressed region; a column that receives a value takes the resolution of   *)
(* its dtype with the value's dtype, every other column keeps its dtype exactly.                                *)
ValueDtype(v) == IF Tag(v) = "s" THEN <<"U", v[3]>> ELSE DtypeFromElement(v)   \* str values travel as <<"s",txt,len>>
StripLen(v) == IF Tag(v) = "s" /\ Len(v) = 3 THEN <<"s", v[2]>> ELSE v
FrameAssignElementResolved(f, r, c, v) ==
  IF r.err \/ c.err THEN Err("lookup")
  ELSE MkFrame(f.index, f.columns,
         [j \in 1..NCols(f) |->
            IF ~Member(c.ps, j - 1) \/ Len(r.ps) = 0 THEN f.cols[j]
            ELSE LET dt == Resolve(f.cols[j].dt, ValueDtype(v)) IN
                 [dt |-> dt, vals |-> [i \in 1..NRows(f) |-> IF Member(r.ps, i - 1) THEN Cast(StripLen(v), dt) ELSE Cast(f.cols[j].vals[i], dt)]]],
         f.name)
(* ---- verdicts: which observable differs between an expected and an actual result ----------------------- *)
Diff(e, a) ==
  IF e = a THEN "ok"
  ELSE IF e.k = "unspecified" THEN "ok"
  ELSE IF e.k = "err" /\ a.k = "err" /\ a.cat = "any" THEN "ok"     \* recorded with the error class left out of the observables
  ELSE IF e.k # a.k THEN "kind"
  ELSE CASE e.k = "err" -> "error_category"
         [] e.k = "elem" -> "value"
         [] e.k = "series" -> IF e.index # a.index THEN "labels" ELSE IF e.name # a.name THEN "name"
                              ELSE IF e.vals # a.vals THEN "values" ELSE "dtype"
         [] e.k = "frame" -> IF e.index # a.index THEN "index_labels" ELSE IF e.columns # a.columns THEN "column_labels"
                             ELSE IF e.name # a.name THEN "name"
                             ELSE IF Len(e.cols) # Len(a.cols) THEN "shape"
                             ELSE IF \E j \in 1..Len(e.cols) : e.cols[j].vals # a.cols[j].vals THEN "values" ELSE "dtype"
         [] OTHER -> "mismatch"
=============================================================================
