------------------------------- MODULE SFBlocks -------------------------------
(* Implementation-shaped model of TypeBlocks: a Frame's columns partitioned into typed blocks (1-D: one      *)
(* column; 2-D: width >= 1), with the block-walking algorithms of type_blocks.py transcribed with their      *)
(* loop structure.  The abstraction function Cols(tb) is the flat column sequence of SFFrame; every         *)
(* algorithm here must refine the column-level operation for EVERY layout (checked by TLC in MC_C03).       *)
EXTENDS SFFrame

(* tb = [blocks |-> Seq([dt, nd, cols]), nrows];   cols = sequence of columns (each a sequence of values)  *)
Width(b) == Len(b.cols)
RECURSIVE FlatCols(_, _)
FlatCols(blocks, i) == IF i > Len(blocks) THEN <<>>
                       ELSE [j \in 1..Width(blocks[i]) |-> [dt |-> blocks[i].dt, vals |-> blocks[i].cols[j]]] \o FlatCols(blocks, i + 1)
Cols(tb) == FlatCols(tb.blocks, 1)
NColsTB(tb) == SumSeq([i \in 1..Len(tb.blocks) |-> Width(tb.blocks[i])])

(* TypeBlocks._index: external column -> <<block index, column in block>> (0-based) *)
RECURSIVE IndexFrom(_, _)
IndexFrom(blocks, i) == IF i > Len(blocks) THEN <<>>
                        ELSE [j \in 1..Width(blocks[i]) |-> <<i - 1, j - 1>>] \o IndexFrom(blocks, i + 1)
IndexOf(tb) == IndexFrom(tb.blocks, 1)
(* structural coherence: _index covers every column once, in order; every column has nrows values *)
Coherent(tb) == /\ Len(IndexOf(tb)) = NColsTB(tb)
                /\ \A i \in 1..Len(tb.blocks) : /\ Width(tb.blocks[i]) >= 1
                                                /\ (tb.blocks[i].nd = 1 => Width(tb.blocks[i]) = 1)
                                                /\ \A j \in 1..Width(tb.blocks[i]) : Len(tb.blocks[i].cols[j]) = tb.nrows

(* ---- building a layout from flat columns: layout = Seq(<<width, nd>>) -------------------------------- *)
RECURSIVE Partition(_, _, _)
Partition(cols, layout, pos) ==
  IF layout = <<>> THEN <<>>
  ELSE LET w == Head(layout)[1] IN
       <<[dt |-> cols[pos].dt, nd |-> Head(layout)[2], cols |-> [j \in 1..w |-> cols[pos + j - 1].vals]]>> \o Partition(cols, Tail(layout), pos + w)
FromCols(cols, layout, nrows) == [blocks |-> Partition(cols, layout, 1), nrows |-> nrows]
(* a layout is admissible when every block is dtype-homogeneous and covers the columns exactly *)
RECURSIVE LayoutOKFrom(_, _, _)
LayoutOKFrom(cols, layout, pos) ==
  IF layout = <<>> THEN pos = Len(cols) + 1
  ELSE LET w == Head(layout)[1] IN
       /\ pos + w - 1 <= Len(cols) /\ w >= 1 /\ (Head(layout)[2] = 1 => w = 1)
       /\ \A j \in 1..w : cols[pos + j - 1].dt = cols[pos].dt
       /\ LayoutOKFrom(cols, Tail(layout), pos + w)
LayoutOK(cols, layout) == LayoutOKFrom(cols, layout, 1)

(* ---- util.slice_to_ascending_slice (as built, after the negative-bound normalisation) ----------------- *)
(* slice components are SNone or SI(n); returns <<start, stop, step>> components                               *)
SliceToAscending(start, stop, step, size) ==
  IF IsSNone(step) \/ SVal(step) > 0 THEN <<start, stop, step>>
  ELSE
  LET negS == ~IsSNone(start) /\ SVal(start) < 0
      negE == ~IsSNone(stop) /\ SVal(stop) < 0
      st1 == IF negS THEN SI(SVal(start) + size) ELSE start
      emptyEarly == negS /\ SVal(start) + size < 0
      sp1 == IF negE THEN (IF SVal(stop) + size < 0 THEN SNone ELSE SI(SVal(stop) + size)) ELSE stop
      ostop == IF IsSNone(st1) THEN SNone ELSE SI(SVal(st1) + 1)
      k == -SVal(step)
  IN IF emptyEarly THEN <<SI(0), SI(0), SNone>>
     ELSE IF k = 1 THEN <<IF IsSNone(sp1) THEN SNone ELSE SI(SVal(sp1) + 1), ostop, SI(1)>>
     ELSE LET s0 == IF IsSNone(st1) THEN size - 1 ELSE MinI(size - 1, SVal(st1))
              s1 == IF IsSNone(sp1) THEN s0 - (k * (s0 \div k)) ELSE s0 - (k * ((s0 - SVal(sp1) - 1) \div k))
          IN <<SI(s1), ostop, SI(k)>>

(* ---- TypeBlocks._cols_to_slice / _indices_to_contiguous_pairs ------------------------------------------ *)
(* a bundle of contiguous in-block columns (0-based, in key order) -> Python slice <<start, stop, step>>      *)
ColsToSlice(b) ==
  LET s == b[1]  e == b[Len(b)] IN
  IF Len(b) = 1 THEN <<SI(s), SI(s + 1), SNone>>
  ELSE IF e > s THEN <<SI(s), SI(e + 1), SNone>>
  ELSE IF e = 0 THEN <<SI(s), SNone, SI(-1)>>
  ELSE <<SI(s), SI(e - 1), SI(-1)>>

(* indices: Seq(<<blk, col>>) -> Seq(<<blk, slice>>) bundling runs that stay in one block and move by +-1 *)
RECURSIVE ContigFrom(_, _, _, _)
ContigFrom(ind, i, lastPair, bundle) ==
  IF i > Len(ind) THEN (IF bundle = <<>> THEN <<>> ELSE <<<<lastPair[1], ColsToSlice(bundle)>>>>)
  ELSE LET p == ind[i] IN
       IF bundle = <<>> THEN ContigFrom(ind, i + 1, p, <<p[2]>>)
       ELSE IF lastPair[1] = p[1] /\ Abs(p[2] - lastPair[2]) = 1 THEN ContigFrom(ind, i + 1, p, Append(bundle, p[2]))
       ELSE <<<<lastPair[1], ColsToSlice(bundle)>>>> \o ContigFrom(ind, i + 1, p, <<p[2]>>)
ContiguousPairs(ind) == ContigFrom(ind, 1, <<0, 0>>, <<>>)

(* ascending sort of small position sequences (insertion), as sorted() *)
RECURSIVE SortedSeq(_)
InsertSorted(s, x) == LET k == Cardinality({i \in 1..Len(s) : s[i] <= x}) IN SubSeq(s, 1, k) \o <<x>> \o SubSeq(s, k + 1, Len(s))
SortedSeq(s) == IF s = <<>> THEN <<>> ELSE InsertSorted(SortedSeq(Front(s)), Last(s))

(* TypeBlocks._key_to_block_slices for a multi-column key; key as in SFFrame; result Seq(<<blk, slice>>)    *)
AllBlockSlices(tb) == [i \in 1..Len(tb.blocks) |-> <<i - 1, IF tb.blocks[i].nd = 1 THEN <<SI(0), SI(1), SNone>> ELSE <<SI(0), SI(Width(tb.blocks[i])), SNone>>>>]
KeyToBlockSlices(tb, key, retain) ==
  LET n == NColsTB(tb)  idx == IndexOf(tb) IN
  CASE key[1] = "all" -> AllBlockSlices(tb)
    [] key[1] = "slice" ->
         IF key[2] = SNone /\ key[3] = SNone /\ key[4] = SNone THEN AllBlockSlices(tb)
         ELSE LET k == IF retain THEN <<key[2], key[3], key[4]>> ELSE SliceToAscending(key[2], key[3], key[4], n)
              IN ContiguousPairs(Take(idx, PySlice(k[1], k[2], k[3], n)))
    [] key[1] = "mask" -> ContiguousPairs(Take(idx, Positions(key[2])))
    [] key[1] = "list" -> LET ps == [i \in 1..Len(key[2]) |-> NormPos(key[2][i], n)] IN
                          ContiguousPairs(Take(idx, IF retain THEN ps ELSE SortedSeq(ps)))

(* ---- _slice_blocks: column part (rows are taken with the row positions rs, key order) ------------------- *)
BlockColsBySlice(b, slc) == Take(b.cols, PySlice(slc[1], slc[2], slc[3], Width(b)))
SliceBlocks(tb, rs, key) ==
  LET pairs == KeyToBlockSlices(tb, key, TRUE) IN
  [i \in 1..Len(pairs) |->
     LET b == tb.blocks[pairs[i][1] + 1]
         cs == IF b.nd = 1 THEN b.cols ELSE BlockColsBySlice(b, pairs[i][2])
     IN [dt |-> b.dt, nd |-> IF Len(cs) = 1 THEN 1 ELSE 2, cols |-> [j \in 1..Len(cs) |-> Take(cs[j], rs)]]]

(* ---- _drop_blocks --------------------------------------------------------------------------------------- *)
(* targets: Seq(<<blk, slice>>) ascending.  One block processed by the while loop: returns [parts, drop, ts]  *)
TStart(t) == SVal(t[2][1])
TStop(t) == SVal(t[2][2])
RECURSIVE DropLoop(_, _, _, _, _, _)
DropLoop(b, bi, ts, parts, drop, psl) ==
  IF ts = <<>> \/ Head(ts)[1] # bi THEN [parts |-> parts, drop |-> drop, psl |-> psl, ts |-> ts]
  ELSE LET t == Head(ts) IN
       IF b.nd = 1 \/ Width(b) = 1 THEN [parts |-> parts, drop |-> TRUE, psl |-> 1, ts |-> Tail(ts)]
       ELSE LET full == TStart(t) = 0 /\ TStop(t) = Width(b)
                parts2 == IF ~full /\ TStart(t) > psl THEN Append(parts, <<psl, TStart(t)>>) ELSE parts
            IN DropLoop(b, bi, Tail(ts), parts2, drop \/ full, TStop(t))
RECURSIVE DropFrom(_, _, _, _)
DropFrom(blocks, i, ts, keepRows) ==
  IF i > Len(blocks) THEN <<>>
  ELSE LET b == blocks[i]
           st == DropLoop(b, i - 1, ts, <<>>, FALSE, 0)
           parts == IF b.nd # 1 /\ 0 < st.psl /\ st.psl < Width(b) THEN Append(st.parts, <<st.psl, Width(b)>>) ELSE st.parts
           Rows(c) == Take(c, keepRows)
           out == IF ~st.drop /\ parts = <<>> THEN <<[dt |-> b.dt, nd |-> b.nd, cols |-> [j \in 1..Width(b) |-> Rows(b.cols[j])]]>>
                  ELSE [p \in 1..Len(parts) |-> [dt |-> b.dt, nd |-> 2, cols |-> [j \in 1..(parts[p][2] - parts[p][1]) |-> Rows(b.cols[parts[p][1] + j])]]]
       IN out \o DropFrom(blocks, i + 1, st.ts, keepRows)
DropBlocks(tb, keepRows, key) ==
  LET ts == IF key = <<"nokey">> THEN <<>> ELSE KeyToBlockSlices(tb, key, FALSE) IN
  [blocks |-> DropFrom(tb.blocks, 1, ts, keepRows), nrows |-> Len(keepRows)]

(* ---- _mask_blocks ---------------------------------------------------------------------------------------- *)
RECURSIVE MaskLoop(_, _, _, _)
MaskLoop(b, bi, ts, hit) ==      \* hit: set of in-block columns (0-based) set to True for the addressed rows
  IF ts = <<>> \/ Head(ts)[1] # bi THEN [hit |-> hit, ts |-> ts]
  ELSE LET t == Head(ts)
           cs == IF b.nd = 1 THEN {0} ELSE {p \in 0..(Width(b) - 1) : Member(PySlice(t[2][1], t[2][2], t[2][3], Width(b)), p)}
       IN MaskLoop(b, bi, Tail(ts), hit \cup cs)
RECURSIVE MaskFrom(_, _, _, _, _)
MaskFrom(blocks, i, ts, rs, nrows) ==
  IF i > Len(blocks) THEN <<>>
  ELSE LET b == blocks[i]
           st == MaskLoop(b, i - 1, ts, {})
       IN <<[dt |-> DtB, nd |-> b.nd, cols |-> [j \in 1..Width(b) |-> [r \in 1..nrows |-> B((j - 1) \in st.hit /\ Member(rs, r - 1))]]]>>
          \o MaskFrom(blocks, i + 1, st.ts, rs, nrows)
MaskBlocks(tb, rs, key) == [blocks |-> MaskFrom(tb.blocks, 1, KeyToBlockSlices(tb, key, FALSE), rs, tb.nrows), nrows |-> tb.nrows]
=============================================================================
