SPECIFICATION Spec
CONSTANT N = 4
CONSTANT W = 4
CONSTANT C = 3
CONSTANT Fails = {1, 4}
CONSTANT Eager = TRUE
INVARIANT InvPaired
INVARIANT InvComplete
INVARIANT InvError
INVARIANT InvNoLater
PROPERTY Terminates
CHECK_DEADLOCK FALSE
