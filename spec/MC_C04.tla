------------------------------- MODULE MC_C04 -------------------------------
(* Small-scope instance for selection (C04).  A state is one call: cs = the case, res = its result.        *)
(* TLC enumerates every case; the invariants are the design-level statements of the property; the state    *)
(* dump is replayed into the real code on every block layout (conformance leg R).                          *)
EXTENDS SFOps
CONSTANTS NR, NC,           \* frame shape
          AllSteps,         \* TRUE only in the negative control: also demand agreement for negative steps
          Full              \* TRUE: full key product on both axes; FALSE: full keys on one axis x probe keys on the other
VARIABLES cs, res
vars == <<cs, res>>

RowLab == [i \in 1..NR |-> <<"s", <<"a", "b", "c", "d">>[i]>>]
ColLab == [j \in 1..NC |-> <<"i", 10 * j>>]
ColDt  == [j \in 1..NC |-> <<DtI64, DtI64, DtF64, DtB>>[j]]
ColVal(j, i) == CASE j <= 2 -> <<"i", 10 * j + i>> [] j = 3 -> <<"f", 2 * i + 1, 2>> [] OTHER -> <<"b", i % 2>>
F == [index |-> RowLab, columns |-> ColLab, name |-> <<"s", "nm">>,
      cols |-> [j \in 1..NC |-> [dt |-> ColDt[j], vals |-> [i \in 1..NR |-> ColVal(j, i)]]]]
FAuto == [F EXCEPT !.index = [i \in 1..NR |-> <<"i", i - 1>>]]
Ser == [index |-> RowLab, vals |-> F.cols[3].vals, dt |-> DtF64, name |-> None]

Comp(n) == {SNone} \cup {SI(v) : v \in (-n - 1)..(n + 1)}
Steps == {SNone, SI(1), SI(2), SI(3), SI(-1), SI(-2), SI(-3)}
IKeys(n) == {KAll} \cup {<<"int", p>> : p \in (-n - 1)..n}
            \cup {<<"slice", a, b, s>> : a \in Comp(n), b \in Comp(n), s \in Steps}
            \cup {<<"list", <<p>>>> : p \in (-n)..n} \cup {<<"list", <<p, q>>>> : p, q \in (-1)..(n - 1)} \cup {<<"list", <<>>>>}
            \cup {<<"mask", m>> : m \in [1..n -> BOOLEAN]}
Probe(n) == {KAll, <<"int", 1>>, <<"int", -1>>, <<"slice", SI(1), SNone, SNone>>, <<"slice", SNone, SNone, SI(-1)>>,
             <<"list", <<n - 1, 0>>>>, <<"mask", [i \in 1..n |-> i # 2]>>}

LComp(labs) == {SNone} \cup {labs[i] : i \in 1..Len(labs)} \cup {<<"s", "ZZ">>}
LSteps == {SNone, SI(1), SI(2), SI(-1), SI(-2)}
LKeys(labs) == LET L == {labs[i] : i \in 1..Len(labs)} \cup {IF labs[1][1] = "i" THEN <<"i", 999>> ELSE <<"s", "ZZ">>} IN
            {KAll} \cup {<<"loc", x>> : x \in L}
            \cup {<<"locslice", a, b, s>> : a \in L \cup {SNone}, b \in L \cup {SNone}, s \in LSteps}
            \cup {<<"loclist", <<x, y>>>> : x, y \in L} \cup {<<"loclist", <<>>>>}
            \cup {<<"bseries", <<labs[2], labs[1]>>, <<TRUE, b>>>> : b \in BOOLEAN}
            \cup {<<"iloc", <<"int", -1>>>>, <<"iloc", <<"slice", SI(1), SNone, SNone>>>>}
LProbe(labs) == {KAll, <<"loc", labs[2]>>, <<"locslice", labs[1], labs[2], SNone>>, <<"loclist", <<labs[Len(labs)], labs[1]>>>>}

InitCases ==
  LET ik(full, n) == IF full THEN IKeys(n) ELSE Probe(n) IN
  \/ \E rk \in IKeys(NR), ck \in ik(Full, NC) : cs = [op |-> "f_iloc", f |-> F, rk |-> rk, ck |-> ck]
  \/ \E rk \in ik(Full, NR), ck \in IKeys(NC) : cs = [op |-> "f_iloc", f |-> F, rk |-> rk, ck |-> ck]
  \/ \E rk \in LKeys(RowLab), ck \in LProbe(ColLab) : cs = [op |-> "f_loc", f |-> F, rk |-> rk, ck |-> ck]
  \/ \E rk \in LProbe(RowLab), ck \in LKeys(ColLab) : cs = [op |-> "f_loc", f |-> F, rk |-> rk, ck |-> ck]
  \/ \E rk \in LKeys(FAuto.index) : cs = [op |-> "f_loc", f |-> FAuto, rk |-> rk, ck |-> KAll]
  \/ \E ck \in LKeys(ColLab) : cs = [op |-> "f_getitem", f |-> F, ck |-> ck]
  \/ \E rk \in IKeys(NR) : cs = [op |-> "s_iloc", s |-> Ser, rk |-> rk]
  \/ \E rk \in LKeys(RowLab) : cs = [op |-> "s_loc", s |-> Ser, rk |-> rk]

Pending == [k |-> "pending"]
Init == InitCases /\ res = Pending
Call == res.k = "pending" /\ res' = Apply(cs) /\ UNCHANGED cs
Next == Call
Spec == Init /\ [][Next]_vars

(* ---- the property, at design level ------------------------------------------------------------------- *)
Done == res.k # "pending"
Src(c) == IF c.op \in {"s_iloc", "s_loc"} THEN [index |-> c.s.index, columns |-> <<<<"i", 0>>>>, cols |-> <<[dt |-> c.s.dt, vals |-> c.s.vals]>>] ELSE c.f
(* every value in the result is still paired with its original labels *)
LabelsKept ==
  Done => LET f == Src(cs) IN
    CASE res.k = "frame" -> \A i \in 1..Len(res.index), j \in 1..Len(res.columns) :
                               LET r == Find(f.index, res.index[i])  c == Find(f.columns, res.columns[j]) IN
                               r >= 0 /\ c >= 0 /\ res.cols[j].vals[i] = Cell(f, r, c) /\ res.cols[j].dt = f.cols[c + 1].dt
      [] res.k = "series" /\ cs.op \in {"s_iloc", "s_loc"} ->
            \A i \in 1..Len(res.index) : LET r == Find(f.index, res.index[i]) IN r >= 0 /\ res.vals[i] = Cell(f, r, 0)
      [] OTHER -> TRUE
(* positional selection returns exactly the addressed positions, in key order *)
PositionsExact ==
  (Done /\ cs.op = "s_iloc" /\ res.k = "series") =>
     LET n == Len(cs.s.index) IN
     CASE cs.rk[1] = "mask" -> res.index = SelectSeq(cs.s.index, LAMBDA x : cs.rk[2][Find(cs.s.index, x) + 1])
       [] cs.rk[1] = "list" -> res.index = [i \in 1..Len(cs.rk[2]) |-> At(cs.s.index, NormPos(cs.rk[2][i], n))]
       [] OTHER -> TRUE
(* an absent label raises a lookup error and never returns another label's data *)
Mentions(k, x) == CASE k[1] = "loc" -> k[2] = x [] k[1] = "locslice" -> (k[2] = x \/ k[3] = x)
                    [] k[1] = "loclist" -> Member(k[2], x) [] OTHER -> FALSE
AbsentRaises ==
  (Done /\ cs.op \in {"f_loc", "s_loc"}) =>
     ((Mentions(cs.rk, <<"s", "ZZ">>) \/ Mentions(cs.rk, <<"i", 999>>)) => res.k = "err")
(* label slices: the as-built translation (positions, stop + 1, Python slice) equals the required meaning;   *)
(* this holds for positive steps only -- MC_C04_neg.cfg shows the counterexample for negative steps.         *)
SliceAgree(k, labs) == (k[1] = "locslice" /\ (IsSNone(k[4]) \/ SVal(k[4]) > 0 \/ AllSteps))
                         => LabelSliceAsBuilt(labs, k[2], k[3], k[4]) = LabelSliceRequired(labs, k[2], k[3], k[4])
SliceAsBuiltIsRequired ==
  (cs.op = "s_loc" => SliceAgree(cs.rk, cs.s.index)) /\ (cs.op = "f_loc" => SliceAgree(cs.rk, cs.f.index) /\ SliceAgree(cs.ck, cs.f.columns))
(* loc = iloc at the positions of the labels *)
LocIsIlocAtPositions ==
  (Done /\ cs.op = "s_loc" /\ res.k = "series") =>
     LET r == LocResolve(cs.rk, cs.s.index) IN res = SeriesIloc(cs.s, <<"list", r.ps>>)
=============================================================================
