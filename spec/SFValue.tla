------------------------------- MODULE SFValue -------------------------------
(* The value universe of static-frame as tagged tuples, missing-value classes, dtype tokens and the  *)
(* dtype-resolution rule (util.resolve_dtype / resolve_dtype_iter / dtype_from_element).             *)
(*                                                                                                     *)
(*   values  <<"i",n>> int   <<"I",txt>> int beyond 32 bit   <<"f",num,den>> finite float (exact)      *)
(*           <<"F",hex>> float beyond 32-bit rational   <<"b",0|1>> bool   <<"s",txt>> str             *)
(*           <<"y",txt>> bytes   <<"nan">>  <<"none">>  <<"nat">>   <<"inf",+-1>>                      *)
(*           <<"d",unit,ticks>> datetime64   <<"m",unit,ticks>> timedelta64   <<"t",<<...>>>> tuple    *)
(*   dtypes  <<"b",8>> <<"i",w>> <<"u",w>> <<"f",w>> <<"c",w>> <<"U",n>> <<"S",n>> <<"M",unit>>        *)
(*           <<"m",unit>> <<"O",0>>                                                                    *)
(* Tagged tuples with different tags compare unequal in TLC without a type error.                      *)
EXTENDS Integers, Sequences, FiniteSets, TLC

Tag(v) == v[1]
NaN  == <<"nan">>
None == <<"none">>
NaT  == <<"nat">>
I(n) == <<"i", n>>
S(t) == <<"s", t>>
B(x) == <<"b", IF x THEN 1 ELSE 0>>
Fl(n, d) == <<"f", n, d>>

IsNA(v)        == Tag(v) \in {"nan", "none", "nat"}
IsNANoNone(v)  == Tag(v) \in {"nan", "nat"}

Kind(dt) == dt[1]
DtO   == <<"O", 0>>
DtB   == <<"b", 8>>
DtI64 == <<"i", 64>>
DtF64 == <<"f", 64>>
DtU(n) == <<"U", n>>

MaxI(a, b) == IF a >= b THEN a ELSE b
MinI(a, b) == IF a <= b THEN a ELSE b
Abs(a) == IF a < 0 THEN -a ELSE a

(* datetime units ordered from coarse to fine *)
UnitRank(u) == CASE u = "Y" -> 1 [] u = "M" -> 2 [] u = "W" -> 3 [] u = "D" -> 4 [] u = "h" -> 5 [] u = "m" -> 6
                 [] u = "s" -> 7 [] u = "ms" -> 8 [] u = "us" -> 9 [] u = "ns" -> 10 [] OTHER -> 0

(* ---- NumPy promotion among bool-free numeric kinds (result_type), as an explicit rule ---------- *)
(* signed i w, unsigned u w, float f w, complex c w (w = bits)                                        *)
NumPromote(a, b) ==
  LET ka == a[1]  wa == a[2]  kb == b[1]  wb == b[2] IN
  IF ka = kb THEN <<ka, MaxI(wa, wb)>>
  ELSE IF {ka, kb} = {"i", "u"} THEN
         LET wi == IF ka = "i" THEN wa ELSE wb
             wu == IF ka = "u" THEN wa ELSE wb
         IN IF wu < wi THEN <<"i", wi>>
            ELSE IF wu = 64 THEN <<"f", 64>>
            ELSE <<"i", 2 * wu>>
  ELSE IF {ka, kb} = {"i", "f"} \/ {ka, kb} = {"u", "f"} THEN
         LET wn == IF ka = "f" THEN wb ELSE wa
             wf == IF ka = "f" THEN wa ELSE wb
             need == IF wn = 8 THEN 16 ELSE IF wn = 16 THEN 32 ELSE 64
         IN <<"f", MaxI(wf, need)>>
  ELSE IF {ka, kb} = {"i", "c"} \/ {ka, kb} = {"u", "c"} THEN
         LET wn == IF ka = "c" THEN wb ELSE wa
             wc == IF ka = "c" THEN wa ELSE wb
             need == IF wn <= 16 THEN 64 ELSE 128
         IN <<"c", MaxI(wc, need)>>
  ELSE IF {ka, kb} = {"f", "c"} THEN
         LET wf == IF ka = "f" THEN wa ELSE wb
             wc == IF ka = "c" THEN wa ELSE wb
             need == IF wf <= 32 THEN 64 ELSE 128
         IN <<"c", MaxI(wc, need)>>
  ELSE DtO

IsNumKind(k) == k \in {"i", "u", "f", "c"}

(* util.resolve_dtype *)
Resolve(a, b) ==
  IF a = b THEN a
  ELSE IF Kind(a) = "O" \/ Kind(b) = "O" THEN DtO
  ELSE IF Kind(a) = "U" /\ Kind(b) = "U" THEN <<"U", MaxI(a[2], b[2])>>
  ELSE IF Kind(a) = "S" /\ Kind(b) = "S" THEN <<"S", MaxI(a[2], b[2])>>
  ELSE IF {Kind(a), Kind(b)} = {"U", "S"} THEN
         (* the library deliberately lets NumPy resolve str with bytes to str (outside C07's claim) *)
         <<"U", MaxI(a[2], b[2])>>
  ELSE IF Kind(a) = "M" /\ Kind(b) = "M" THEN IF UnitRank(a[2]) >= UnitRank(b[2]) THEN a ELSE b
  ELSE IF Kind(a) = "m" /\ Kind(b) = "m" THEN IF UnitRank(a[2]) >= UnitRank(b[2]) THEN a ELSE b
  ELSE IF IsNumKind(Kind(a)) /\ IsNumKind(Kind(b)) THEN NumPromote(a, b)
  ELSE DtO      \* bool / str / bytes / datetime / timedelta mixed with another kind

RECURSIVE ResolveSeqFrom(_, _, _)
ResolveSeqFrom(dts, i, acc) ==
  IF i > Len(dts) THEN acc
  ELSE IF acc = DtO THEN DtO
  ELSE ResolveSeqFrom(dts, i + 1, Resolve(acc, dts[i]))
(* util.resolve_dtype_iter: empty iterables are not supplied by callers *)
ResolveSeq(dts) == ResolveSeqFrom(dts, 2, dts[1])

(* Storing a value in an array of dtype dt, for the cases where this is value preserving: only the      *)
(* representation class changes (int -> float, bool kept as object).                                   *)
Cast(v, dt) ==
  IF Kind(dt) = "f" /\ Tag(v) = "i" THEN <<"f", v[2], 1>>
  ELSE IF Kind(dt) = "f" /\ Tag(v) = "none" THEN NaN
  ELSE IF Kind(dt) = "M" /\ Tag(v) = "none" THEN NaT
  ELSE IF Kind(dt) = "O" /\ Tag(v) = "nat" THEN None       \* datetime64 -> object turns NaT into None (still missing)
  ELSE v
CastSeq(vs, dt) == [i \in 1..Len(vs) |-> Cast(vs[i], dt)]

(* util.dtype_from_element for the element classes the models use *)
DtypeFromElement(v) ==
  CASE Tag(v) = "nan" -> DtF64
    [] Tag(v) = "none" -> DtO
    [] Tag(v) = "nat" -> <<"M", "generic">>
    [] Tag(v) = "i" -> DtI64
    [] Tag(v) = "I" -> DtI64
    [] Tag(v) = "f" -> DtF64
    [] Tag(v) = "F" -> DtF64
    [] Tag(v) = "inf" -> DtF64
    [] Tag(v) = "b" -> DtB
    [] Tag(v) = "s" -> <<"U", 0>>      \* width filled by the caller from the text length
    [] Tag(v) = "d" -> <<"M", v[2]>>
    [] Tag(v) = "m" -> <<"m", v[2]>>
    [] OTHER -> DtO

(* the missing-value marker an array of dtype dt can hold; <<>> when it has none *)
NAFor(dt) == CASE Kind(dt) \in {"f", "c"} -> NaN [] Kind(dt) \in {"M", "m"} -> NaT [] Kind(dt) = "O" -> None [] OTHER -> <<>>

(* ---- exact rationals <<num, den>> with den > 0, for reductions --------------------------------- *)
RECURSIVE Gcd(_, _)
Gcd(a, b) == IF b = 0 THEN a ELSE Gcd(b, a % b)
QNorm(n, d) == LET g == Gcd(Abs(n), d) IN IF g = 0 THEN <<0, 1>> ELSE <<n \div g, d \div g>>
QAdd(x, y) == QNorm(x[1] * y[2] + y[1] * x[2], x[2] * y[2])
QSub(x, y) == QNorm(x[1] * y[2] - y[1] * x[2], x[2] * y[2])
QMul(x, y) == QNorm(x[1] * y[1], x[2] * y[2])
QDivI(x, k) == QNorm(x[1], x[2] * k)           \* k > 0
QLt(x, y) == x[1] * y[2] < y[1] * x[2]
QLe(x, y) == x[1] * y[2] <= y[1] * x[2]
(* numeric value of an int / bool / finite-float element as a rational *)
QOf(v) == CASE Tag(v) = "i" -> <<v[2], 1>> [] Tag(v) = "b" -> <<v[2], 1>> [] Tag(v) = "f" -> QNorm(v[2], v[3]) [] OTHER -> <<0, 1>>
IsNum(v) == Tag(v) \in {"i", "b", "f"}
=============================================================================
