INIT Init
NEXT Next
CONSTANT N = 4
CONSTANT D = 2
INVARIANT TreeTable
INVARIANT LeafBij
INVARIANT LeafAbsent
INVARIANT HLocExact
INVARIANT SelectsMatchingOnly
INVARIANT SelectsAllMatching
CHECK_DEADLOCK FALSE
