------------------------------ MODULE Trace_C03 ------------------------------
(* Trace validation for block transparency (C03).  Two kinds of recorded events:                             *)
(*   sweep : one public operation applied to the SAME logical Frame built with several block layouts;        *)
(*           the property requires all recorded results to be equal (labels, values, dtypes, error class);   *)
(*   routes: one Frame read through every route (values, iloc cell by cell, iter_array, iter_series,         *)
(*           iter_element, to_pairs) together with its ground-truth columns; all routes must coincide, and   *)
(*           the shape must be (#index labels, #column labels).                                              *)
EXTENDS SFFrame, Json, IOUtils
Trace == ndJsonDeserialize(IOEnv.TRACE_FILE)
VARIABLE l

AllEqual(rs) == \A i \in 1..Len(rs) : rs[i] = rs[1]
FirstDiff(rs) == CHOOSE i \in 1..Len(rs) : rs[i] # rs[1]

RoutesVerdict(ev) ==
  LET f == ev.f   nr == Len(f.index)   nc == Len(f.columns)
      rowdt == IF nc = 0 THEN DtF64 ELSE ResolveSeq([j \in 1..nc |-> f.cols[j].dt])
  IN IF Len(f.cols) # nc \/ \E j \in 1..Len(f.cols) : Len(f.cols[j].vals) # nr THEN "shape_vs_labels"
     ELSE IF ev.shape # <<nr, nc>> THEN "shape"
     ELSE IF ev.values # [i \in 1..nr |-> [j \in 1..nc |-> Cast(f.cols[j].vals[i], rowdt)]] THEN "values"
     ELSE IF ev.cells # [i \in 1..nr |-> [j \in 1..nc |-> f.cols[j].vals[i]]] THEN "iloc_cells"
     ELSE IF ev.iter_array # [j \in 1..nc |-> [dt |-> f.cols[j].dt, vals |-> f.cols[j].vals]] THEN "iter_array"
     ELSE IF ev.iter_series # [j \in 1..nc |-> [label |-> f.columns[j], index |-> f.index, dt |-> f.cols[j].dt, vals |-> f.cols[j].vals]] THEN "iter_series"
     ELSE IF ev.iter_element # [i \in 1..nr |-> [j \in 1..nc |-> f.cols[j].vals[i]]] THEN "iter_element"
     ELSE IF ev.to_pairs # [j \in 1..nc |-> <<f.columns[j], [i \in 1..nr |-> <<f.index[i], f.cols[j].vals[i]>>]>>] THEN "to_pairs"
     ELSE "ok"

Verdict(ev) == IF ev.kind = "sweep" THEN (IF AllEqual(ev.results) THEN "ok" ELSE "layout_observable") ELSE RoutesVerdict(ev)
Init == l = 1
Next == /\ l <= Len(Trace)
        /\ l' = l + 1
        /\ LET v == Verdict(Trace[l]) IN v = "ok" \/ PrintT(<<"VERDICT", Trace[l].id, v, IF Trace[l].kind = "sweep" THEN FirstDiff(Trace[l].results) ELSE 0>>)
Post == PrintT(<<"DONE", TLCGet("stats").diameter - 1>>)
=============================================================================
