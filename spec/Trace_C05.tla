------------------------------ MODULE Trace_C05 ------------------------------
(* Trace validation for IndexHierarchy (C05).  Event kinds:                                                          *)
(*   views  : one index (built by some route, or the state of a grow-only index after a step) observed through        *)
(*            every view: iteration, 2-D values, per-depth values, length, depth, membership of present and absent     *)
(*            tuples, label -> position of every tuple.  All must describe the same sequence of tuples (ev.rows).      *)
(*   select : a per-level selection; the recorded positions must be the breadth-first walk = declarative selection.   *)
(*   grow   : one growth call on a grow-only index: prev rows, the call, outcome, rows after.                          *)
EXTENDS SFHier, Json, IOUtils
Trace == ndJsonDeserialize(IOEnv.TRACE_FILE)
VARIABLE l
ViewsVerdict(ev) ==
  LET rows == ev.rows  n == Len(rows)  D == Depth(rows) IN
  IF ev.obs.k = "err" THEN "error"
  ELSE IF ~TreeOrdered(rows) THEN "not_a_tree"
  ELSE IF ev.obs.iter # rows THEN "iteration"
  ELSE IF ev.obs.len # n THEN "length"
  ELSE IF n > 0 /\ ev.obs.depth # D THEN "depth"
  ELSE IF ev.obs.values # rows THEN "values_2d"
  ELSE IF n > 0 /\ ev.obs.at_depth # [d \in 1..D |-> [i \in 1..n |-> rows[i][d]]] THEN "values_at_depth"
  ELSE IF ev.obs.lookup # SeqRange(n) THEN "label_to_position"
  ELSE IF \E i \in 1..n : LeafLocToIloc(rows, rows[i]) # i - 1 THEN "model_lookup"
  ELSE IF \E i \in 1..Len(ev.obs.member) : ~ev.obs.member[i] THEN "membership_present"
  ELSE IF \E i \in 1..Len(ev.absent) : ev.obs.member_absent[i] \/ Member(rows, ev.absent[i]) THEN "membership_absent"
  ELSE "ok"
SelectVerdict(ev) ==
  LET e == (IF ev.ismask THEN Positions(ev.key[2]) ELSE HLocWalk(ev.rows, ev.key)) IN
  IF e = <<>> THEN "ok"                                        \* selectors matching nothing are outside the claim
  ELSE IF ~ev.ismask /\ ~SliceBoundsOK(ev.rows, ev.key) THEN "ok"   \* a slice bound absent under some parent: outside the claim
  ELSE IF ~ev.ismask /\ ~Unique(e) THEN "ok"                    \* a list selector naming a label twice
  ELSE IF ev.res.k = "err" THEN "error"
  ELSE IF ev.res.ps # e THEN "positions"
  ELSE "ok"
GrowVerdict(ev) ==
  LET ok == IF ev.act.name = "append" THEN AppendOK(ev.prev, ev.act.t)
            ELSE \A i \in 1..Len(ev.act.rows) : ~Member(ev.prev, ev.act.rows[i])    \* extend: every new outer branch must be new
      want == IF ~ok THEN ev.prev ELSE IF ev.act.name = "append" THEN Append(ev.prev, ev.act.t) ELSE ev.prev \o ev.act.rows
  IN IF ev.rows # want THEN (IF ok THEN "rows_after_growth" ELSE "rejected_call_changed_index")
     ELSE IF ok # (ev.outcome = "ok") THEN "outcome"
     ELSE "ok"
Verdict(ev) == CASE ev.kind = "views" -> ViewsVerdict(ev) [] ev.kind = "select" -> SelectVerdict(ev) [] ev.kind = "grow" -> GrowVerdict(ev)
Init == l = 1
Next == /\ l <= Len(Trace)
        /\ l' = l + 1
        /\ LET v == Verdict(Trace[l]) IN v = "ok" \/ PrintT(<<"VERDICT", Trace[l].id, v, IF Trace[l].kind = "select" /\ ~Trace[l].ismask THEN HLocWalk(Trace[l].rows, Trace[l].key) ELSE <<>>>>)
Post == PrintT(<<"DONE", TLCGet("stats").diameter - 1>>)
=============================================================================
