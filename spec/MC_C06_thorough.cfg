INIT Init
NEXT Next
CONSTANT N = 3
INVARIANT RefMeetsStatement
INVARIANT PermutationInvariant
INVARIANT UnionSetAlgebra
CHECK_DEADLOCK FALSE
