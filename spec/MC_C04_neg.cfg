INIT Init
NEXT Next
CONSTANT NR = 3
CONSTANT NC = 3
CONSTANT Full = FALSE
CONSTANT AllSteps = TRUE
INVARIANT LabelsKept
INVARIANT PositionsExact
INVARIANT AbsentRaises
INVARIANT SliceAsBuiltIsRequired
INVARIANT LocIsIlocAtPositions
CHECK_DEADLOCK FALSE
