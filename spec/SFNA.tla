--------------------------------- MODULE SFNA ---------------------------------
(* Missing-value operations (C14), per cell: isna/notna, dropna, fillna (element or label-aligned container),  *)
(* directional fills with limit, leading/trailing fills, count.  Column-level (declarative) definitions, and   *)
(* the block-carried axis-1 directional fill of TypeBlocks transcribed with its bridging state.                *)
EXTENDS SFBlocks

NAMask(vals) == [i \in 1..Len(vals) |-> IsNA(vals[i])]

(* ---- declarative directional fill of one sequence -------------------------------------------------------- *)
(* forward: position i (1-based) takes the nearest preceding non-missing value, provided i lies within the     *)
(* first `limit` cells of its missing run (limit = 0: unlimited).                                              *)
PrevValid(vals, i) == LET VS == {j \in 1..(i - 1) : ~IsNA(vals[j])} IN IF VS = {} THEN 0 ELSE CHOOSE j \in VS : \A k \in VS : k <= j
NextValid(vals, i) == LET VS == {j \in (i + 1)..Len(vals) : ~IsNA(vals[j])} IN IF VS = {} THEN 0 ELSE CHOOSE j \in VS : \A k \in VS : k >= j
FillForward(vals, limit) ==
  [i \in 1..Len(vals) |-> IF ~IsNA(vals[i]) THEN vals[i]
                          ELSE LET j == PrevValid(vals, i) IN
                               IF j = 0 THEN vals[i] ELSE IF limit = 0 \/ i - j <= limit THEN vals[j] ELSE vals[i]]
FillBackward(vals, limit) ==
  [i \in 1..Len(vals) |-> IF ~IsNA(vals[i]) THEN vals[i]
                          ELSE LET j == NextValid(vals, i) IN
                               IF j = 0 THEN vals[i] ELSE IF limit = 0 \/ j - i <= limit THEN vals[j] ELSE vals[i]]
FillDir(vals, forward, limit) == IF forward THEN FillForward(vals, limit) ELSE FillBackward(vals, limit)
(* leading / trailing: only the missing run at that edge *)
FillLeading(vals, v) == [i \in 1..Len(vals) |-> IF \A j \in 1..i : IsNA(vals[j]) THEN v ELSE vals[i]]
FillTrailing(vals, v) == [i \in 1..Len(vals) |-> IF \A j \in i..Len(vals) : IsNA(vals[j]) THEN v ELSE vals[i]]
CountValid(vals) == Cardinality({i \in 1..Len(vals) : ~IsNA(vals[i])})
AnyNA(vals) == \E i \in 1..Len(vals) : IsNA(vals[i])
AllNA(vals) == \A i \in 1..Len(vals) : IsNA(vals[i])

(* the dtype a column takes when value v is written into it (only when something is written) *)
FilledDtype(dt, v) == Resolve(dt, IF Tag(v) = "s" THEN <<"U", Len(v[2])>> ELSE DtypeFromElement(v))
FilledCol(col, newvals, v) == IF newvals = col.vals THEN col
                              ELSE LET dt == FilledDtype(col.dt, v) IN [dt |-> dt, vals |-> CastSeq(newvals, dt)]

(* ---- Series --------------------------------------------------------------------------------------------- *)
SerCol(s) == [dt |-> s.dt, vals |-> s.vals]
OfCol(s, c) == MkSeries(s.index, c.vals, c.dt, s.name)
SeriesIsna(s, neg) == MkSeries(s.index, [i \in 1..Len(s.vals) |-> B(IsNA(s.vals[i]) # neg)], DtB, None)
SeriesDropna(s) == LET keep == SelectSeq(SeqRange(Len(s.vals)), LAMBDA p : ~IsNA(s.vals[p + 1])) IN
                   IF keep = <<>> THEN MkSeries(<<>>, <<>>, DtF64, None)      \* as built: an empty result forgets dtype and name
                   ELSE MkSeries(Take(s.index, keep), Take(s.vals, keep), s.dt, s.name)
SeriesFillna(s, v) == OfCol(s, FilledCol(SerCol(s), [i \in 1..Len(s.vals) |-> IF IsNA(s.vals[i]) THEN v ELSE s.vals[i]], v))
SeriesFillDir(s, forward, limit) == MkSeries(s.index, FillDir(s.vals, forward, limit), s.dt, s.name)
SeriesFillSided(s, leading, v) == OfCol(s, FilledCol(SerCol(s), IF leading THEN FillLeading(s.vals, v) ELSE FillTrailing(s.vals, v), v))
(* fillna with a labelled Series: a missing cell takes the value's entry for its label, if the value has one *)
SeriesFillnaSeries(s, val) ==
  LET nv == [i \in 1..Len(s.vals) |-> IF IsNA(s.vals[i]) /\ Member(val[2], s.index[i]) THEN At(val[3], Find(val[2], s.index[i])) ELSE s.vals[i]]
      dt == IF nv = s.vals THEN s.dt ELSE Resolve(s.dt, val[4])
  IN MkSeries(s.index, CastSeq(nv, dt), dt, s.name)

(* ---- Frame ----------------------------------------------------------------------------------------------- *)
RowVals(f, i) == [j \in 1..NCols(f) |-> f.cols[j].vals[i]]
FrameIsna(f, neg) == MkFrame(f.index, f.columns, [j \in 1..NCols(f) |-> [dt |-> DtB, vals |-> [i \in 1..NRows(f) |-> B(IsNA(f.cols[j].vals[i]) # neg)]]], None)
(* dropna(axis, condition): axis 0 drops rows, axis 1 drops columns; condition "all" | "any" over the other axis *)
FrameDropna(f, axis, cond) ==
  LET dropRow(i) == IF cond = "all" THEN AllNA(RowVals(f, i)) ELSE AnyNA(RowVals(f, i))
      dropCol(j) == IF cond = "all" THEN AllNA(f.cols[j].vals) ELSE AnyNA(f.cols[j].vals)
      keepr == IF axis = 0 THEN SelectSeq(SeqRange(NRows(f)), LAMBDA p : ~dropRow(p + 1)) ELSE SeqRange(NRows(f))
      keepc == IF axis = 1 THEN SelectSeq(SeqRange(NCols(f)), LAMBDA p : ~dropCol(p + 1)) ELSE SeqRange(NCols(f))
  IN MkFrame(Take(f.index, keepr), Take(f.columns, keepc),
             [j \in 1..Len(keepc) |-> [dt |-> At(f.cols, keepc[j]).dt, vals |-> Take(At(f.cols, keepc[j]).vals, keepr)]], f.name)
FrameFillna(f, v) == MkFrame(f.index, f.columns,
   [j \in 1..NCols(f) |-> FilledCol(f.cols[j], [i \in 1..NRows(f) |-> IF IsNA(f.cols[j].vals[i]) THEN v ELSE f.cols[j].vals[i]], v)], f.name)
(* fillna with a labelled Frame: a missing cell takes the value's cell for its (row label, column label), if the value has  *)
(* both labels and holds a non-missing cell there; every other cell - in particular every cell of a column or row the value   *)
(* does not cover - is untouched.  As built the dtype of a filled column depends on the dtypes of ALL columns of the value     *)
(* (it is re-indexed and read as one 2-D array), so the result is stated dtype-free and with one missing marker (LooseCols).  *)
FillFromFrame(f, val, i, j) ==
  LET pc == Find(val.columns, f.columns[j])
      pr == Find(val.index, f.index[i])
      old == f.cols[j].vals[i]
  IN IF IsNA(old) /\ pc >= 0 /\ pr >= 0 /\ ~IsNA(At(At(val.cols, pc).vals, pr)) THEN At(At(val.cols, pc).vals, pr) ELSE old
FrameFillnaFrame(f, val) ==
  MkFrame(f.index, f.columns, [j \in 1..NCols(f) |-> [dt |-> f.cols[j].dt, vals |-> [i \in 1..NRows(f) |-> FillFromFrame(f, val, i, j)]]], f.name)
FrameCount(f, axis) ==
  IF axis = 0 THEN MkSeries(f.columns, [j \in 1..NCols(f) |-> <<"i", CountValid(f.cols[j].vals)>>], DtI64, None)
  ELSE MkSeries(f.index, [i \in 1..NRows(f) |-> <<"i", CountValid(RowVals(f, i))>>], DtI64, None)
(* cell values of a directional / sided fill; dtypes along axis 1 follow the block layout as built (C03 finding), *)
(* so axis-1 results are stated dtype-free (LooseCols)                                                           *)
LooseVal(v) == IF IsNA(v) THEN <<"na">> ELSE IF Tag(v) = "f" /\ v[3] = 1 THEN <<"i", v[2]>> ELSE v     \* which marker an unfilled cell keeps is not an observable
LooseCols(cols) == [j \in 1..Len(cols) |-> [dt |-> <<"any", 0>>, vals |-> [i \in 1..Len(cols[j].vals) |-> LooseVal(cols[j].vals[i])]]]
ColsFromRows(rows, nc) == [j \in 1..nc |-> [dt |-> <<"any", 0>>, vals |-> [i \in 1..Len(rows) |-> rows[i][j]]]]
FrameFillDir(f, forward, limit, axis) ==
  IF axis = 0 THEN MkFrame(f.index, f.columns, [j \in 1..NCols(f) |-> [dt |-> f.cols[j].dt, vals |-> FillDir(f.cols[j].vals, forward, limit)]], f.name)
  ELSE MkFrame(f.index, f.columns, LooseCols(ColsFromRows([i \in 1..NRows(f) |-> FillDir(RowVals(f, i), forward, limit)], NCols(f))), f.name)
FrameFillSided(f, leading, v, axis) ==
  IF axis = 0 THEN MkFrame(f.index, f.columns, [j \in 1..NCols(f) |-> FilledCol(f.cols[j], IF leading THEN FillLeading(f.cols[j].vals, v) ELSE FillTrailing(f.cols[j].vals, v), v)], f.name)
  ELSE MkFrame(f.index, f.columns, LooseCols(ColsFromRows([i \in 1..NRows(f) |-> IF leading THEN FillLeading(RowVals(f, i), v) ELSE FillTrailing(RowVals(f, i), v)], NCols(f))), f.name)

(* ---- TypeBlocks._fillna_directional_axis_1, transcribed -------------------------------------------------- *)
(* Blocks are visited in fill direction; per row the last valid value seen (bridging value), the number of       *)
(* missing cells since it (bridging count) and whether one exists (bridging isna = none yet) are carried across   *)
(* block boundaries.                                                                                             *)
(* One block, one row: cells in fill direction; st = [has, val, cnt]; returns <<filled cells, st'>>              *)
RECURSIVE RowThroughBlock(_, _, _, _)
RowThroughBlock(cells, k, st, limit) ==
  IF k > Len(cells) THEN <<<<>>, st>>
  ELSE LET c == cells[k]
           fillable == IsNA(c) /\ st.has /\ (limit = 0 \/ st.cnt < limit)
           out == IF fillable THEN st.val ELSE c
           st2 == IF ~IsNA(c) THEN [has |-> TRUE, val |-> c, cnt |-> 0]
                  ELSE [st EXCEPT !.cnt = @ + 1]
           rest == RowThroughBlock(cells, k + 1, st2, limit)
       IN <<<<out>> \o rest[1], rest[2]>>
RECURSIVE RowThroughBlocks(_, _, _, _, _)
RowThroughBlocks(blocks, order, bi, st, limit) ==       \* order: block indices in fill direction
  IF bi > Len(order) THEN <<>>
  ELSE LET r == RowThroughBlock(blocks[order[bi]], 1, st, limit) IN <<r[1]>> \o RowThroughBlocks(blocks, order, bi + 1, r[2], limit)
(* blocksRow: Seq over blocks of the row's cells in that block (left to right).  Result: the row, left to right *)
ConcatAll(ss) == FoldLeft(LAMBDA a, b : a \o b, <<>>, ss)
BlockRowFill(blocksRow, forward, limit) ==
  LET nb == Len(blocksRow)
      order == IF forward THEN [i \in 1..nb |-> i] ELSE [i \in 1..nb |-> nb + 1 - i]
      dirBlocks == [i \in 1..nb |-> IF forward THEN blocksRow[i] ELSE RevSeq(blocksRow[i])]
      filled == RowThroughBlocks(dirBlocks, order, 1, [has |-> FALSE, val |-> NaN, cnt |-> 0], limit)
      perBlock == [i \in 1..nb |-> LET pos == IF forward THEN i ELSE nb + 1 - i IN IF forward THEN filled[pos] ELSE RevSeq(filled[pos])]
  IN ConcatAll(perBlock)
=============================================================================
