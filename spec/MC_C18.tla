------------------------------- MODULE MC_C18 -------------------------------
(* every schedule of one pooled application: N items, W workers, chunks of C, failing items, eager (as built) or lazy submission *)
EXTENDS SFPool
CONSTANTS N, W, C, Fails, Eager
VARIABLES s, act
vars == <<s, act>>
P == [n |-> N, w |-> W, c |-> C, fails |-> Fails, eager |-> Eager]
Init == s = S0 /\ act = <<"init">>
Next == \/ s.phase = "map" /\ s' = CallMap(s, P) /\ act' = <<"map">>
        \/ \E c \in 1..NChunks(P) : CanStart(s, P, c) /\ s' = DoStart(s, c) /\ act' = <<"start", c>>
        \/ \E c \in 1..NChunks(P) : CanFinish(s, c) /\ s' = DoFinish(s, c) /\ act' = <<"finish", c>>
        \/ CanYield(s, P) /\ s' = DoYield(s, P) /\ act' = <<"yield">>
Spec == Init /\ [][Next]_vars /\ WF_vars(Next)
InvPaired == PairedAndOrdered(s, P)
InvComplete == CompleteOrError(s, P)
InvError == ErrorIsReal(s, P)
InvNoLater == NoLaterThanFailure(s, P)
Terminates == <>(s.phase \in {"finished", "error"})
=============================================================================
