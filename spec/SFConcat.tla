------------------------------- MODULE SFConcat -------------------------------
(* Concatenation and overlay (C11), stated on (row label, column label) -> value maps.                          *)
(* A numeric frame here is [index, columns, cols] with cols[j][i] canonical values (<<"q",n,d>>, NaN, text).     *)
EXTENDS SFAlign

RECURSIVE ConcatSeqs(_)
ConcatSeqs(ss) == IF ss = <<>> THEN <<>> ELSE Head(ss) \o ConcatSeqs(Tail(ss))
RECURSIVE UnionOrdered(_)
UnionOrdered(ss) == IF ss = <<>> THEN <<>> ELSE LET r == UnionOrdered(Front(ss)) IN r \o SelectSeq(Last(ss), LAMBDA x : ~Member(r, x))
InterAll(ss) == IF ss = <<>> THEN <<>> ELSE SelectSeq(ss[1], LAMBDA x : \A k \in 1..Len(ss) : Member(ss[k], x))
AlongLabels(f, axis) == IF axis = 0 THEN f.index ELSE f.columns           \* labels on the concatenation axis
AcrossLabels(f, axis) == IF axis = 0 THEN f.columns ELSE f.index          \* labels on the aligned axis
CellAt(f, r, c) == Lookup2(f, r, c)

(* the declarative statement about a recorded concatenation result *)
(* along: the labels of res on the concatenation axis; owner(k): which input the k-th of them came from        *)
RECURSIVE Owners(_, _, _)
Owners(frames, axis, k) == IF k > Len(frames) THEN <<>> ELSE [i \in 1..Len(AlongLabels(frames[k], axis)) |-> k] \o Owners(frames, axis, k + 1)
ConcatOK(frames, axis, union, fill, auto, res) ==
  LET along == ConcatSeqs([k \in 1..Len(frames) |-> AlongLabels(frames[k], axis)])
      owners == Owners(frames, axis, 1)
      acrossAll == [k \in 1..Len(frames) |-> AcrossLabels(frames[k], axis)]
      wantAcross == IF union THEN AsSet(UnionOrdered(acrossAll)) ELSE AsSet(InterAll(acrossAll))
      resAlong == AlongLabels(res, axis)
      resAcross == AcrossLabels(res, axis)
  IN /\ Len(resAlong) = Len(along)
     /\ (IF auto THEN resAlong = [i \in 1..Len(along) |-> <<"i", i - 1>>] ELSE resAlong = along)       \* inputs' labels, in input order
     /\ Unique(resAcross) /\ AsSet(resAcross) = wantAcross
     /\ (\A k \in 1..Len(frames) : acrossAll[k] = acrossAll[1]) => resAcross = acrossAll[1]            \* equal labels keep their order
     /\ \A i \in 1..Len(along), j \in 1..Len(resAcross) :
           LET src == frames[owners[i]]
               a == along[i]   x == resAcross[j]
               present == Member(AcrossLabels(src, axis), x)
               want == IF ~present THEN fill ELSE IF axis = 0 THEN CellAt(src, a, x) ELSE CellAt(src, x, a)
               got == IF axis = 0 THEN At(At(res.cols, j - 1), i - 1) ELSE At(At(res.cols, i - 1), j - 1)
           IN got = want
ConcatRejects(frames, axis, auto) == ~auto /\ ~Unique(ConcatSeqs([k \in 1..Len(frames) |-> AlongLabels(frames[k], axis)]))

(* reference construction (dictionary style), used by the model instance *)
ConcatRef(frames, axis, union, fill) ==
  LET along == ConcatSeqs([k \in 1..Len(frames) |-> AlongLabels(frames[k], axis)])
      owners == Owners(frames, axis, 1)
      acrossAll == [k \in 1..Len(frames) |-> AcrossLabels(frames[k], axis)]
      across == IF union THEN UnionOrdered(acrossAll) ELSE InterAll(acrossAll)
      V(i, j) == LET src == frames[owners[i]] IN
                 IF ~Member(AcrossLabels(src, axis), across[j]) THEN fill
                 ELSE IF axis = 0 THEN CellAt(src, along[i], across[j]) ELSE CellAt(src, across[j], along[i])
  IN IF ~Unique(along) THEN Err("init")
     ELSE IF axis = 0 THEN [k |-> "nframe", index |-> along, columns |-> across, cols |-> [j \in 1..Len(across) |-> [i \in 1..Len(along) |-> V(i, j)]]]
     ELSE [k |-> "nframe", index |-> across, columns |-> along, cols |-> [i \in 1..Len(along) |-> [j \in 1..Len(across) |-> V(i, j)]]]

(* overlay: per cell the first non-missing value in input order, over the union of the labels *)
OverlayOK(frames, res) ==
  LET rows == [k \in 1..Len(frames) |-> frames[k].index]   cols == [k \in 1..Len(frames) |-> frames[k].columns] IN
  /\ Unique(res.index) /\ AsSet(res.index) = AsSet(UnionOrdered(rows))
  /\ Unique(res.columns) /\ AsSet(res.columns) = AsSet(UnionOrdered(cols))
  /\ \A i \in 1..Len(res.index), j \in 1..Len(res.columns) :
        LET cand == SelectSeq([k \in 1..Len(frames) |-> CellAt(frames[k], res.index[i], res.columns[j])], LAMBDA v : ~IsNA(v))
        IN res.cols[j][i] = (IF cand = <<>> THEN NaN ELSE cand[1])
SeriesOverlayOK(sers, res) ==
  /\ Unique(res.index) /\ AsSet(res.index) = AsSet(UnionOrdered([k \in 1..Len(sers) |-> sers[k].index]))
  /\ \A i \in 1..Len(res.index) :
        LET cand == SelectSeq([k \in 1..Len(sers) |-> Lookup1(sers[k].index, sers[k].vals, res.index[i])], LAMBDA v : ~IsNA(v))
        IN res.vals[i] = (IF cand = <<>> THEN NaN ELSE cand[1])
SeriesConcatOK(sers, auto, res) ==
  LET along == ConcatSeqs([k \in 1..Len(sers) |-> sers[k].index]) IN
  /\ (IF auto THEN res.index = [i \in 1..Len(along) |-> <<"i", i - 1>>] ELSE res.index = along)
  /\ res.vals = ConcatSeqs([k \in 1..Len(sers) |-> sers[k].vals])
(* items form: every label on the concatenation axis becomes (key, inner label) *)
ItemsLabels(keys, frames, axis) == ConcatSeqs([k \in 1..Len(frames) |-> [i \in 1..Len(AlongLabels(frames[k], axis)) |-> <<"t", <<keys[k], AlongLabels(frames[k], axis)[i]>>>>]])
=============================================================================
