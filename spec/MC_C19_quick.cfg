INIT Init
NEXT Next
CONSTANT Sizes <- SizesQuick
INVARIANT WellFormedQ
INVARIANT MaskExtractionIsSelection
INVARIANT MemberGroupedIsSelection
INVARIANT TranslationCovers
CHECK_DEADLOCK FALSE
