------------------------------- MODULE MC_C07 -------------------------------
(* Exhaustive over ordered dtype pairs: the resolved dtype holds every natural element of both operands, except   *)
(* in the cells named KnownLossy; MC_C07_neg.cfg drops the exception and must fail (that is finding C07-int64-   *)
(* float at design level).                                                                                        *)
EXTENDS SFCoerce
CONSTANT Strict
VARIABLES cs, res
vars == <<cs, res>>
Pending == [k |-> "pending"]
Init == /\ \E a \in Dtypes, b \in Dtypes : cs = [a |-> a, b |-> b]
        /\ res = Pending
Call == res.k = "pending" /\ res' = [k |-> "dtype", dt |-> Resolve(cs.a, cs.b)] /\ UNCHANGED cs
Next == Call
Spec == Init /\ [][Next]_vars
Done == res.k = "dtype"
NoLoss == Done => ((Strict \/ ~KnownLossy(cs.a, cs.b)) => \A e \in Natural(cs.a) \cup Natural(cs.b) : Holds(res.dt, e))
Symmetric == Resolve(cs.a, cs.b) = Resolve(cs.b, cs.a) \/ {Kind(cs.a), Kind(cs.b)} = {"U", "S"}
Idempotent == Resolve(cs.a, cs.a) = cs.a
ObjectAbsorbs == Resolve(cs.a, DtO) = DtO
=============================================================================
