-------------------------------- MODULE SFHier --------------------------------
(* IndexHierarchy (C05): the table view (a sequence of label tuples, one per position) and the tree view (nested   *)
(* IndexLevel nodes with per-node offsets) of one index, the label -> position lookup through the tree, and the    *)
(* per-level (HLoc) selection: its declarative reading next to the breadth-first walk of IndexLevel.loc_to_iloc.  *)
EXTENDS SFFrame

(* rows: Seq of tuples (each a Seq of labels of length D).  A label set is a tree in the given order iff rows with  *)
(* equal prefixes are contiguous and no tuple repeats.                                                              *)
Prefix(t, d) == SubSeq(t, 1, d)
TreeOrdered(rows) ==
  /\ Unique(rows)
  /\ \A i, j, k \in 1..Len(rows) : \A d \in 1..(IF rows = <<>> THEN 0 ELSE Len(rows[1])) :
        (i < j /\ j < k /\ Prefix(rows[i], d) = Prefix(rows[k], d)) => Prefix(rows[j], d) = Prefix(rows[i], d)
Depth(rows) == IF rows = <<>> THEN 0 ELSE Len(rows[1])

(* ---- the tree: node = [labels, children, offset, size]; children = <<>> at the innermost depth ----------------- *)
RECURSIVE TreeOf(_, _, _, _)
TreeOf(rows, d, D, offset) ==        \* rows all share their first d-1 labels; offset relative to the parent's start
  LET labs == Dedupe([i \in 1..Len(rows) |-> rows[i][d]])
      Sub(l) == SelectSeq(rows, LAMBDA r : r[d] = l)
      Start(k) == SumSeq([j \in 1..(k - 1) |-> Len(Sub(labs[j]))])
  IN [labels |-> labs, offset |-> offset, size |-> Len(rows),
      children |-> IF d = D THEN <<>> ELSE [k \in 1..Len(labs) |-> TreeOf(Sub(labs[k]), d + 1, D, Start(k))]]
Tree(rows) == TreeOf(rows, 1, Depth(rows), 0)
(* iteration of the tree yields the rows *)
RECURSIVE LeavesOf(_, _)
LeavesOf(node, prefix) ==
  IF node.children = <<>> THEN [k \in 1..Len(node.labels) |-> Append(prefix, node.labels[k])]
  ELSE FoldLeft(LAMBDA acc, k : acc \o LeavesOf(node.children[k], Append(prefix, node.labels[k])), <<>>, [k \in 1..Len(node.labels) |-> k])
(* IndexLevel.leaf_loc_to_iloc: descend by label, adding the offset of every node entered *)
RECURSIVE LeafWalk(_, _, _, _)
LeafWalk(node, t, d, pos) ==
  LET p == Find(node.labels, t[d]) IN
  IF p < 0 THEN -1
  ELSE IF node.children = <<>> THEN (IF d = Len(t) THEN pos + p ELSE -1)
  ELSE LeafWalk(node.children[p + 1], t, d + 1, pos + node.children[p + 1].offset)
LeafLocToIloc(rows, t) == IF rows = <<>> THEN -1 ELSE LeafWalk(Tree(rows), t, 1, 0)

(* ---- per-level selectors: <<"all">> <<"loc",l>> <<"loclist",<<l,...>>>> <<"locslice",a,b>> (a, b label or SNone) *)
(* positions (0-based) in `labels` a selector picks, in the order it picks them; partial: absent labels are skipped *)
LevelPick(labels, sel) ==
  CASE sel[1] = "all" -> SeqRange(Len(labels))
    [] sel[1] = "loc" -> LET p == Find(labels, sel[2]) IN IF p < 0 THEN <<>> ELSE <<p>>
    [] sel[1] = "loclist" -> SelectSeq([i \in 1..Len(sel[2]) |-> Find(labels, sel[2][i])], LAMBDA p : p >= 0)
    [] sel[1] = "locslice" ->
         LET pa == IF IsSNone(sel[2]) THEN 0 ELSE Find(labels, sel[2])
             pb == IF IsSNone(sel[3]) THEN Len(labels) - 1 ELSE Find(labels, sel[3])
         IN IF pa < 0 \/ pb < 0 THEN <<>> ELSE RangeSeq(pa, pb + 1, 1)
(* the breadth-first walk of IndexLevel.loc_to_iloc for an HLoc key: a queue of <<node, depth, offset>> *)
RECURSIVE HLocBFS(_, _, _)
HLocBFS(queue, key, acc) ==
  IF queue = <<>> THEN acc
  ELSE LET node == Head(queue)[1]   d == Head(queue)[2]   offset == Head(queue)[3]
           nextOffset == offset + node.offset
           picks == LevelPick(node.labels, key[d])
       IN IF node.children = <<>>
            THEN HLocBFS(Tail(queue), key, acc \o [i \in 1..Len(picks) |-> picks[i] + nextOffset])
            ELSE HLocBFS(Tail(queue) \o [i \in 1..Len(picks) |-> <<node.children[picks[i] + 1], d + 1, nextOffset>>], key, acc)
HLocWalk(rows, key) == IF rows = <<>> THEN <<>> ELSE HLocBFS(<<<<Tree(rows), 1, 0>>>>, key, <<>>)

(* the declarative reading: positions whose tuple matches every level selector; index order, except that a list      *)
(* selector orders the matches of its level by the list (within each parent); a slice selector is read against the      *)
(* labels present under that parent                                                                                     *)
RECURSIVE RefSel(_, _, _, _)
RefSel(rows, P, key, d) ==       \* P: 0-based positions sharing their first d-1 labels, in the order selected so far
  IF d > Depth(rows) \/ P = <<>> THEN P
  ELSE LET labs == Dedupe([i \in 1..Len(P) |-> rows[P[i] + 1][d]])
           picks == LevelPick(labs, key[d])
       IN FoldLeft(LAMBDA acc, k : acc \o RefSel(rows, SelectSeq(P, LAMBDA p : rows[p + 1][d] = labs[picks[k] + 1]), key, d + 1),
                   <<>>, [k \in 1..Len(picks) |-> k])
RefSelect(rows, key) == RefSel(rows, SeqRange(Len(rows)), key, 1)
(* a slice selector is inside the claim when both its bounds exist under every parent it is applied to *)
RECURSIVE SliceBoundsOKFrom(_, _, _, _)
SliceBoundsOKFrom(rows, P, key, d) ==
  IF d > Depth(rows) \/ P = <<>> THEN TRUE
  ELSE LET labs == Dedupe([i \in 1..Len(P) |-> rows[P[i] + 1][d]])
           okHere == key[d][1] # "locslice" \/ ((IsSNone(key[d][2]) \/ Member(labs, key[d][2])) /\ (IsSNone(key[d][3]) \/ Member(labs, key[d][3])))
           picks == LevelPick(labs, key[d])
       IN okHere /\ \A k \in 1..Len(picks) : SliceBoundsOKFrom(rows, SelectSeq(P, LAMBDA p : rows[p + 1][d] = labs[picks[k] + 1]), key, d + 1)
SliceBoundsOK(rows, key) == SliceBoundsOKFrom(rows, SeqRange(Len(rows)), key, 1)
KeyIsMultiple(key) == \E d \in 1..Len(key) : key[d][1] # "loc"

(* ---- grow-only: append one full-depth tuple ------------------------------------------------------------------------ *)
(* accepted iff the tuple is new and keeps the label set a tree in the given order (its longest existing prefix must   *)
(* be the prefix of the last row); it then becomes the last position                                                   *)
AppendOK(rows, t) == ~Member(rows, t) /\ TreeOrdered(Append(rows, t)) /\ (rows = <<>> \/ Len(t) = Depth(rows))
=============================================================================
