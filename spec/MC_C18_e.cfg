SPECIFICATION Spec
CONSTANT N = 6
CONSTANT W = 3
CONSTANT C = 1
CONSTANT Fails = {}
CONSTANT Eager = TRUE
INVARIANT InvPaired
INVARIANT InvComplete
INVARIANT InvError
INVARIANT InvNoLater
PROPERTY Terminates
CHECK_DEADLOCK FALSE
