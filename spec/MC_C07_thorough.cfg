INIT Init
NEXT Next
CONSTANT Strict = FALSE
INVARIANT NoLoss
INVARIANT Symmetric
INVARIANT Idempotent
INVARIANT ObjectAbsorbs
CHECK_DEADLOCK FALSE
