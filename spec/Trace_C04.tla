------------------------------ MODULE Trace_C04 ------------------------------
(* Trace validation for selection (C04): every recorded call {id, cs:{op, f|s, rk, ck}, res} must be the     *)
(* result the column-level specification prescribes.                                                       *)
EXTENDS SFFrame, Json, IOUtils
Trace == ndJsonDeserialize(IOEnv.TRACE_FILE)
VARIABLE l
Expected(cs) ==
  CASE cs.op = "f_iloc" -> FrameIloc(cs.f, cs.rk, cs.ck)
    [] cs.op = "f_loc" -> FrameLoc(cs.f, cs.rk, cs.ck)
    [] cs.op = "f_getitem" -> FrameGetItem(cs.f, cs.ck)
    [] cs.op = "f_bloc" -> FrameBloc(cs.f, cs.mask)
    [] cs.op = "s_iloc" -> SeriesIloc(cs.s, cs.rk)
    [] cs.op = "s_loc" -> SeriesLoc(cs.s, cs.rk)
    [] cs.op = "s_getitem" -> SeriesLoc(cs.s, cs.rk)
Verdict(ev) == Diff(Expected(ev.cs), ev.res)
Init == l = 1
Next == /\ l <= Len(Trace)
        /\ l' = l + 1
        /\ LET e == Expected(Trace[l].cs)
               v == Diff(e, Trace[l].res)
           IN v = "ok" \/ PrintT(<<"VERDICT", Trace[l].id, v, e>>)
Post == PrintT(<<"DONE", TLCGet("stats").diameter - 1>>)
=============================================================================
