------------------------------ MODULE Trace_C12 ------------------------------
(* Trace validation for sorting (C12).  A recorded call carries the result and the permutation `order` (the     *)
(* source position of every result label).  Checked per event, in time linear in the container size apart from  *)
(* the key comparisons: whole rows moved (res = source taken at order, incl. names, columns, dtypes), order is  *)
(* a permutation, keys non-decreasing (non-increasing for descending), ties in input order (descending: exact   *)
(* reverse of the stable ascending arrangement).                                                                *)
EXTENDS SFSort, Json, IOUtils
Trace == ndJsonDeserialize(IOEnv.TRACE_FILE)
VARIABLE l
Verdict(ev) ==
  LET cs == ev.cs  n == SortLen(cs) IN
  IF ev.res.k = "err" THEN "error"
  ELSE IF Len(ev.order) # n THEN "length"
  ELSE IF ~IsPerm0(ev.order, n) THEN "not_a_permutation"
  ELSE IF ev.res # SortApply(cs, ev.order) THEN "rows_not_moved_whole"
  ELSE IF ~IsStableSortOrder(SortKeys(cs), n, ev.order, cs.ascending) THEN "not_sorted_or_not_stable"
  ELSE "ok"
Init == l = 1
Next == /\ l <= Len(Trace)
        /\ l' = l + 1
        /\ LET v == Verdict(Trace[l]) IN v = "ok" \/ PrintT(<<"VERDICT", Trace[l].id, v, <<>>>>)
Post == PrintT(<<"DONE", TLCGet("stats").diameter - 1>>)
=============================================================================
