INIT Init
NEXT Next
CONSTANT K = 2
INVARIANT RefMeetsStatement
INVARIANT DupRejected
INVARIANT CellConservation
CHECK_DEADLOCK FALSE
