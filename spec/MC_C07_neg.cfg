INIT Init
NEXT Next
CONSTANT Strict = TRUE
INVARIANT NoLoss
CHECK_DEADLOCK FALSE
