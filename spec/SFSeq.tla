-------------------------------- MODULE SFSeq --------------------------------
(* Sequence machinery shared by every model: Python-exact slices, positions (0-based, as in the code),  *)
(* stable sorting, de-duplication, permutations.                                                          *)
EXTENDS Integers, Sequences, FiniteSets, SequencesExt, TLC

SNone == <<"none">>                       \* a slice component that is None
SI(n) == <<"i", n>>
IsSNone(c) == c[1] = "none"
SVal(c) == c[2]

(* range(start, stop, step) as a sequence of 0-based positions *)
RECURSIVE RangeSeq(_, _, _)
RangeSeq(a, b, st) ==
  IF (st > 0 /\ a >= b) \/ (st < 0 /\ a <= b) THEN <<>>
  ELSE <<a>> \o RangeSeq(a + st, b, st)

(* slice(start, stop, step).indices(n) exactly as CPython computes it; step is SNone or a non-zero int *)
SliceIndices(start, stop, step, n) ==
  LET st == IF IsSNone(step) THEN 1 ELSE SVal(step)
      lower == IF st < 0 THEN -1 ELSE 0
      upper == IF st < 0 THEN n - 1 ELSE n
      Clamp(c, dflt) ==
        IF IsSNone(c) THEN dflt
        ELSE LET v == SVal(c) IN
             IF v < 0 THEN (IF v + n < lower THEN lower ELSE v + n)
             ELSE (IF v > upper THEN upper ELSE v)
      a == Clamp(start, IF st < 0 THEN upper ELSE lower)
      b == Clamp(stop, IF st < 0 THEN lower ELSE upper)
  IN <<a, b, st>>

(* the positions seq[start:stop:step] denotes on a sequence of length n *)
PySlice(start, stop, step, n) ==
  LET t == SliceIndices(start, stop, step, n) IN RangeSeq(t[1], t[2], t[3])

(* element at a 0-based position *)
At(s, p) == s[p + 1]
(* normalise a possibly negative integer position; -1 when out of range *)
NormPos(p, n) == IF p >= 0 THEN (IF p < n THEN p ELSE -1) ELSE (IF p + n >= 0 THEN p + n ELSE -1)
Take(s, ps) == [i \in 1..Len(ps) |-> At(s, ps[i])]

SeqRange(n) == [i \in 1..n |-> i - 1]          \* <<0, 1, ..., n-1>>
Positions(mask) == SelectSeq(SeqRange(Len(mask)), LAMBDA p : mask[p + 1])   \* True positions of a Boolean sequence

(* first 0-based position of x in s, or -1 *)
RECURSIVE FindFrom(_, _, _)
FindFrom(s, x, i) == IF i > Len(s) THEN -1 ELSE IF s[i] = x THEN i - 1 ELSE FindFrom(s, x, i + 1)
Find(s, x) == FindFrom(s, x, 1)
Member(s, x) == \E i \in 1..Len(s) : s[i] = x
Unique(s) == \A i, j \in 1..Len(s) : i # j => s[i] # s[j]

(* order-preserving de-duplication *)
RECURSIVE DedupeFrom(_, _, _)
DedupeFrom(s, i, acc) == IF i > Len(s) THEN acc
                         ELSE DedupeFrom(s, i + 1, IF Member(acc, s[i]) THEN acc ELSE Append(acc, s[i]))
Dedupe(s) == DedupeFrom(s, 1, <<>>)

IsPerm0(ps, n) == Len(ps) = n /\ \A p \in 0..(n - 1) : \E i \in 1..n : ps[i] = p   \* ps is a permutation of 0..n-1
RevSeq(s) == [i \in 1..Len(s) |-> s[Len(s) + 1 - i]]

(* Stable ascending argsort, declaratively: the rank of position i is the number of positions that must come *)
(* before it: those with a smaller key, and those with an equal key that come earlier in the input.            *)
(* Lt is a strict weak order on 0-based positions.                                                            *)
StableRanks(n, Lt(_, _)) ==
  [i \in 0..(n - 1) |-> Cardinality({j \in 0..(n - 1) : Lt(j, i) \/ (~Lt(i, j) /\ j < i)})]
StableArgsort(n, Lt(_, _)) ==
  LET rk == StableRanks(n, Lt) IN [r \in 1..n |-> CHOOSE i \in 0..(n - 1) : rk[i] = r - 1]

SumSeq(s) == FoldLeft(LAMBDA a, b : a + b, 0, s)
=============================================================================
