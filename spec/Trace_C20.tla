------------------------------ MODULE Trace_C20 ------------------------------
(* Trace validation for reshaping and relational operations (C20): every recorded call {id, cs, res} on a real Frame  *)
(* must be the result the relational definitions of SFRel prescribe (labels of pivot / unstack / join results are       *)
(* compared as sets, join rows as a bag of (left label, right label, cells)).                                           *)
EXTENDS SFRel, Json, IOUtils
Trace == ndJsonDeserialize(IOEnv.TRACE_FILE)
VARIABLE l
Init == l = 1
Next == /\ l <= Len(Trace)
        /\ l' = l + 1
        /\ LET e == Apply20(Trace[l].cs)
               v == Diff20(e, Trace[l].res)
           IN v = "ok" \/ PrintT(<<"VERDICT", Trace[l].id, v, e>>)
Post == PrintT(<<"DONE", TLCGet("stats").diameter - 1>>)
=============================================================================
