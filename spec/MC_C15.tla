------------------------------- MODULE MC_C15 -------------------------------
(* Small-scope instance for axis reductions (C15).  A state is one call on a small Frame over {0,1,2,1/2,NaN};  *)
(* invariants: the Frame result is the per-line result (by construction of the definition, re-stated through    *)
(* the row/column views), skipna semantics, and the design question behind the block-wise evaluation along    *)
(* axis 1: evaluating per block and combining is sound exactly for the functions flagged composable.          *)
EXTENDS SFReduce
CONSTANTS NR, NC, WithBool
VARIABLES cs, res
vars == <<cs, res>>
CellVals == {<<"i", 0>>, <<"i", 1>>, <<"i", 2>>, <<"f", 1, 2>>, NaN}
Fns == {"sum", "prod", "min", "max", "mean", "median", "var", "all", "any"}
Pending == [k |-> "pending"]
FrameOf(m) == [index |-> [i \in 1..NR |-> <<"i", i - 1>>], columns |-> [j \in 1..NC |-> <<"s", <<"a", "b", "c">>[j]>>], name |-> None,
               cols |-> [j \in 1..NC |-> [dt |-> DtF64, vals |-> [i \in 1..NR |-> Cast(m[i][j], DtF64)]]]]
(* a second family: a Boolean first column next to float columns (the whole-frame dtype resolves to object), one row *)
FrameOfB(b, m) == [index |-> <<<<"i", 0>>>>, columns |-> [j \in 1..NC |-> <<"s", <<"a", "b", "c">>[j]>>], name |-> None,
                   cols |-> [j \in 1..NC |-> IF j = 1 THEN [dt |-> DtB, vals |-> <<b>>] ELSE [dt |-> DtF64, vals |-> <<Cast(m[j], DtF64)>>]]]
Init == /\ \/ \E m \in [1..NR -> [1..NC -> CellVals]], fn \in Fns, ax \in {0, 1}, sk \in BOOLEAN, dd \in {0, 1} :
                 cs = [op |-> "f_reduce", f |-> FrameOf(m), fn |-> fn, axis |-> ax, skipna |-> sk, ddof |-> IF fn = "var" THEN dd ELSE 0]
           \/ \E b \in {<<"b", 0>>, <<"b", 1>>}, m \in [2..NC -> CellVals], fn \in Fns, ax \in {0, 1}, sk \in BOOLEAN :
                 WithBool /\ cs = [op |-> "f_reduce", f |-> FrameOfB(b, m), fn |-> fn, axis |-> ax, skipna |-> sk, ddof |-> 0]
        /\ res = Pending
Call == res.k = "pending" /\ res' = FrameReduce(cs.f, cs.fn, cs.axis, cs.skipna, cs.ddof) /\ UNCHANGED cs
Next == Call
Spec == Init /\ [][Next]_vars
Done == res.k # "pending"
(* a missing cell is never silently treated as a number *)
NAPropagates ==
  (Done /\ ~cs.skipna /\ res.k = "nseries") =>
     \A k \in 1..Len(res.vals) : HasNA(Lines(cs.f, cs.axis)[k]) => res.vals[k] = NaN
SkipnaIgnores ==
  (Done /\ cs.skipna /\ res.k = "nseries") =>
     \A k \in 1..Len(res.vals) : res.vals[k] = Reduce(cs.fn, Valid(Lines(cs.f, cs.axis)[k]), FALSE, cs.ddof).v
(* block-wise evaluation along axis 1: splitting a row after its first cell and combining partial results *)
Row(k) == Lines(cs.f, 1)[k]
NRows2 == Len(cs.f.index)
TwoStageSound ==
  (cs.axis = 1 /\ cs.fn \in Composable /\ NC >= 2) =>
     \A k \in 1..NRows2 : \A cut \in 1..(NC - 1) :
        LET two == TwoStage(cs.fn, <<SubSeq(Row(k), 1, cut), SubSeq(Row(k), cut + 1, NC)>>, cs.skipna)
            one == Reduce(cs.fn, Row(k), cs.skipna, 0)
        IN two = one
(* negative control: claimed for a non-composable function it must fail (mean of means is not the mean) *)
TwoStageSoundForAll ==
  (cs.axis = 1 /\ NC >= 2) =>
     \A k \in 1..NRows2 : TwoStage(cs.fn, <<SubSeq(Row(k), 1, 1), SubSeq(Row(k), 2, NC)>>, cs.skipna) = Reduce(cs.fn, Row(k), cs.skipna, 0)
=============================================================================
