-------------------------------- MODULE SFQuilt --------------------------------
(* Quilt and Batch as views over the Frames they hold (C19).                                                            *)
(* A quilt is q = [members |-> <<[label, f]>>, axis |-> 0 | 1, retain |-> BOOLEAN]; the member Frames share their        *)
(* opposite-axis labels and, per opposite-axis position, their dtype.  Virtual(q) is the single Frame obtained by        *)
(* concatenating the members along the axis (the Bus label as an added outer level when labels are retained); every      *)
(* Quilt operation must equal the same operation (SFOps / SFFrame) on Virtual(q).                                         *)
(* ExtractPositions transcribes Quilt._extract: the axis key is turned into a Boolean selection over the axis map, the    *)
(* selected members are visited in Bus order and each contributes its selected positions in its own order.                *)
EXTENDS SFOps, SFGroup
QLabel(q, m, lab) == IF q.retain THEN <<"t", <<q.members[m].label>> \o (IF lab[1] = "t" THEN lab[2] ELSE <<lab>>)>> ELSE lab
AlongOf(q, m) == IF q.axis = 0 THEN q.members[m].f.index ELSE q.members[m].f.columns
FlatCat(ss) == FoldLeft(LAMBDA a, b : a \o b, <<>>, ss)
QAlong(q) == FlatCat([m \in 1..Len(q.members) |-> [i \in 1..Len(AlongOf(q, m)) |-> QLabel(q, m, AlongOf(q, m)[i])]])
(* the axis map: for every position on the axis, <<member, position inside the member>> (both 1-based) *)
AxisMap(q) == FlatCat([m \in 1..Len(q.members) |-> [i \in 1..Len(AlongOf(q, m)) |-> <<m, i>>]])
First(q) == q.members[1].f
Virtual(q) ==
  IF q.axis = 0
    THEN MkFrame(QAlong(q), First(q).columns,
                 [j \in 1..NCols(First(q)) |-> [dt |-> First(q).cols[j].dt, vals |-> FlatCat([m \in 1..Len(q.members) |-> q.members[m].f.cols[j].vals])]], None)
    ELSE MkFrame(First(q).index, QAlong(q), FlatCat([m \in 1..Len(q.members) |-> q.members[m].f.cols]), None)
(* the Quilt is well formed when the along-axis labels are unique and the members agree on the opposite axis *)
Aligned(q) == \A m \in 1..Len(q.members) : IF q.axis = 0 THEN q.members[m].f.columns = First(q).columns ELSE q.members[m].f.index = First(q).index
QuiltWellFormed(q) == Len(q.members) >= 1 /\ Aligned(q) /\ Unique(QAlong(q))
(* as built: positions (0-based, on the axis) in the order Quilt._extract delivers them for a resolved key *)
ExtractPositions(q, ps) ==
  LET am == AxisMap(q)
      memOrder == Dedupe([k \in 1..Len(ps) |-> am[ps[k] + 1][1]])                 \* duplicate_filter(axis_map.iloc[key].values): members by first appearance in the key
      sel(pos) == Member(ps, pos)                                                    \* sel = np.full(n, False); sel[key] = True
  IN FlatCat([t \in 1..Len(memOrder) |-> SelectSeq(SeqRange(Len(am)), LAMBDA pos : sel(pos) /\ am[pos + 1][1] = memOrder[t])])
(* keys the extraction serves exactly: positions grouped by member (each member visited once) and ascending inside each member *)
MemberGrouped(q, ps) ==
  LET am == AxisMap(q) IN
  /\ Unique(ps)
  /\ \A i, j \in 1..Len(ps) : (i < j /\ am[ps[i] + 1][1] = am[ps[j] + 1][1]) => (ps[i] < ps[j] /\ \A k \in i..j : am[ps[k] + 1][1] = am[ps[i] + 1][1])
Ascending(ps) == \A i \in 1..(Len(ps) - 1) : ps[i] < ps[i + 1]
(* the translation of a selection into per-member selections (for the model instance) *)
PerMember(q, ps) == [m \in 1..Len(q.members) |-> SelectSeq([k \in 1..Len(ps) |-> AxisMap(q)[ps[k] + 1]], LAMBDA e : e[1] = m)]

(* ---- dispatch: a Quilt call to the result the same call on Virtual(q) gives ----------------------------------------------- *)
RowAt(V, i) == FrameIloc(V, <<"int", i>>, KAll)                  \* 0-based
ColAt(V, j) == FrameIloc(V, KAll, <<"int", j>>)
QApply(cs) ==
  LET V == Virtual(cs.q) IN
  CASE cs.op = "q_iloc" -> FrameIloc(V, cs.rk, cs.ck)
    [] cs.op = "q_loc" -> FrameLoc(V, cs.rk, cs.ck)
    [] cs.op = "q_getitem" -> FrameGetItem(V, cs.ck)
    [] cs.op = "q_to_frame" -> V
    [] cs.op = "q_shape" -> [k |-> "shape", v |-> <<NRows(V), NCols(V)>>]
    [] cs.op = "q_labels" -> [k |-> "labels", index |-> V.index, columns |-> V.columns]
    [] cs.op = "q_values" -> LET dt == ResolveSeq([j \in 1..NCols(V) |-> V.cols[j].dt]) IN        \* one array: every cell in the resolved dtype
                             [k |-> "rows", rows |-> [i \in 1..NRows(V) |-> [j \in 1..NCols(V) |-> Cast(V.cols[j].vals[i], dt)]]]
    (* iteration across the axis: one item per position on the Quilt axis, in order *)
    [] cs.op = "q_iter" -> [k |-> "items", items |-> IF cs.q.axis = 0 THEN [i \in 1..NRows(V) |-> RowAt(V, i - 1)] ELSE [j \in 1..NCols(V) |-> ColAt(V, j - 1)]]
    (* windows: exactly the windows the window loop (SFGroup.Windows, the one C13 checks for Series and Frame) gives for the length of the Quilt axis; *)
    (* a start shift, a label shift and incomplete windows (window_sized = FALSE) as for a Frame                                                       *)
    [] cs.op \in {"q_iter_window", "q_iter_window_array"} /\ cs.sshift >= (IF cs.q.axis = 0 THEN NRows(V) ELSE NCols(V)) -> Unspecified
         \* (as built a window that starts past the end makes the Quilt select an empty range of members, which raises UnboundLocalError / RuntimeError)
    [] cs.op = "q_iter_window" ->
         LET n == IF cs.q.axis = 0 THEN NRows(V) ELSE NCols(V)
             ws == Windows(n, cs.size, cs.step, cs.sshift, cs.lshift, 0, cs.ws)
             key(w) == <<"slice", <<"i", w.lo>>, <<"i", w.hi>>, SNone>>
         IN [k |-> "items", items |-> [w \in 1..Len(ws) |-> IF cs.q.axis = 0 THEN FrameIloc(V, key(ws[w]), KAll) ELSE FrameIloc(V, KAll, key(ws[w]))]]
    (* array-valued windows: each window as ONE array in the resolved dtype of the window's columns, labelled (items form) by its last label *)
    [] cs.op = "q_iter_window_array" ->
         LET n == IF cs.q.axis = 0 THEN NRows(V) ELSE NCols(V)
             ws == Windows(n, cs.size, cs.step, cs.sshift, cs.lshift, 0, cs.ws)
             key(w) == <<"slice", <<"i", w.lo>>, <<"i", w.hi>>, SNone>>
             W(w) == IF cs.q.axis = 0 THEN FrameIloc(V, key(w), KAll) ELSE FrameIloc(V, KAll, key(w))
             (* cs.loose: the members are each homogeneous in a dtype of their OWN; which dtype a window over several of them resolves to  *)
             (* is then not derivable from one concatenated Frame, and the cells are compared by value (whole floats as ints)               *)
             Arr(w, p) == LET dt == IF cs.loose THEN <<"any", 0>> ELSE ResolveSeq([j \in 1..Len(w.cols) |-> w.cols[j].dt]) IN
                          [dt |-> dt, rows |-> [i \in 1..Len(w.index) |-> [j \in 1..Len(w.cols) |-> IF cs.loose THEN LooseCell(w.cols[j].vals[i]) ELSE Cast(w.cols[j].vals[i], dt)]],
                           label |-> IF cs.items THEN (IF cs.q.axis = 0 THEN V.index[p.label + 1] ELSE V.columns[p.label + 1]) ELSE None]
         IN [k |-> "rows_seq", wins |-> [w \in 1..Len(ws) |-> Arr(W(ws[w]), ws[w])]]
    [] cs.op = "q_head" -> FrameIloc(V, <<"slice", SNone, <<"i", cs.count>>, SNone>>, KAll)                 \* head is about rows whatever the Quilt axis
QDiff(e, a) ==
  IF e = a THEN "ok"
  ELSE IF e.k = "unspecified" THEN "ok"
  ELSE IF e.k = "err" /\ a.k = "err" THEN "ok"                 \* which error class an invalid key raises is not part of the statement
  ELSE IF e.k = "items" /\ a.k = "items" THEN
         (IF Len(e.items) # Len(a.items) THEN "item_count"
          ELSE LET bad == {i \in 1..Len(e.items) : Diff(e.items[i], a.items[i]) # "ok"} IN
               IF bad = {} THEN "ok" ELSE Diff(e.items[CHOOSE i \in bad : TRUE], a.items[CHOOSE i \in bad : TRUE]))
  ELSE IF e.k \in {"shape", "labels", "rows", "rows_seq"} THEN (IF a.k # e.k THEN "kind" ELSE e.k)
  ELSE Diff(e, a)

(* ---- Batch: a lazy map over (label, Frame) pairs --------------------------------------------------------------------------- *)
(* ops: a sequence of calls in the SFOps vocabulary without their f; each is applied to the running Frame of every label      *)
RECURSIVE ApplyChain(_, _)
ApplyChain(x, ops) ==
  IF ops = <<>> THEN x
  ELSE IF x.k # "frame" THEN Err("type")
  ELSE ApplyChain(Apply([ops[1] EXCEPT !.f = [index |-> x.index, columns |-> x.columns, cols |-> x.cols, name |-> x.name]]), Tail(ops))
AsRes(f) == MkFrame(f.index, f.columns, f.cols, f.name)
BatchItems(members, ops) == [m \in 1..Len(members) |-> <<members[m].label, ApplyChain(AsRes(members[m].f), ops)>>]
(* Batch delegation law: for every method m the Batch forwards, (Batch of members).m(args) holds, label by label and in    *)
(* member order, exactly what m(args) gives on that member (same values, labels, dtype, name, and the same error class).   *)
(* direct / via: sequences of <<label, result>> recorded from the members themselves and through the Batch.               *)
BatchMapVerdict(direct, via) ==
  IF Len(direct) # Len(via) THEN "batch_map_item_count"
  ELSE IF \E m \in 1..Len(direct) : direct[m][1] # via[m][1] THEN "batch_map_labels"
  ELSE IF \E m \in 1..Len(direct) : direct[m][2] # via[m][2] THEN "batch_map_result_differs_from_member_result"
  ELSE "ok"
=============================================================================
