INIT Init
NEXT Next
CONSTANT N = 4
INVARIANT GroupsArePartition
INVARIANT RoutesAgree
INVARIANT WindowLoopMeetsDeclaration
INVARIANT WindowsContiguousInRange
CHECK_DEADLOCK FALSE
