------------------------------ MODULE Trace_C15 ------------------------------
(* Trace validation for axis reductions (C15).  Each recorded event holds the Frame-level result (res) and the   *)
(* results of the same function applied by the real code to every column / row taken as a Series (per).        *)
(* Checked: Independent (res = per, element by element, or both raise) for every recorded call, and, where    *)
(* every cell is numeric or missing, agreement with the exact-rational specification.                          *)
EXTENDS SFReduce, Json, IOUtils
Trace == ndJsonDeserialize(IOEnv.TRACE_FILE)
VARIABLE l
Expected(cs) ==
  CASE cs.op = "f_reduce" -> FrameReduce(cs.f, cs.fn, cs.axis, cs.skipna, cs.ddof)
    [] cs.op = "f_cum" -> FrameCumulative(cs.f, cs.fn, cs.axis, cs.skipna)
    [] cs.op = "f_arg" -> FrameArg(cs.f, cs.fn, cs.axis, cs.skipna)
Numeric(f) == \A j \in 1..Len(f.cols) : Kind(f.cols[j].dt) \in {"i", "f", "b"}
Independent(ev) ==
  IF ev.res.k = "err" THEN \E k \in 1..Len(ev.per) : ev.per[k].k = "err"
  ELSE IF ev.cs.op = "f_cum" THEN
         \A k \in 1..Len(ev.per) : ev.per[k].k = "seq" /\ (IF ev.cs.axis = 0 THEN ev.res.cols[k] = ev.per[k].vals
                                                           ELSE \A j \in 1..Len(ev.res.cols) : ev.res.cols[j][k] = ev.per[k].vals[j])
  ELSE Len(ev.per) = Len(ev.res.vals) /\ \A k \in 1..Len(ev.per) : ev.per[k].k = "elem" /\ ev.per[k].v = ev.res.vals[k]
Verdict(ev) ==
  IF ~Independent(ev) THEN "not_independent"
  ELSE IF Numeric(ev.cs.f) /\ Len(ev.cs.f.columns) > 0 /\ Len(ev.cs.f.index) > 0 THEN
         (LET e == Expected(ev.cs) IN
          IF e = ev.res THEN "ok"
          ELSE IF e.k # ev.res.k THEN "kind"
          ELSE IF e.k = "err" THEN "ok"
          ELSE IF e.index # ev.res.index THEN "labels" ELSE "values")
  ELSE "ok"
Init == l = 1
Next == /\ l <= Len(Trace)
        /\ l' = l + 1
        /\ LET v == Verdict(Trace[l]) IN v = "ok" \/ PrintT(<<"VERDICT", Trace[l].id, v, IF Numeric(Trace[l].cs.f) /\ Len(Trace[l].cs.f.columns) > 0 /\ Len(Trace[l].cs.f.index) > 0 THEN Expected(Trace[l].cs) ELSE <<>>>>)
Post == PrintT(<<"DONE", TLCGet("stats").diameter - 1>>)
=============================================================================
