INIT Init
NEXT Next
CONSTANT K = 3
INVARIANT RefMeetsStatement
INVARIANT DupRejected
INVARIANT CellConservation
CHECK_DEADLOCK FALSE
