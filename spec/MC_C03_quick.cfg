INIT Init
NEXT Next
CONSTANT NC = 3
CONSTANT NR = 2
INVARIANT SelectRefines
INVARIANT DropRefines
INVARIANT MaskRefines
INVARIANT BlocksCoherent
INVARIANT AscendingOK
INVARIANT SourceCoherent
CHECK_DEADLOCK FALSE
