------------------------------- MODULE SFReduce -------------------------------
(* Axis reductions (C15) over exact rationals <<num, den>>.  A reduction of a Frame along an axis is, by        *)
(* definition, the reduction of each column (axis 0) or each row (axis 1) taken on its own, labelled by the     *)
(* other axis.  Results are stated on numeric values only: <<"q", num, den>>, NaN, or an error class.           *)
EXTENDS SFFrame

Q(n, d) == LET x == QNorm(n, d) IN <<"q", x[1], x[2]>>
QV(x) == <<"q", x[1], x[2]>>
IsNumeric(v) == Tag(v) \in {"i", "b", "f", "q"}
QOfV(v) == IF Tag(v) = "q" THEN <<v[2], v[3]>> ELSE QOf(v)
Valid(vals) == SelectSeq(vals, LAMBDA v : ~IsNA(v))
HasNA(vals) == \E i \in 1..Len(vals) : IsNA(vals[i])

QSum(xs) == FoldLeft(LAMBDA a, b : QAdd(a, b), <<0, 1>>, xs)
QProd(xs) == FoldLeft(LAMBDA a, b : QMul(a, b), <<1, 1>>, xs)
QMinOf(xs) == CHOOSE x \in {xs[i] : i \in 1..Len(xs)} : \A i \in 1..Len(xs) : QLe(x, xs[i])
QMaxOf(xs) == CHOOSE x \in {xs[i] : i \in 1..Len(xs)} : \A i \in 1..Len(xs) : QLe(xs[i], x)
QMean(xs) == QDivI(QSum(xs), Len(xs))
QSorted(xs) == LET ord == StableArgsort(Len(xs), LAMBDA a, b : QLt(xs[a + 1], xs[b + 1])) IN [i \in 1..Len(xs) |-> xs[ord[i] + 1]]
QMedian(xs) == LET s == QSorted(xs)  n == Len(xs) IN
               IF n % 2 = 1 THEN s[(n + 1) \div 2] ELSE QDivI(QAdd(s[n \div 2], s[n \div 2 + 1]), 2)
QVar(xs, ddof) == LET m == QMean(xs) IN QDivI(QSum([i \in 1..Len(xs) |-> QMul(QSub(xs[i], m), QSub(xs[i], m))]), Len(xs) - ddof)

(* one sequence of numeric / missing values reduced by fn; NaN propagates when skipna is off *)
Reduce(fn, vals, skipna, ddof) ==
  LET vs == IF skipna THEN Valid(vals) ELSE vals
      xs == [i \in 1..Len(vs) |-> QOfV(vs[i])]
      n == Len(xs)
  IN IF ~skipna /\ HasNA(vals) THEN
          (IF fn \in {"all", "any"} THEN Err("type") ELSE Elem(NaN))
     ELSE CASE fn = "sum" -> Elem(QV(QSum(xs)))
            [] fn = "prod" -> Elem(QV(QProd(xs)))
            [] fn = "min" -> IF n = 0 THEN Elem(NaN) ELSE Elem(QV(QMinOf(xs)))
            [] fn = "max" -> IF n = 0 THEN Elem(NaN) ELSE Elem(QV(QMaxOf(xs)))
            [] fn = "mean" -> IF n = 0 THEN Elem(NaN) ELSE Elem(QV(QMean(xs)))
            [] fn = "median" -> IF n = 0 THEN Elem(NaN) ELSE Elem(QV(QMedian(xs)))
            [] fn = "var" -> IF n - ddof <= 0 THEN Elem(NaN) ELSE Elem(QV(QVar(xs, ddof)))
            [] fn = "all" -> Elem(Q(IF \A i \in 1..n : xs[i][1] # 0 THEN 1 ELSE 0, 1))
            [] fn = "any" -> Elem(Q(IF \E i \in 1..n : xs[i][1] # 0 THEN 1 ELSE 0, 1))

(* cumulative sums / products keep the length: with skipna a missing cell counts as the identity,              *)
(* without it the missing value propagates to every later position                                              *)
RECURSIVE CumFrom(_, _, _, _, _, _)
CumFrom(fn, vals, i, acc, poisoned, skipna) ==
  IF i > Len(vals) THEN <<>>
  ELSE LET v == vals[i]
           na == IsNA(v)
           acc2 == IF na THEN acc ELSE (IF fn = "cumsum" THEN QAdd(acc, QOfV(v)) ELSE QMul(acc, QOfV(v)))
           p2 == poisoned \/ (na /\ ~skipna)
       IN <<IF p2 THEN NaN ELSE QV(acc2)>> \o CumFrom(fn, vals, i + 1, acc2, p2, skipna)
Cumulative(fn, vals, skipna) == CumFrom(fn, vals, 1, IF fn = "cumsum" THEN <<0, 1>> ELSE <<1, 1>>, FALSE, skipna)

(* position (0-based) of the first minimum / maximum among the valid cells *)
ArgOf(fn, vals, skipna) ==
  LET idx == {i \in 1..Len(vals) : ~IsNA(vals[i])} IN
  IF ~skipna /\ HasNA(vals) THEN -2               \* as built: undefined position (NaN / error)
  ELSE IF idx = {} THEN -2
  ELSE LET best == CHOOSE i \in idx : /\ \A j \in idx : IF fn = "argmin" THEN QLe(QOfV(vals[i]), QOfV(vals[j])) ELSE QLe(QOfV(vals[j]), QOfV(vals[i]))
                                      /\ \A j \in idx : (QOfV(vals[j]) = QOfV(vals[i])) => i <= j
       IN best - 1

(* ---- Frame: independent per column / per row ------------------------------------------------------------- *)
ColVals(f, j) == f.cols[j].vals
RowValsR(f, i) == [j \in 1..NCols(f) |-> f.cols[j].vals[i]]
Lines(f, axis) == IF axis = 0 THEN [j \in 1..NCols(f) |-> ColVals(f, j)] ELSE [i \in 1..NRows(f) |-> RowValsR(f, i)]
OutLabels(f, axis) == IF axis = 0 THEN f.columns ELSE f.index
FrameReduce(f, fn, axis, skipna, ddof) ==
  LET ls == Lines(f, axis)
      rs == [k \in 1..Len(ls) |-> Reduce(fn, ls[k], skipna, ddof)]
  IN IF \E k \in 1..Len(rs) : rs[k].k = "err" THEN Err("type")
     ELSE [k |-> "nseries", index |-> OutLabels(f, axis), vals |-> [k \in 1..Len(rs) |-> rs[k].v]]
FrameCumulative(f, fn, axis, skipna) ==
  LET ls == Lines(f, axis)
      cs == [k \in 1..Len(ls) |-> Cumulative(fn, ls[k], skipna)]
  IN [k |-> "nframe", index |-> f.index, columns |-> f.columns,
      cols |-> [j \in 1..NCols(f) |-> [i \in 1..NRows(f) |-> IF axis = 0 THEN cs[j][i] ELSE cs[i][j]]]]
FrameArg(f, fn, axis, skipna) ==
  LET ls == Lines(f, axis) IN
  [k |-> "nseries", index |-> OutLabels(f, axis), vals |-> [k \in 1..Len(ls) |-> <<"q", ArgOf(fn, ls[k], skipna), 1>>]]

(* ---- the composable two-stage evaluation used along axis 1 (TypeBlocks.ufunc_axis_skipna) ---------------- *)
(* a row cut into its per-block parts; each part reduced first, then the partial results reduced again.         *)
TwoStage(fn, parts, skipna) ==
  LET partial == [p \in 1..Len(parts) |-> Reduce(fn, parts[p], skipna, 0)]
  IN IF \E p \in 1..Len(partial) : partial[p].k = "err" THEN Err("type")
     ELSE Reduce(fn, [p \in 1..Len(partial) |-> partial[p].v], skipna, 0)
Composable == {"all", "any", "min", "max"}     \* container.py: composable=True
=============================================================================
