--------------------------------- MODULE SFGo ---------------------------------
(* Heap model of containers with identity for the grow-only family (C09) and for immutability (C01):            *)
(* objects are created by construction / derivation and, if grow-only, mutated in place by growth calls.        *)
(* One action per public call; `act` records the call and its outcome so that a behaviour can be replayed       *)
(* into the real code and a recorded history can be validated step by step.                                      *)
(*   object = [kind |-> "index" | "frame" | "series", go |-> BOOLEAN, labels |-> Seq(Lab)]                        *)
(*   (a frame's labels are its column labels; its cells are a fixed function of the column label, so that        *)
(*    "labels and data in step" is observable: column l holds Payload(l))                                         *)
EXTENDS Integers, Sequences, FiniteSets, SequencesExt, TLC
CONSTANTS Lab,          \* label universe: small naturals (the harness maps 1..4 to "a".."d")
          MaxObj,       \* bound on live objects
          MaxLen,       \* bound on labels per object
          Atomic        \* TRUE: growth calls are all-or-nothing (the property); FALSE: extend as built (labels appended until the first duplicate)
VARIABLES objs, act
vars == <<objs, act>>

Obj(kind, go, labels) == [kind |-> kind, go |-> go, labels |-> labels]
ToSetS(s) == {s[i] : i \in 1..Len(s)}
UniqueS(s) == Cardinality(ToSetS(s)) = Len(s)
LabelSeqs(k) == {s \in UNION {[1..n -> Lab] : n \in 0..k} : UniqueS(s)}

Init == /\ \E ls \in LabelSeqs(2), kind \in {"frame", "index"} : objs = <<Obj(kind, TRUE, ls)>>
        /\ act = [name |-> "init", outcome |-> "ok"]

(* ---- effect of one call, as a function: Eff(os, a) = [objs |-> ..., outcome |-> ...] -------------------------- *)
(* calls: [name |-> "append", target, label, sized]   [name |-> "extend", target, labels, via]                       *)
(*        [name |-> "derive", source, route]                                                                         *)
RECURSIVE UntilDup(_, _)
UntilDup(cur, ls) == IF ls = <<>> \/ Head(ls) \in ToSetS(cur) THEN cur ELSE UntilDup(Append(cur, Head(ls)), Tail(ls))
FrameRoutesCore == {"to_frame", "to_frame_go", "iloc_all", "getitem_all", "rename", "relabel", "sort_columns", "reindex", "add0", "deepcopy", "pickle",
                    "columns_static", "columns_go", "row_series", "dtypes", "transpose2", "iter_series0", "set_index_less"}
(* further class-preserving routes (the result has the source's column labels, possibly fewer rows): sub-containers handed out by the      *)
(* iterators, row selections, row-wise transformations.  In the model they act exactly like "iloc_all", so the instances enumerate the   *)
(* core only; recorded histories may use any of them.                                                                                    *)
FrameRoutesMore == {"group_labels_first", "group_labels_items_last", "group_first", "group_items_last", "window_first", "window_items_last",
                    "head1", "tail1", "loc_rows", "drop_row", "roll_rows", "shift0", "fillna0", "sort_index", "astype_same", "assign_same",
                    "from_concat_self", "isna_neg", "mask_row", "dropna", "iter_frame_group_array", "round0", "neg_neg", "clip_wide"}
FrameRoutes == FrameRoutesCore \cup FrameRoutesMore
IndexRoutes == {"index_static", "index_go", "copy", "rename", "iloc_all", "sort", "union_self", "deepcopy", "pickle", "to_series"}
ResultKind(src, route) ==
  CASE route \in {"columns_static", "columns_go"} -> "index"
    [] route \in {"row_series", "dtypes", "to_series", "iter_series0"} -> "series"
    [] OTHER -> src.kind
ResultGo(src, route) ==
  CASE route \in {"to_frame", "columns_static", "index_static", "row_series", "dtypes", "to_series", "iter_series0",
                  "group_first", "group_items_last"} -> FALSE          \* as built, iter_group hands out static Frames (iter_group_labels and iter_window keep the class)
    [] route \in {"to_frame_go", "columns_go", "index_go"} -> TRUE
    [] OTHER -> src.go                      \* class-preserving routes
Sorted(ls) == SortSeq(ls, LAMBDA x, y : x < y)
ResultLabels(src, route) == IF route \in {"sort_columns", "sort"} THEN Sorted(src.labels) ELSE src.labels
Eff(os, a) ==
  CASE a.name = "append" ->
         (* FrameGO.__setitem__ / IndexGO.append: a duplicate label or a mis-sized value is rejected, nothing changes *)
         LET o == os[a.target] IN
         IF a.label \in ToSetS(o.labels) \/ ~a.sized THEN [objs |-> os, outcome |-> "rejected"]
         ELSE [objs |-> [os EXCEPT ![a.target].labels = Append(@, a.label)], outcome |-> "ok"]
    [] a.name = "extend" ->
         (* FrameGO.extend(Frame | Series) / extend_items / IndexGO.extend: several labels in one call *)
         LET cur == os[a.target].labels
             clash == \E k \in 1..Len(a.labels) : a.labels[k] \in ToSetS(cur)
         IN IF ~clash THEN [objs |-> [os EXCEPT ![a.target].labels = cur \o a.labels], outcome |-> "ok"]
            ELSE IF Atomic THEN [objs |-> os, outcome |-> "rejected"]
            ELSE [objs |-> [os EXCEPT ![a.target].labels = UntilDup(cur, a.labels)],          \* as built: keeps what it appended before the duplicate
                  outcome |-> IF UntilDup(cur, a.labels) = cur THEN "rejected" ELSE "failed-midway"]
    [] a.name = "derive" ->
         (* a new object whose content is the source's content now; nothing is shared with the source *)
         LET src == os[a.source] IN
         [objs |-> Append(os, Obj(ResultKind(src, a.route), ResultGo(src, a.route), ResultLabels(src, a.route))), outcome |-> "ok"]
Enabled(os, a) ==
  CASE a.name \in {"append", "extend"} -> /\ a.target \in 1..Len(os) /\ os[a.target].go /\ os[a.target].kind \in {"frame", "index"}
                                          /\ Len(os[a.target].labels) + (IF a.name = "append" THEN 1 ELSE Len(a.labels)) <= MaxLen
    [] a.name = "derive" -> /\ a.source \in 1..Len(os) /\ Len(os) < MaxObj
                            /\ ((os[a.source].kind = "frame" /\ a.route \in FrameRoutes) \/ (os[a.source].kind = "index" /\ a.route \in IndexRoutes))
Do(a) == /\ Enabled(objs, a)
         /\ objs' = Eff(objs, a).objs
         /\ act' = [a EXCEPT !.outcome = Eff(objs, a).outcome]
Next == \/ \E i \in 1..Len(objs), l \in Lab, sized \in BOOLEAN : Do([name |-> "append", target |-> i, label |-> l, sized |-> sized, outcome |-> "?"])
        \/ \E i \in 1..Len(objs), ls \in LabelSeqs(2) \ {<<>>}, via \in {"frame", "items", "series"} :
              (via = "series" => Len(ls) = 1) /\ Do([name |-> "extend", target |-> i, labels |-> ls, via |-> via, outcome |-> "?"])
        \/ \E i \in 1..Len(objs) : \E route \in FrameRoutesCore \cup IndexRoutes : Do([name |-> "derive", source |-> i, route |-> route, outcome |-> "?"])
Spec == Init /\ [][Next]_vars

(* ---- the property -------------------------------------------------------------------------------------------- *)
(* growing only appends: every label present before stays at its position *)
AppendOnly == [][\A i \in 1..Len(objs) : IsPrefix(objs[i].labels, objs'[i].labels)]_vars
(* a rejected or failing growth call leaves every object exactly as it was *)
AllOrNothing == [][act'.outcome # "ok" => objs' = objs]_vars
(* no growth of one container is visible through another; static containers never change *)
Isolation == [][\A i \in 1..Len(objs) : (objs'[i] # objs[i]) => (act'.name \in {"append", "extend"} /\ act'.target = i /\ objs[i].go)]_vars
StepAppendOnly(os, os2) == Len(os2) >= Len(os) /\ \A i \in 1..Len(os) : IsPrefix(os[i].labels, os2[i].labels)
StepAllOrNothing(os, os2, a) == a.outcome # "ok" => os2 = os
StepIsolation(os, os2, a) == \A i \in 1..Len(os) : (os2[i] # os[i]) => (a.name \in {"append", "extend"} /\ a.target = i /\ os[i].go)
NoDuplicates == \A i \in 1..Len(objs) : UniqueS(objs[i].labels)
Bounded == \A i \in 1..Len(objs) : Len(objs[i].labels) <= MaxLen
=============================================================================
