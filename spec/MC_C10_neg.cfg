INIT Init
NEXT Next
CONSTANT N = 1
CONSTANT MaskBug = TRUE
INVARIANT AsBuiltSymmetric
CHECK_DEADLOCK FALSE
