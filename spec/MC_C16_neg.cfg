INIT Init
NEXT Next
CONSTANT MaxLen = 2
INVARIANT AsBuiltRoundTrip
CHECK_DEADLOCK FALSE
