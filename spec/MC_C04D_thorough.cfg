INIT Init
NEXT Next
CONSTANT MaxN = 4
CONSTANT Sorted = TRUE
INVARIANT ExactPeriod
INVARIANT SliceAsBuiltIsRequired
INVARIANT SliceContiguous
CHECK_DEADLOCK FALSE
