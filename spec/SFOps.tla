-------------------------------- MODULE SFOps --------------------------------
(* One dispatch from a recorded / enumerated call cs = [op |-> ..., ...] to the result the specification     *)
(* prescribes.  Used by every MC_ instance (to compute res) and by the trace specification (to validate).   *)
EXTENDS SFUpdate

RowRes(cs, labels) == IF cs.via = "iloc" THEN IlocResolve(cs.rk, Len(labels))
                      ELSE IF cs.via = "getitem" THEN Resolved(TRUE, SeqRange(Len(labels)))
                      ELSE LocResolve(cs.rk, labels)
ColRes(cs, labels) == IF cs.via = "iloc" THEN IlocResolve(cs.ck, Len(labels)) ELSE LocResolve(cs.ck, labels)
SerRes(cs, labels) == IF cs.via = "iloc" THEN IlocResolve(cs.rk, Len(labels)) ELSE LocResolve(cs.rk, labels)
NullRowKey(cs) == cs.via = "getitem" \/ cs.rk \in {KAll, <<"slice", SNone, SNone, SNone>>, <<"locslice", SNone, SNone, SNone>>, <<"iloc", KAll>>, <<"iloc", <<"slice", SNone, SNone, SNone>>>>}
DropRes(r, k) == IF k = <<"nokey">> THEN NoneSel ELSE r     \* drop with no key on an axis drops nothing there

Apply(cs) ==
  CASE cs.op = "f_iloc" -> FrameIloc(cs.f, cs.rk, cs.ck)
    [] cs.op = "f_loc" -> FrameLoc(cs.f, cs.rk, cs.ck)
    [] cs.op = "f_getitem" -> FrameGetItem(cs.f, cs.ck)
    [] cs.op = "f_bloc" -> FrameBloc(cs.f, cs.mask)
    [] cs.op = "s_iloc" -> SeriesIloc(cs.s, cs.rk)
    [] cs.op = "s_loc" -> SeriesLoc(cs.s, cs.rk)
    [] cs.op = "s_getitem" -> SeriesLoc(cs.s, cs.rk)
    (* C08 *)
    [] cs.op = "f_assign" -> IF cs.via # "iloc" /\ RowRes(cs, cs.f.index).err THEN Err("lookup")    \* labels are looked up before anything else
                             ELSE LET r == FrameAssign(cs.f, RowRes(cs, cs.f.index), ColRes(cs, cs.f.columns), cs.val, NullRowKey(cs))
                                  IN IF cs.val[1] = "frame" THEN LooseFrame(r) ELSE r
    [] cs.op = "f_assign_bloc" -> FrameAssignBlocElem(cs.f, cs.mask, cs.v)
    [] cs.op = "s_assign" -> SeriesAssign(cs.s, SerRes(cs, cs.s.index), cs.val)
    [] cs.op = "f_drop" -> FrameDropResolved(cs.f, DropRes(RowRes(cs, cs.f.index), cs.rk), DropRes(ColRes(cs, cs.f.columns), cs.ck))
    [] cs.op = "s_drop" -> SeriesDropResolved(cs.s, SerRes(cs, cs.s.index))
    [] cs.op = "f_mask" -> IF cs.via # "iloc" /\ RowRes(cs, cs.f.index).err THEN Err("lookup")
                           ELSE FrameMaskResolved(cs.f, RowRes(cs, cs.f.index), ColRes(cs, cs.f.columns))
    [] cs.op = "s_mask" -> SeriesMaskResolved(cs.s, SerRes(cs, cs.s.index))
    [] cs.op = "f_astype" -> FrameAstype(cs.f, IF cs.ck = KAll THEN Resolved(TRUE, SeqRange(NCols(cs.f))) ELSE LocResolve(cs.ck, cs.f.columns), cs.to)
    [] cs.op = "s_astype" -> SeriesAstype(cs.s, cs.to)
    [] cs.op = "f_relabel" -> FrameRelabel(cs.f, cs.ispec, cs.cspec)
    [] cs.op = "s_relabel" -> SeriesRelabel(cs.s, cs.ispec)
    [] cs.op = "f_rename" -> FrameRename(cs.f, cs.name)
    [] cs.op = "s_rename" -> SeriesRename(cs.s, cs.name)
    [] cs.op = "f_insert" -> FrameInsert(cs.f, cs.key, cs.after, cs.ins)
    [] cs.op = "s_insert" -> SeriesInsert(cs.s, cs.key, cs.after, cs.ins)
=============================================================================
