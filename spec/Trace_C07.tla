------------------------------ MODULE Trace_C07 ------------------------------
(* Trace validation for C07: every recorded merge lists the supplied elements and the elements read back from the  *)
(* result, position by position; every stored element must be the supplied one (SameElement), the result dtype      *)
(* must be the resolution of the operand dtypes where the site resolves dtypes, and untouched columns keep theirs. *)
EXTENDS SFCoerce, Json, IOUtils
Trace == ndJsonDeserialize(IOEnv.TRACE_FILE)
VARIABLE l
Verdict(ev) ==
  IF ev.res.k = "err" THEN "ok"            \* a rejected merge stores nothing: not a coercion
  ELSE IF Len(ev.res.stored) # Len(ev.supplied) THEN "length"
  ELSE IF \E i \in 1..Len(ev.supplied) : ~SameElement(ev.supplied[i], ev.res.stored[i]) THEN "lossy"
  ELSE IF ev.resolves /\ ev.res.dt # ResolveSeq(ev.dts) THEN "dtype_not_resolved"
  ELSE IF \E i \in 1..Len(ev.res.untouched) : ev.res.untouched[i][1] # ev.res.untouched[i][2] THEN "untouched_dtype"
  ELSE "ok"
Init == l = 1
Next == /\ l <= Len(Trace)
        /\ l' = l + 1
        /\ LET v == Verdict(Trace[l]) IN v = "ok" \/ PrintT(<<"VERDICT", Trace[l].id, v, IF Trace[l].resolves THEN ResolveSeq(Trace[l].dts) ELSE <<>>>>)
Post == PrintT(<<"DONE", TLCGet("stats").diameter - 1>>)
=============================================================================
