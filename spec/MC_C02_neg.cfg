SPECIFICATION Spec
CONSTANT Promote = FALSE
CONSTANT MaxLen = 4
INVARIANT Unique2
INVARIANT Bij
INVARIANT CacheCoherent
INVARIANT AutoShape
INVARIANT MemberExact
PROPERTY AppendOnly
PROPERTY RejectedUnchanged
CHECK_DEADLOCK FALSE
