------------------------------ MODULE Trace_Heap ------------------------------
(* Trace validation for immutability (C01): the interface sweep.  Every line is one public call on one of a set of   *)
(* live containers, with a deep snapshot of EVERY live container before and after the call and the writeable flag    *)
(* of every array reachable from the result and from the containers.  Checked per line: NoChange (before = after     *)
(* for every container, whatever the call did or raised) and AllFrozen (no reachable array is writeable).            *)
EXTENDS Integers, Sequences, TLC, Json, IOUtils
Trace == ndJsonDeserialize(IOEnv.TRACE_FILE)
VARIABLE l
Verdict(ev) ==
  IF ev.before # ev.after THEN "container_changed"
  ELSE IF ev.alias THEN "writeable_alias_of_container_data"
  ELSE IF \E i \in 1..Len(ev.flags) : ev.flags[i] THEN "writeable_array_reachable"
  ELSE IF ev.kind = "caller_write" /\ ev.wrote THEN "caller_write_visible"
  ELSE IF ev.kind = "caller_write" /\ ev.touched THEN "caller_array_changed_by_call"
  ELSE "ok"
Init == l = 1
Next == /\ l <= Len(Trace)
        /\ l' = l + 1
        /\ LET v == Verdict(Trace[l]) IN v = "ok" \/ PrintT(<<"VERDICT", Trace[l].id, v, <<>>>>)
Post == PrintT(<<"DONE", TLCGet("stats").diameter - 1>>)
=============================================================================
