------------------------------- MODULE MC_C06 -------------------------------
(* Small-scope instance for set algebra and alignment (C06).  The reference implementation in the specification  *)
(* (union -> re-index both operands -> element-wise operator) is checked against the declarative map statement,   *)
(* for every pair of label sequences (overlapping, disjoint, permuted, empty) and every permutation of the        *)
(* operands: permuting either operand leaves the label -> value map of the result unchanged.                       *)
EXTENDS SFAlign
CONSTANTS N
VARIABLES cs, res
vars == <<cs, res>>
Lab == {<<"s", "a">>, <<"s", "b">>, <<"s", "c">>}
LabelSeqs == {s \in UNION {[1..k -> Lab] : k \in 0..N} : Unique(s)}
Fns == {"add", "mul", "eq", "lt"}
Pending == [k |-> "pending"]
ValOf(l, base) == <<"q", base + (CASE l = <<"s", "a">> -> 1 [] l = <<"s", "b">> -> 2 [] OTHER -> 3), 1>>
SerOf(ls, base) == [index |-> ls, vals |-> [i \in 1..Len(ls) |-> ValOf(ls[i], base)]]
(* reference route: union (left order, then new labels of the right), re-index, operate *)
UnionRef(a, b) == IF a = b THEN a ELSE a \o SelectSeq(b, LAMBDA x : ~Member(a, x))
BinopRef(fn, a, b) ==
  LET ix == UnionRef(a.index, b.index) IN
  [k |-> "nseries", index |-> ix, vals |-> [i \in 1..Len(ix) |-> OpVal(fn, Lookup1(a.index, a.vals, ix[i]), Lookup1(b.index, b.vals, ix[i]))]]
Init == /\ \E la \in LabelSeqs, lb \in LabelSeqs, fn \in Fns : cs = [op |-> "s_binop", fn |-> fn, a |-> SerOf(la, 0), b |-> SerOf(lb, 10)]
        /\ res = Pending
Call == res.k = "pending" /\ res' = BinopRef(cs.fn, cs.a, cs.b) /\ UNCHANGED cs
Next == Call
Spec == Init /\ [][Next]_vars
Done == res.k # "pending"
RefMeetsStatement == Done => SeriesOpOK(cs.fn, cs.a, cs.b, res)
AsMap(r) == {<<r.index[i], r.vals[i]>> : i \in 1..Len(r.index)}
PermutationInvariant ==
  Done => \A la \in LabelSeqs, lb \in LabelSeqs :
            (AsSet(la) = AsSet(cs.a.index) /\ AsSet(lb) = AsSet(cs.b.index)) =>
               AsMap(BinopRef(cs.fn, SerOf(la, 0), SerOf(lb, 10))) = AsMap(res)
UnionSetAlgebra == SetOpOK("union", cs.a.index, cs.b.index, UnionRef(cs.a.index, cs.b.index))
=============================================================================
