------------------------------ MODULE Trace_C17 ------------------------------
(* Stateful trace validation for the Bus (C17).  A history is a sequence of public calls on Bus objects over one store   *)
(* file; every line carries the projected state of the addressed Bus before and after (labels, which labels hold a       *)
(* Frame and of which content version, the recency list, max_persist), whether the file is as the Store recorded it,      *)
(* the outcome and the Frame(s) returned.  The specification keeps its own copy of every Bus (cur): each call must be     *)
(* the SFBus transition from that copy, and a Bus must not have changed between two calls on it.                          *)
EXTENDS SFBus, Json, IOUtils
Trace == ndJsonDeserialize(IOEnv.TRACE_FILE)
VARIABLES l, cur
St(r) == [labels |-> r.labels, held |-> r.held, lru |-> r.lru, mp |-> r.mp]
File(ev) == [exists |-> ev.coherent, mtime |-> 0, ver |-> ev.ver]
Known(ev) == ~ev.start /\ ev.bus <= Len(cur)
Verdict(ev) ==
  IF Known(ev) /\ St(ev.pre) # cur[ev.bus] THEN "bus_changed_between_calls"
  ELSE CASE ev.name \in {"get", "select", "loadall"} ->
              LET u == Update(St(ev.pre), ev.sel, File(ev), 0) IN
              IF ev.outcome # u.outcome THEN (IF u.outcome = "store_mutation" THEN "stale_file_not_reported" ELSE "outcome")
              ELSE IF St(ev.post) # u.bus THEN (IF ~Bounded(St(ev.post)) THEN "max_persist_exceeded" ELSE "cache_transition")
              ELSE IF ev.name = "get" /\ u.outcome = "ok" /\ ev.got # 1 THEN "frame_returned"
              ELSE IF ev.name = "select" /\ u.outcome = "ok" /\ St(ev.new) # SubBus(u.bus, ev.sel) THEN "selected_bus"
              ELSE IF ~Bounded(u.bus) \/ ~Faithful(u.bus) THEN "model_invariant"
              ELSE "ok"
         [] ev.name = "derive" ->
              IF ev.outcome # "ok" THEN "outcome"
              ELSE IF St(ev.post) # St(ev.pre) THEN "derivation_changed_source"
              ELSE IF St(ev.new) # Reorder(St(ev.pre), ev.sel) THEN "derived_bus"
              ELSE "ok"
         [] ev.name = "export" ->               \* bus.to_zip_*(another file): every Frame is visited (one at a time under a bound) and written
              LET u == LoadAll(St(ev.pre), File(ev), 0) IN
              IF ev.outcome # u.outcome THEN (IF u.outcome = "store_mutation" THEN "stale_file_not_reported" ELSE "outcome")
              ELSE IF St(ev.post) # u.bus THEN (IF ~Bounded(St(ev.post)) THEN "max_persist_exceeded" ELSE "cache_transition")
              ELSE IF u.outcome = "ok" /\ ~ev.ok THEN "exported_store_differs"
              ELSE "ok"
         [] ev.name = "sortvalues" ->
              LET u == LoadAll(St(ev.pre), File(ev), 0) IN
              IF ev.outcome # u.outcome THEN (IF u.outcome = "store_mutation" THEN "stale_file_not_reported" ELSE "outcome")
              ELSE IF St(ev.post) # u.bus THEN "cache_transition"
              ELSE IF u.outcome = "ok" /\ St(ev.new) # Reorder(u.bus, ev.sel) THEN "derived_bus"
              ELSE "ok"
         [] ev.name = "read" -> IF ev.outcome = "ok" /\ St(ev.post) = St(ev.pre) /\ ev.ok THEN "ok" ELSE "status_read"
         [] ev.name = "roundtrip" -> IF ev.labels_read # ev.labels_written THEN "store_labels" ELSE IF \E k \in 1..Len(ev.equal) : ~ev.equal[k] THEN "store_frames" ELSE "ok"
Step(ev) ==
  LET base == IF ev.start THEN <<>> ELSE cur
      withBus == IF ev.name = "roundtrip" THEN base
                 ELSE IF ev.bus <= Len(base) THEN [base EXCEPT ![ev.bus] = St(ev.post)] ELSE Append(base, St(ev.post))
  IN IF ev.name \in {"select", "derive", "sortvalues"} /\ ev.outcome = "ok" THEN Append(withBus, St(ev.new)) ELSE withBus
Init == l = 1 /\ cur = <<>>
Next == /\ l <= Len(Trace)
        /\ l' = l + 1
        /\ cur' = Step(Trace[l])
        /\ LET v == Verdict(Trace[l]) IN v = "ok" \/ PrintT(<<"VERDICT", Trace[l].id, v, IF Trace[l].name \in {"get", "select", "loadall"} THEN Update(St(Trace[l].pre), Trace[l].sel, File(Trace[l]), 0) ELSE <<>>>>)
Post == PrintT(<<"DONE", TLCGet("stats").diameter - 1>>)
=============================================================================
