SPECIFICATION Spec
CONSTANT Lab <- L4
CONSTANT MaxObj = 4
CONSTANT MaxLen = 4
CONSTANT Atomic = TRUE
INVARIANT NoDuplicates
INVARIANT Bounded
PROPERTY AppendOnly
PROPERTY AllOrNothing
PROPERTY Isolation
CHECK_DEADLOCK FALSE
