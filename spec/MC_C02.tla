------------------------------- MODULE MC_C02 -------------------------------
(* Small-scope instance for flat indices (C02): a grow-only index (started with a hash map or in the map-less       *)
(* auto-integer form) driven through every sequence of appends (valid, duplicate, the next count, another integer),  *)
(* with the internal recache step interleaved; invariants: uniqueness, bijection through the implementation-shaped    *)
(* lookup, cache coherence, and the shape the map-less form relies on.                                                *)
EXTENDS SFIndex
CONSTANTS MaxLen, Promote
VARIABLES ix, last
vars == <<ix, last>>
Vals == {<<"i", 0>>, <<"i", 1>>, <<"i", 2>>, <<"i", 3>>, <<"i", 7>>, <<"s", "a">>}
Init == /\ \/ ix = GoInit(<<>>, TRUE) \/ ix = GoInit(<<<<"i", 0>>, <<"i", 1>>>>, TRUE) \/ ix = GoInit(<<<<"s", "a">>>>, FALSE) \/ ix = GoInit(<<<<"i", 1>>, <<"i", 0>>>>, FALSE)
        /\ last = "init"
AppendStep == \E v \in Vals : Len(ix.mutable) < MaxLen /\ LET r == GoAppendIxP(ix, v, Promote) IN ix' = r.ix /\ last' = r.outcome
RecacheStep == ix.recache /\ ix' = GoRecache(ix) /\ last' = "recache"
Next == AppendStep \/ RecacheStep
Spec == Init /\ [][Next]_vars
Unique2 == GoUnique(ix)
Bij == GoBij(ix)
CacheCoherent == GoCacheCoherent(ix)
AutoShape == GoAutoShape(ix)
MemberExact == \A v \in Vals : GoContains(ix, v) <=> Member(ix.mutable, v)
AppendOnly == [][IsPrefix(ix.mutable, ix'.mutable)]_vars
RejectedUnchanged == [][last' = "rejected" => (ix'.mutable = ix.mutable /\ ix'.hasMap = ix.hasMap)]_vars
=============================================================================
