------------------------------ MODULE MC_C04D ------------------------------
(* Small scope for period selection on datetime indices: every date index of up to MaxN labels over a 2 x 2 x 2       *)
(* calendar (ascending, or any order when Sorted = FALSE) x every scalar / slice key of day, month or year unit:       *)
(* the transcribed slice arithmetic of LocMap.map_slice_args selects what the statement requires wherever the          *)
(* statement speaks; selections name only labels inside the period and all of them.                                     *)
EXTENDS SFDate
CONSTANTS MaxN, Sorted
VARIABLES cs, res
vars == <<cs, res>>
Years == {2020, 2021}
Months == {1, 2}
Days == {1, 2}
Dates == {<<"dt", y, m, d>> : y \in Years, m \in Months, d \in Days}
Periods == {<<"D", y, m, d>> : y \in Years, m \in Months, d \in Days} \cup {<<"M", y, m>> : y \in Years, m \in Months} \cup {<<"Y", y>> : y \in Years}
Bounds == Periods \cup {<<"none">>}
LabelSeqs == {s \in UNION {[1..n -> Dates] : n \in 0..MaxN} : Unique(s) /\ (Sorted => DateSorted(s))}
Pending == [k |-> "pending"]
Init == /\ \/ \E ls \in LabelSeqs, p \in Periods : cs = [labels |-> ls, key |-> <<"dkey", p>>]
           \/ \E ls \in LabelSeqs, a \in Bounds, b \in Bounds : cs = [labels |-> ls, key |-> <<"dslice", a, b>>]
        /\ res = Pending
Sel(c) == LET r == DateResolve(c.labels, "D", c.key) IN
          IF ~DateKeySpecified(c.labels, "D", c.key) THEN [k |-> "unspecified"]
          ELSE IF r.err THEN [k |-> "err"] ELSE IF ~r.multi THEN [k |-> "elem", p |-> r.ps[1]] ELSE [k |-> "positions", ps |-> r.ps]
Next == res.k = "pending" /\ res' = Sel(cs) /\ UNCHANGED cs
Spec == Init /\ [][Next]_vars
ExactPeriod == (res.k = "positions" /\ cs.key[1] = "dkey") => \A i \in 0..(Len(cs.labels) - 1) : Member(res.ps, i) <=> InPeriod(cs.labels[i + 1], cs.key[2])
SliceAsBuiltIsRequired ==
  (cs.key[1] = "dslice" /\ DateKeySpecified(cs.labels, "D", cs.key)) =>
      LET a == DateSliceAsBuilt(cs.labels, "D", cs.key)  r == DateResolve(cs.labels, "D", cs.key) IN a.err = r.err /\ (~a.err => a.ps = r.ps)
(* negative control: without the ascending-order assumption the as-built arithmetic is not the statement *)
SliceAsBuiltAnyOrder ==
  (cs.key[1] = "dslice" /\ \A b \in {cs.key[2], cs.key[3]} : (~IsNoBound(b) /\ b[1] # "D") => Matches(cs.labels, b) # <<>>) =>
      LET a == DateSliceAsBuilt(cs.labels, "D", cs.key)  r == DateResolve(cs.labels, "D", cs.key) IN a.err = r.err /\ (~a.err => a.ps = r.ps)
SliceContiguous == (res.k = "positions" /\ cs.key[1] = "dslice") => \A i \in 1..(Len(res.ps) - 1) : res.ps[i + 1] = res.ps[i] + 1
=============================================================================
