------------------------------- MODULE Trace_Go -------------------------------
(* Trace validation of recorded grow-only histories against SFGo.  Every line is one public call with its observed   *)
(* outcome and the projection of ALL live objects after it.  Per line: the specification's effect of the call on the  *)
(* previous logged state must be the logged state (labels of every object, kind, grow-only-ness, outcome), and the    *)
(* step-wise properties AppendOnly / AllOrNothing / Isolation and the invariant NoDuplicates are evaluated on the     *)
(* logged states themselves.  A line with "name = init" starts a new history.  The model is re-synchronised to the     *)
(* logged state after every line, so one rejection does not hide the rest of the history.                             *)
EXTENDS SFGo, Json, IOUtils
Trace == ndJsonDeserialize(IOEnv.TRACE_FILE)
VARIABLE l
L5 == {1, 2, 3, 4, 5}
Uniq(os) == \A i \in 1..Len(os) : UniqueS(os[i].labels)
Verdict(prev, ev) ==
  IF ev.act.name = "init" THEN (IF Uniq(ev.objs) THEN "ok" ELSE "duplicates")
  ELSE LET e == Eff(prev, ev.act) IN
       IF ev.broken # <<>> THEN "integrity"
       ELSE IF ~Uniq(ev.objs) THEN "duplicates"
       ELSE IF ~StepAllOrNothing(prev, ev.objs, ev.act) THEN "not_all_or_nothing"
       ELSE IF ~StepAppendOnly(prev, ev.objs) THEN "not_append_only"
       ELSE IF ~StepIsolation(prev, ev.objs, ev.act) THEN "not_isolated"
       ELSE IF e.outcome # ev.act.outcome THEN "outcome"
       ELSE IF e.objs # ev.objs THEN "state"
       ELSE "ok"
TInit == l = 1 /\ objs = <<>> /\ act = [name |-> "none", outcome |-> "ok"]
TNext == /\ l <= Len(Trace)
         /\ l' = l + 1
         /\ objs' = Trace[l].objs
         /\ act' = Trace[l].act
         /\ LET v == Verdict(objs, Trace[l]) IN v = "ok" \/ PrintT(<<"VERDICT", Trace[l].id, v, IF Trace[l].act.name = "init" THEN <<>> ELSE Eff(objs, Trace[l].act)>>)
Post == PrintT(<<"DONE", TLCGet("stats").diameter - 1>>)
=============================================================================
