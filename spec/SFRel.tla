-------------------------------- MODULE SFRel --------------------------------
(* Reshaping and relational operations (C20), by their relational definitions over the abstract frame            *)
(* [index, columns, cols |-> <<[dt, vals]>>, name]:                                                               *)
(*   - moving columns into labels and back (set_index, set_index_hierarchy, unset_index, relabel_shift_in/out);   *)
(*   - pivot_stack / pivot_unstack;                                                                               *)
(*   - pivot: distinct index-field tuples x distinct column-field tuples (x data field x function), each cell     *)
(*     the aggregation of exactly the source rows with that pair, the fill value where there are none;           *)
(*   - joins: exactly the matching row pairs, plus the unmatched rows of the preserved side(s) with the fill.    *)
(* Result dtypes are not part of these statements (C03 decides dtypes): every result column carries DtAny.       *)
EXTENDS SFHier
DtAny == <<"any", 0>>
AnyCol(vals) == [dt |-> DtAny, vals |-> vals]
ColIdx(f, lab) == Find(f.columns, lab) + 1                        \* 1-based; 0 when absent
CellAt(f, i, j) == f.cols[j].vals[i]                                \* 1-based row i, column j
RowCells(f, i) == [j \in 1..NCols(f) |-> CellAt(f, i, j)]
ColVals(f, lab) == f.cols[ColIdx(f, lab)].vals
HasCols(f, labs) == \A k \in 1..Len(labs) : ColIdx(f, labs[k]) > 0
KeyTuple(f, i, labs) == [k \in 1..Len(labs) |-> CellAt(f, i, ColIdx(f, labs[k]))]
Tup(xs) == <<"t", xs>>
IsTup(x) == x[1] = "t"
Levels(lab) == IF IsTup(lab) THEN lab[2] ELSE <<lab>>               \* a label as its sequence of level labels
MkLabel(xs) == IF Len(xs) = 1 THEN xs[1] ELSE Tup(xs)
AnyFrame(index, columns, colvals, name) == MkFrame(index, columns, [j \in 1..Len(colvals) |-> AnyCol(colvals[j])], name)
WithoutCols(f, labs) == SelectSeq(SeqRange(NCols(f)), LAMBDA p : ~Member(labs, f.columns[p + 1]))          \* 0-based positions kept
AutoIndex(n) == [i \in 1..n |-> <<"i", i - 1>>]

(* ---- columns into labels and back ---------------------------------------------------------------------------------- *)
SetIndex(f, lab, drop) ==
  IF ColIdx(f, lab) = 0 THEN Err("lookup")
  ELSE LET ix == ColVals(f, lab)
           keep == IF drop THEN WithoutCols(f, <<lab>>) ELSE SeqRange(NCols(f))
       IN IF ~Unique(ix) THEN Err("init_nonunique")
          ELSE AnyFrame(ix, Take(f.columns, keep), [k \in 1..Len(keep) |-> f.cols[keep[k] + 1].vals], f.name)
(* reorder_for_hierarchy: the rows are first put in tree order - a stable sort on, level by level, the rank of first appearance of   *)
(* each key label within its level - and EVERY cell travels with its row                                                            *)
RankInCol(rows, d, x) == Find(Dedupe([i \in 1..Len(rows) |-> rows[i][d]]), x)
RECURSIVE KeyRankLt(_, _, _, _)
KeyRankLt(rows, d, a, b) ==
  IF d > Len(rows[1]) THEN FALSE
  ELSE LET ra == RankInCol(rows, d, rows[a + 1][d])  rb == RankInCol(rows, d, rows[b + 1][d])
       IN IF ra # rb THEN ra < rb ELSE KeyRankLt(rows, d + 1, a, b)
HierOrder(rows) == IF Len(rows) = 0 THEN <<>> ELSE StableArgsort(Len(rows), LAMBDA a, b : KeyRankLt(rows, 1, a, b))
SetIndexHierarchyR(f, labs, drop, reorder) ==
  IF ~HasCols(f, labs) THEN Err("lookup")
  ELSE LET rows0 == [i \in 1..NRows(f) |-> KeyTuple(f, i, labs)]
           ord == IF reorder THEN HierOrder(rows0) ELSE SeqRange(NRows(f))
           rows == Take(rows0, ord)
           keep == IF drop THEN WithoutCols(f, labs) ELSE SeqRange(NCols(f))
       IN IF ~Unique(rows) THEN Err("init_nonunique")
          ELSE IF ~TreeOrdered(rows) THEN Err("init")                  \* a hierarchical label set must be a tree in the given order (C02)
          ELSE AnyFrame([i \in 1..NRows(f) |-> Tup(rows[i])], Take(f.columns, keep), [k \in 1..Len(keep) |-> Take(f.cols[keep[k] + 1].vals, ord)], f.name)
SetIndexHierarchy(f, labs, drop) == SetIndexHierarchyR(f, labs, drop, FALSE)
(* unset_index: every index level becomes a leading column labelled by that level's name; the index becomes 0..n-1 *)
UnsetIndex(f, names) ==
  LET d == Len(names) IN
  AnyFrame(AutoIndex(NRows(f)), names \o f.columns,
           [k \in 1..d |-> [i \in 1..NRows(f) |-> Levels(f.index[i])[k]]] \o [j \in 1..NCols(f) |-> f.cols[j].vals], f.name)
(* relabel_shift_in(key, axis=0): the column's values become a new innermost index level; axis=1: a row's values a new columns level *)
ShiftInRows(f, lab) ==
  IF ColIdx(f, lab) = 0 THEN Err("lookup")
  ELSE LET keep == WithoutCols(f, <<lab>>)
           rows == [i \in 1..NRows(f) |-> Levels(f.index[i]) \o <<CellAt(f, i, ColIdx(f, lab))>>]
       IN IF ~Unique(rows) THEN Err("init_nonunique") ELSE IF ~TreeOrdered(rows) THEN Err("init")
          ELSE AnyFrame([i \in 1..NRows(f) |-> Tup(rows[i])], Take(f.columns, keep), [k \in 1..Len(keep) |-> f.cols[keep[k] + 1].vals], f.name)
ShiftInCols(f, rlab) ==
  LET r == Find(f.index, rlab) + 1 IN
  IF r = 0 THEN Err("lookup")
  ELSE LET keep == SelectSeq(SeqRange(NRows(f)), LAMBDA p : p + 1 # r)
           cls == [j \in 1..NCols(f) |-> Levels(f.columns[j]) \o <<CellAt(f, r, j)>>]
       IN IF ~Unique(cls) THEN Err("init_nonunique") ELSE IF ~TreeOrdered(cls) THEN Err("init")
          ELSE AnyFrame(Take(f.index, keep), [j \in 1..NCols(f) |-> Tup(cls[j])], [j \in 1..NCols(f) |-> Take(f.cols[j].vals, keep)], f.name)
(* relabel_shift_out(levels, axis=0): the named index levels (0-based, in the order given) become leading columns labelled by their level names; *)
(* the other levels stay (all moved: the index becomes 0..n-1)                                                                            *)
ShiftOutRows(f, names, lv) ==
  LET d == Len(names)
      stay == SelectSeq(SeqRange(d), LAMBDA p : ~Member(lv, p))
      ix == IF stay = <<>> THEN AutoIndex(NRows(f)) ELSE [i \in 1..NRows(f) |-> MkLabel(Take(Levels(f.index[i]), stay))]
  IN IF \E k \in 1..Len(lv) : lv[k] < 0 \/ lv[k] >= d THEN Err("lookup")
     ELSE IF ~Unique(ix) THEN Err("init_nonunique")
     ELSE IF Len(stay) > 1 /\ ~TreeOrdered([i \in 1..NRows(f) |-> Take(Levels(f.index[i]), stay)]) THEN Err("init")
     ELSE AnyFrame(ix, Take(names, lv) \o f.columns,
                   [k \in 1..Len(lv) |-> [i \in 1..NRows(f) |-> At(Levels(f.index[i]), lv[k])]] \o [j \in 1..NCols(f) |-> f.cols[j].vals], f.name)

(* ---- pivot_stack / pivot_unstack ------------------------------------------------------------------------------------------ *)
(* stack: the (innermost) columns level becomes the innermost index level, row-major; one column labelled 0                    *)
Stack(f) ==
  LET n == NRows(f)  m == NCols(f)
      pos(k) == <<((k - 1) \div m) + 1, ((k - 1) % m) + 1>>
  IN AnyFrame([k \in 1..(n * m) |-> Tup(Levels(f.index[pos(k)[1]]) \o <<f.columns[pos(k)[2]]>>)], <<<<"i", 0>>>>,
              <<[k \in 1..(n * m) |-> CellAt(f, pos(k)[1], pos(k)[2])]>>, f.name)
(* stack of two-level columns: the INNER columns level becomes the innermost index level (one row per source row and distinct inner  *)
(* label, inner labels in order of first appearance); the outer labels stay as columns; cell ((row, inner), outer) is the source     *)
(* cell at (row, (outer, inner)) where that column exists and the missing marker elsewhere - every cell exactly as it was             *)
StackH(f) ==
  (* (columns of depth d > 2 keep their outer d - 1 levels as a hierarchy: the remaining column label is the tuple of those levels) *)
  LET outers == Dedupe([j \in 1..NCols(f) |-> MkLabel(SubSeq(f.columns[j][2], 1, Len(f.columns[j][2]) - 1))])
      inners == Dedupe([j \in 1..NCols(f) |-> f.columns[j][2][Len(f.columns[j][2])]])
      n == NRows(f)  m == Len(inners)
      pos(k) == <<((k - 1) \div m) + 1, ((k - 1) % m) + 1>>
      cell(k, o) == LET c == Find(f.columns, Tup(Levels(outers[o]) \o <<inners[pos(k)[2]]>>)) IN IF c < 0 THEN NaN ELSE CellAt(f, pos(k)[1], c + 1)
  IN AnyFrame([k \in 1..(n * m) |-> Tup(Levels(f.index[pos(k)[1]]) \o <<inners[pos(k)[2]]>>)], outers,
              [o \in 1..Len(outers) |-> [k \in 1..(n * m) |-> cell(k, o)]], f.name)
(* unstack (innermost index level of a depth-2 index into the columns), as a relation: one row per distinct outer label, one column   *)
(* per (column, inner label) pair, the cell at (outer, (c, inner)) = the source cell at ((outer, inner), c), the fill where absent   *)
(* (an index of depth d > 2 keeps its outer d - 1 levels as a hierarchy: the row label is then the tuple of those levels, rows in order of first appearance) *)
UnstackOuterOf(l) == MkLabel(SubSeq(l[2], 1, Len(l[2]) - 1))
UnstackRows(f) == Dedupe([i \in 1..NRows(f) |-> UnstackOuterOf(f.index[i])])
UnstackInner(f) == Dedupe([i \in 1..NRows(f) |-> f.index[i][2][Len(f.index[i][2])]])
UnstackCell(f, outer, c, inner, fill) ==
  LET p == Find(f.index, Tup(Levels(outer) \o <<inner>>)) IN IF p < 0 THEN fill ELSE CellAt(f, p + 1, ColIdx(f, c))

(* ---- pivot ------------------------------------------------------------------------------------------------------------------------ *)
PivotRowKeys(f, ixf) == Dedupe([i \in 1..NRows(f) |-> KeyTuple(f, i, ixf)])
PivotColKeys(f, colf) == IF colf = <<>> THEN <<<<>>>> ELSE Dedupe([i \in 1..NRows(f) |-> KeyTuple(f, i, colf)])
PivotSrc(f, ixf, rk, colf, ck) == SelectSeq([i \in 1..NRows(f) |-> i], LAMBDA i : KeyTuple(f, i, ixf) = rk /\ (colf = <<>> \/ KeyTuple(f, i, colf) = ck))
IntOf(v) == v[2]
FoldI(op(_, _), s) == FoldLeft(op, IntOf(s[1]), [k \in 1..(Len(s) - 1) |-> IntOf(s[k + 1])])
Agg(fn, vals) ==                       \* vals: non-empty sequence of integer cells
  CASE fn = "sum" -> <<"i", SumSeq([k \in 1..Len(vals) |-> IntOf(vals[k])])>>
    [] fn = "min" -> <<"i", FoldI(MinI, vals)>>
    [] fn = "max" -> <<"i", FoldI(MaxI, vals)>>
    [] fn = "count" -> <<"i", Len(vals)>>
    [] fn = "range" -> <<"i", FoldI(MaxI, vals) - FoldI(MinI, vals)>>
    [] fn = "first" -> vals[1]
    [] fn = "last" -> vals[Len(vals)]
PivotCell(f, ixf, colf, rk, ck, d, fn, fill) ==
  LET src == PivotSrc(f, ixf, rk, colf, ck) IN
  IF src = <<>> THEN fill ELSE Agg(fn, [k \in 1..Len(src) |-> CellAt(f, src[k], ColIdx(f, d))])
(* the column combinations of the result: (column-field tuple, data field, function name) *)
PivotCols(f, colf, dataf, fns) ==
  LET cks == PivotColKeys(f, colf) IN
  [t \in 1..(Len(cks) * Len(dataf) * Len(fns)) |->
     LET a == (t - 1) \div (Len(dataf) * Len(fns))   b == ((t - 1) \div Len(fns)) % Len(dataf)   c == (t - 1) % Len(fns)
     IN <<cks[a + 1], dataf[b + 1], fns[c + 1]>>]
PivotDataFields(f, ixf, colf, dataf) == IF dataf # <<>> THEN dataf ELSE SelectSeq(f.columns, LAMBDA c : ~Member(ixf, c) /\ ~Member(colf, c))
(* every source row lands in exactly one (row key, column key) cell *)
PivotPartitions(f, ixf, colf) ==
  \A i \in 1..NRows(f) : Cardinality({<<rk, ck>> \in ToSet(PivotRowKeys(f, ixf)) \X ToSet(PivotColKeys(f, colf)) : Member(PivotSrc(f, ixf, rk, colf, ck), i)}) = 1

(* ---- joins ------------------------------------------------------------------------------------------------------------------------------ *)
(* a key spec: [depth |-> BOOLEAN (the index label is part of the key), cols |-> <<column labels>>]                                           *)
JoinKey(f, i, ks) == (IF ks.depth THEN <<f.index[i]>> ELSE <<>>) \o KeyTuple(f, i, ks.cols)
KeyWidth(ks) == (IF ks.depth THEN 1 ELSE 0) + Len(ks.cols)
MatchesOf(L, R, lk, rk, i) == SelectSeq([j \in 1..NRows(R) |-> j], LAMBDA j : JoinKey(L, i, lk) = JoinKey(R, j, rk))
FlatSeqs(ss) == FoldLeft(LAMBDA a, b : a \o b, <<>>, ss)
JoinPairs(L, R, lk, rk) == FlatSeqs([i \in 1..NRows(L) |-> [k \in 1..Len(MatchesOf(L, R, lk, rk, i)) |-> <<i, MatchesOf(L, R, lk, rk, i)[k]>>]])
Repeat(x, n) == [k \in 1..n |-> x]
(* each result row: <<left label or None, right label or None>> followed by the left cells and the right cells *)
JoinRows(L, R, lk, rk, kind, fill) ==
  LET ps == JoinPairs(L, R, lk, rk)
      ml == {ps[k][1] : k \in 1..Len(ps)}
      mr == {ps[k][2] : k \in 1..Len(ps)}
      inner == [k \in 1..Len(ps) |-> <<L.index[ps[k][1]], R.index[ps[k][2]]>> \o RowCells(L, ps[k][1]) \o RowCells(R, ps[k][2])]
      ul == SelectSeq([i \in 1..NRows(L) |-> i], LAMBDA i : i \notin ml)
      ur == SelectSeq([j \in 1..NRows(R) |-> j], LAMBDA j : j \notin mr)
      extL == [k \in 1..Len(ul) |-> <<L.index[ul[k]], None>> \o RowCells(L, ul[k]) \o Repeat(fill, NCols(R))]
      extR == [k \in 1..Len(ur) |-> <<None, R.index[ur[k]]>> \o Repeat(fill, NCols(L)) \o RowCells(R, ur[k])]
  IN inner \o (IF kind \in {"left", "outer"} THEN extL ELSE <<>>) \o (IF kind \in {"right", "outer"} THEN extR ELSE <<>>)
Templated(tp, lab) == <<"s", tp[1] \o lab[2] \o tp[2]>>                 \* template = prefix + "{}" + suffix, string labels
JoinColumns(L, R, lt, rt) == [j \in 1..NCols(L) |-> Templated(lt, L.columns[j])] \o [j \in 1..NCols(R) |-> Templated(rt, R.columns[j])]
(* one-to-many or many-to-many: some left row has several matches, or some right row is matched by several left rows *)
JoinIsMany(L, R, lk, rk) ==
  LET ps == JoinPairs(L, R, lk, rk) IN \E a, b \in 1..Len(ps) : a # b /\ (ps[a][1] = ps[b][1] \/ ps[a][2] = ps[b][2])
SameBag(a, b) == Len(a) = Len(b) /\ \A i \in 1..Len(a) : Len(SelectSeq(a, LAMBDA x : x = a[i])) = Len(SelectSeq(b, LAMBDA x : x = a[i]))

(* ---- dispatch: a recorded / enumerated call to the result the definitions prescribe ------------------------------------------------------ *)
PivotResult(f, ixf, colf, dataf0, fns, fill) ==
  LET dataf == PivotDataFields(f, ixf, colf, dataf0) IN
  IF ~HasCols(f, ixf) \/ ~HasCols(f, colf) \/ ~HasCols(f, dataf) THEN Err("init")
  ELSE IF dataf = <<>> THEN Err("init")
  ELSE LET rks == PivotRowKeys(f, ixf)
           cols == PivotCols(f, colf, dataf, [k \in 1..Len(fns) |-> fns[k][1]])
           fnOf(name) == (CHOOSE k \in 1..Len(fns) : fns[k][1] = name)
       IN [k |-> "pivot", rows |-> rks, cols |-> cols,
           cells |-> [r \in 1..Len(rks) |-> [c \in 1..Len(cols) |-> PivotCell(f, ixf, colf, rks[r], cols[c][1], cols[c][2], fns[fnOf(cols[c][3])][2], fill)]]]
JoinResult(L, R, lk, rk, kind, fill, lt, rt, composite) ==
  IF ~HasCols(L, lk.cols) \/ ~HasCols(R, rk.cols) THEN Err("lookup")
  ELSE IF KeyWidth(lk) # KeyWidth(rk) THEN Err("runtime")
  ELSE IF ~composite /\ JoinIsMany(L, R, lk, rk) THEN Err("runtime")
  ELSE [k |-> "join", columns |-> JoinColumns(L, R, lt, rt), rows |-> JoinRows(L, R, lk, rk, kind, fill)]
Apply20(cs) ==
  CASE cs.op = "set_index" -> SetIndex(cs.f, cs.lab, cs.drop)
    [] cs.op = "set_index_hierarchy" -> SetIndexHierarchy(cs.f, cs.labs, cs.drop)
    [] cs.op = "stack_h" -> StackH(cs.f)
    [] cs.op = "set_index_hierarchy_reorder" -> SetIndexHierarchyR(cs.f, cs.labs, cs.drop, TRUE)
    [] cs.op = "unset_index" -> UnsetIndex(cs.f, cs.names)
    [] cs.op = "shift_in_rows" -> ShiftInRows(cs.f, cs.lab)
    [] cs.op = "shift_in_cols" -> ShiftInCols(cs.f, cs.lab)
    [] cs.op = "shift_out_rows" -> ShiftOutRows(cs.f, cs.names, cs.lv)
    [] cs.op = "stack" -> Stack(cs.f)
    [] cs.op = "unstack" -> LET rs == UnstackRows(cs.f)  inn == UnstackInner(cs.f)
                                cols == [t \in 1..(NCols(cs.f) * Len(inn)) |-> <<<<cs.f.columns[((t - 1) \div Len(inn)) + 1]>>, inn[((t - 1) % Len(inn)) + 1], "">>]
                            IN [k |-> "pivot", rows |-> [r \in 1..Len(rs) |-> <<rs[r]>>], cols |-> cols,
                                cells |-> [r \in 1..Len(rs) |-> [c \in 1..Len(cols) |-> UnstackCell(cs.f, rs[r], cols[c][1][1], cols[c][2], cs.fill)]]]
    [] cs.op = "pivot" -> PivotResult(cs.f, cs.ixf, cs.colf, cs.dataf, cs.fns, cs.fill)
    [] cs.op = "join" -> JoinResult(cs.f, cs.g, cs.lk, cs.rk, cs.kind, cs.fill, cs.lt, cs.rt, cs.composite)
(* comparison of a recorded result with the prescribed one: labels of pivot / join results as sets (the statements fix no order) *)
SetEqSeq(a, b) == (\A i \in 1..Len(a) : Member(b, a[i])) /\ (\A i \in 1..Len(b) : Member(a, b[i]))
Diff20(e, a) ==
  IF e.k = "pivot" THEN
       (IF a.k # "pivot" THEN "kind"
        ELSE IF ~Unique(a.rows) \/ ~SetEqSeq(a.rows, e.rows) THEN "pivot_row_labels"
        ELSE IF ~Unique(a.cols) \/ ~SetEqSeq(a.cols, e.cols) THEN "pivot_column_labels"
        ELSE IF \E r \in 1..Len(a.rows), c \in 1..Len(a.cols) :
                  a.cells[r][c] # e.cells[Find(e.rows, a.rows[r]) + 1][Find(e.cols, a.cols[c]) + 1] THEN "pivot_cells"
        ELSE "ok")
  ELSE IF e.k = "join" THEN
       (IF a.k # "join" THEN "kind"
        ELSE IF a.columns # e.columns THEN "join_columns"
        ELSE IF a.pairs /\ ~SameBag(a.rows, e.rows) THEN "join_rows"
        ELSE IF ~a.pairs /\ ~SameBag(a.rows, [k \in 1..Len(e.rows) |-> SubSeq(e.rows[k], 3, Len(e.rows[k]))]) THEN "join_rows"
        ELSE "ok")
  ELSE IF e.k = "err" /\ a.k = "err" /\ e.cat \in {"init", "init_nonunique"} /\ a.cat \in {"init", "init_nonunique"} THEN "ok"      \* one index-initialisation error or the other
  ELSE Diff(e, a)
=============================================================================
