------------------------------- MODULE MC_C08 -------------------------------
(* Small-scope instance for the functional update interfaces (C08).  State = one call (cs) and its result.   *)
EXTENDS SFOps
CONSTANTS NR, NC
VARIABLES cs, res
vars == <<cs, res>>

RowLab == [i \in 1..NR |-> <<"s", <<"a", "b", "c", "d">>[i]>>]
ColLab == [j \in 1..NC |-> <<"i", 10 * j>>]
ColDt  == [j \in 1..NC |-> <<DtI64, DtI64, DtF64, DtB>>[j]]
ColVal(j, i) == CASE j <= 2 -> <<"i", 10 * j + i>> [] j = 3 -> <<"f", 2 * i + 1, 2>> [] OTHER -> <<"b", i % 2>>
F == [index |-> RowLab, columns |-> ColLab, name |-> <<"s", "nm">>,
      cols |-> [j \in 1..NC |-> [dt |-> ColDt[j], vals |-> [i \in 1..NR |-> ColVal(j, i)]]]]
Ser == [index |-> RowLab, vals |-> F.cols[1].vals, dt |-> DtI64, name |-> None]

IKeys(n) == {KAll} \cup {<<"int", p>> : p \in {0, n - 1, -1, n}}
            \cup {<<"slice", a, b, s>> : a \in {SNone, SI(1), SI(-1)}, b \in {SNone, SI(n - 1), SI(-1)}, s \in {SNone, SI(2), SI(-1)}}
            \cup {<<"list", <<p, q>>>> : p, q \in 0..(n - 1)} \cup {<<"list", <<>>>>}
            \cup {<<"mask", m>> : m \in [1..n -> BOOLEAN]}
LKeys(labs) == LET L == {labs[i] : i \in 1..Len(labs)} \cup {IF labs[1][1] = "i" THEN <<"i", 999>> ELSE <<"s", "ZZ">>} IN
            {KAll} \cup {<<"loc", x>> : x \in L}
            \cup {<<"locslice", a, b, SNone>> : a \in L \cup {SNone}, b \in L \cup {SNone}}
            \cup {<<"loclist", <<x, y>>>> : x, y \in L}
Elems == {<<"i", 7>>, <<"f", 1, 2>>, NaN, None, <<"s", "xyz">>, <<"b", 1>>}
SerVals(labs) == {<<"series", <<labs[2], labs[1]>>, <<<<"i", 7>>, <<"i", 8>>>>, DtI64>>,       \* permuted, partial
                  <<"series", <<labs[1], <<"s", "ZZ">>>>, <<<<"f", 1, 2>>, <<"f", 3, 2>>>>, DtF64>>}
FrVal == <<"frame", [index |-> <<RowLab[2], RowLab[1]>>, columns |-> <<ColLab[2], <<"i", 999>>>>,
                     cols |-> <<[dt |-> DtI64, vals |-> <<I(1), I(2)>>], [dt |-> DtI64, vals |-> <<I(3), I(4)>>]>>]>>

InitCases ==
  \/ \E rk \in IKeys(NR), ck \in IKeys(NC), v \in Elems : cs = [op |-> "f_assign", via |-> "iloc", f |-> F, rk |-> rk, ck |-> ck, val |-> <<"elem", v>>]
  \/ \E rk \in LKeys(RowLab), ck \in LKeys(ColLab) : cs = [op |-> "f_assign", via |-> "loc", f |-> F, rk |-> rk, ck |-> ck, val |-> <<"elem", NaN>>]
  \/ \E rk \in IKeys(NR), ck \in {<<"int", 0>>, <<"int", 2>>}, v \in SerVals(RowLab) : cs = [op |-> "f_assign", via |-> "iloc", f |-> F, rk |-> rk, ck |-> ck, val |-> v]
  \/ \E rk \in {<<"int", 1>>}, ck \in IKeys(NC), v \in SerVals(ColLab) : cs = [op |-> "f_assign", via |-> "iloc", f |-> F, rk |-> rk, ck |-> ck, val |-> v]
  \/ \E rk \in IKeys(NR), ck \in IKeys(NC) : cs = [op |-> "f_assign", via |-> "iloc", f |-> F, rk |-> rk, ck |-> ck, val |-> FrVal]
  \/ \E rk \in IKeys(NR) \cup {<<"nokey">>}, ck \in IKeys(NC) \cup {<<"nokey">>} : cs = [op |-> "f_drop", via |-> "iloc", f |-> F, rk |-> rk, ck |-> ck]
  \/ \E rk \in LKeys(RowLab), ck \in LKeys(ColLab) \cup {<<"nokey">>} : cs = [op |-> "f_drop", via |-> "loc", f |-> F, rk |-> rk, ck |-> ck]
  \/ \E rk \in IKeys(NR), ck \in IKeys(NC) : cs = [op |-> "f_mask", via |-> "iloc", f |-> F, rk |-> rk, ck |-> ck]
  \/ \E rk \in IKeys(NR), v \in Elems : cs = [op |-> "s_assign", via |-> "iloc", s |-> Ser, rk |-> rk, val |-> <<"elem", v>>]
  \/ \E rk \in IKeys(NR), v \in SerVals(RowLab) : cs = [op |-> "s_assign", via |-> "iloc", s |-> Ser, rk |-> rk, val |-> v]
  \/ \E rk \in LKeys(RowLab) : cs = [op |-> "s_drop", via |-> "loc", s |-> Ser, rk |-> rk]
  \/ \E rk \in IKeys(NR) : cs = [op |-> "s_mask", via |-> "iloc", s |-> Ser, rk |-> rk]
  \/ \E ck \in LKeys(ColLab), to \in {DtF64, DtO} : cs = [op |-> "f_astype", f |-> F, ck |-> ck, to |-> to]

Pending == [k |-> "pending"]
Init == InitCases /\ res = Pending
Call == res.k = "pending" /\ res' = Apply(cs) /\ UNCHANGED cs
Next == Call
Spec == Init /\ [][Next]_vars

Done == res.k # "pending"
IsFrameOp == cs.op \in {"f_assign", "f_drop", "f_mask", "f_astype"}
(* assign / astype keep labels, order and name, and leave every unaddressed column exactly as it was *)
AddressedCols == IF cs.op = "f_astype" THEN LocResolve(cs.ck, cs.f.columns) ELSE ColRes(cs, cs.f.columns)
AddressedRows == IF cs.op = "f_astype" THEN Resolved(TRUE, SeqRange(NR)) ELSE RowRes(cs, cs.f.index)
OnlyAddressed ==
  (Done /\ cs.op \in {"f_assign", "f_astype"} /\ res.k = "frame" /\ ~(cs.op = "f_assign" /\ cs.val[1] = "frame")) =>
     /\ res.index = cs.f.index /\ res.columns = cs.f.columns /\ res.name = cs.f.name
     /\ \A j \in 1..NC : ~Member(AddressedCols.ps, j - 1) => res.cols[j] = cs.f.cols[j]
     /\ \A j \in 1..NC, i \in 1..NR : ~Member(AddressedRows.ps, i - 1) =>
           \/ res.cols[j].vals[i] = cs.f.cols[j].vals[i]
           \/ (Tag(cs.f.cols[j].vals[i]) \in {"i", "b"} /\ Kind(res.cols[j].dt) = "f" /\ QOf(res.cols[j].vals[i]) = QOf(cs.f.cols[j].vals[i]))
(* an assigned element is stored equal to the element supplied *)
ElementStored ==
  (Done /\ cs.op = "f_assign" /\ res.k = "frame" /\ cs.val[1] = "elem") =>
     \A j \in 1..NC, i \in 1..NR : (Member(AddressedCols.ps, j - 1) /\ Member(AddressedRows.ps, i - 1)) =>
        \/ res.cols[j].vals[i] = cs.val[2]
        \/ (Tag(cs.val[2]) = "i" /\ res.cols[j].vals[i] = <<"f", cs.val[2][2], 1>>)
        \/ (Tag(cs.val[2]) = "none" /\ IsNA(res.cols[j].vals[i]))
DropExact ==
  (Done /\ cs.op = "f_drop" /\ res.k = "frame") =>
     /\ res.index = SelectSeq(cs.f.index, LAMBDA x : ~Member(Take(cs.f.index, AddressedRows.ps), x))
     /\ res.columns = SelectSeq(cs.f.columns, LAMBDA x : ~Member(Take(cs.f.columns, AddressedCols.ps), x))
     /\ \A j \in 1..Len(res.columns), i \in 1..Len(res.index) :
           res.cols[j].vals[i] = Cell(cs.f, Find(cs.f.index, res.index[i]), Find(cs.f.columns, res.columns[j]))
MaskExact ==
  (Done /\ cs.op = "f_mask" /\ res.k = "frame") =>
     /\ res.index = cs.f.index /\ res.columns = cs.f.columns
     /\ \A j \in 1..NC, i \in 1..NR : res.cols[j].vals[i] = B(Member(AddressedRows.ps, i - 1) /\ Member(AddressedCols.ps, j - 1))
=============================================================================
