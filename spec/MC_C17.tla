------------------------------- MODULE MC_C17 -------------------------------
(* Small scope for the Bus (C17): one store file with N labels, up to MaxBuses Bus objects on it (the first opened with   *)
(* max_persist MP), every access history of single labels and label lists (any order), derivations, and the file being    *)
(* touched (newer or older mtime), rewritten or deleted at any point.                                                        *)
EXTENDS SFBus
CONSTANTS N, MP, MaxBuses, Depth
VARIABLES file, seen, buses, act
vars == <<file, seen, buses, act>>
Lab == 1..N
Sels == {s \in UNION {[1..k -> Lab] : k \in 1..N} : Cardinality(ToS(s)) = Len(s)}            \* non-empty, no repeats, any order
Fresh(labels) == [labels |-> labels, held |-> [l \in Lab |-> 0], lru |-> <<>>, mp |-> MP]
Init == /\ file = [exists |-> TRUE, mtime |-> 5, ver |-> 1, clock |-> 5]
        /\ seen = 5
        /\ buses = <<Fresh([i \in 1..N |-> i])>>
        /\ act = [name |-> "open", outcome |-> "ok"]
(* bus[i][l] for one label: returns the Frame *)
AccessOne(i, l) ==
  /\ l \in ToS(buses[i].labels)
  /\ LET u == Update(buses[i], <<l>>, file, seen) IN
     /\ buses' = [buses EXCEPT ![i] = u.bus]
     /\ act' = [name |-> "get", bus |-> i, sel |-> <<l>>, outcome |-> u.outcome, reads |-> u.reads, got |-> IF u.outcome = "ok" THEN u.bus.held[l] ELSE 0]
  /\ UNCHANGED <<file, seen>>
(* bus[i][[...]]: the cache is updated, then a new Bus over the selection is handed back *)
AccessMany(i, sel) ==
  /\ ToS(sel) \subseteq ToS(buses[i].labels) /\ Len(sel) >= 2
  /\ LET u == Update(buses[i], sel, file, seen) IN
     /\ buses' = IF u.outcome = "ok" /\ Len(buses) < MaxBuses THEN Append([buses EXCEPT ![i] = u.bus], SubBus(u.bus, sel)) ELSE [buses EXCEPT ![i] = u.bus]
     /\ act' = [name |-> "select", bus |-> i, sel |-> sel, outcome |-> u.outcome, reads |-> u.reads, got |-> 0]
  /\ UNCHANGED <<file, seen>>
Derive(i, labels) ==
  /\ ToS(labels) \subseteq ToS(buses[i].labels) /\ Len(buses) < MaxBuses
  /\ buses' = Append(buses, Reorder(buses[i], labels))
  /\ act' = [name |-> "derive", bus |-> i, sel |-> labels, outcome |-> "ok", reads |-> 0, got |-> 0]
  /\ UNCHANGED <<file, seen>>
(* assumption: a modification never leaves the file with exactly an mtime it had before (mtimes are fresh), older or newer *)
TouchFile(dt) == /\ file.exists /\ file' = [file EXCEPT !.mtime = dt * (file.clock + 1), !.clock = @ + 1]
                 /\ act' = [name |-> "touch", dt |-> dt, outcome |-> "ok"] /\ UNCHANGED <<seen, buses>>
Rewrite == /\ file.exists /\ file' = [file EXCEPT !.mtime = file.clock + 1, !.clock = @ + 1, !.ver = @ + 1]
           /\ act' = [name |-> "rewrite", outcome |-> "ok"] /\ UNCHANGED <<seen, buses>>
Delete == /\ file.exists /\ file' = [file EXCEPT !.exists = FALSE]
          /\ act' = [name |-> "delete", outcome |-> "ok"] /\ UNCHANGED <<seen, buses>>
Next == /\ TLCGet("level") <= Depth
        /\ \/ \E i \in 1..Len(buses), l \in Lab : AccessOne(i, l)
           \/ \E i \in 1..Len(buses), sel \in Sels : AccessMany(i, sel)
           \/ \E i \in 1..Len(buses), sel \in Sels : Derive(i, sel)
           \/ \E dt \in {-1, 1} : TouchFile(dt)
           \/ Rewrite \/ Delete
Spec == Init /\ [][Next]_vars
AllBounded == \A i \in 1..Len(buses) : Bounded(buses[i])
AllFaithful == \A i \in 1..Len(buses) : Faithful(buses[i])
(* the recency list is exactly the loaded set, unless a store-mutation error interrupted an update (the label being read was already recorded) *)
LruExactUntilError == (file.exists /\ file.mtime = seen) => \A i \in 1..Len(buses) : LruExact(buses[i])
GetReturnsTheFrame == (act.name = "get" /\ act.outcome = "ok") => act.got = 1
(* once the file has changed, nothing more is read from it: a call that needs the store raises *)
NoReadAfterMutation == [][(act'.name \in {"get", "select"} /\ ~Coherent(file, seen)) => (act'.reads = 0 /\ (act'.outcome = "ok" => \A k \in 1..Len(act'.sel) : buses[act'.bus].held[act'.sel[k]] # 0))]_vars
ErrorOnlyIfChanged == [][(act'.name \in {"get", "select"} /\ act'.outcome # "ok") => ~Coherent(file, seen)]_vars
=============================================================================
