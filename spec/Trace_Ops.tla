------------------------------ MODULE Trace_Ops ------------------------------
(* Trace validation for single-call operations: every recorded call {id, cs, res} must be the result the      *)
(* specification prescribes for cs.  One state per recorded line; a rejected line is reported with the         *)
(* failing observable and the expected result, and the rest of the trace is still checked.                     *)
EXTENDS SFOps, Json, IOUtils
Trace == ndJsonDeserialize(IOEnv.TRACE_FILE)
VARIABLE l
Init == l = 1
Next == /\ l <= Len(Trace)
        /\ l' = l + 1
        /\ LET e == Apply(Trace[l].cs)
               v == Diff(e, Trace[l].res)
           IN v = "ok" \/ PrintT(<<"VERDICT", Trace[l].id, v, e>>)
Post == PrintT(<<"DONE", TLCGet("stats").diameter - 1>>)
=============================================================================
