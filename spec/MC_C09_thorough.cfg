SPECIFICATION Spec
CONSTANT Lab <- L3
CONSTANT MaxObj = 3
CONSTANT MaxLen = 3
CONSTANT Atomic = TRUE
INVARIANT NoDuplicates
INVARIANT Bounded
PROPERTY AppendOnly
PROPERTY AllOrNothing
PROPERTY Isolation
CHECK_DEADLOCK FALSE
