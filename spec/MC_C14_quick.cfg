INIT Init
NEXT Next
CONSTANT N = 4
INVARIANT BlockFillRefines
INVARIANT ValidUntouched
INVARIANT LimitRespected
INVARIANT SidedOnlyEdge
INVARIANT CountExact
INVARIANT DropnaExact
INVARIANT FillFrameExact
CHECK_DEADLOCK FALSE
