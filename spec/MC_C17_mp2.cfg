SPECIFICATION Spec
CONSTANT N = 3
CONSTANT MP = 2
CONSTANT MaxBuses = 2
CONSTANT Depth = 5
INVARIANT AllBounded
INVARIANT AllFaithful
INVARIANT LruExactUntilError
INVARIANT GetReturnsTheFrame
PROPERTY NoReadAfterMutation
PROPERTY ErrorOnlyIfChanged
CHECK_DEADLOCK FALSE
