------------------------------- MODULE SFCoerce -------------------------------
(* No lossy coercion (C07).  The design question is answered on the model: does the dtype chosen by            *)
(* resolve_dtype hold every element of both operands?  Elements are symbolic classes with their               *)
(* representability written out; the recorded executions are judged by SameElement.                            *)
EXTENDS SFValue

(* ---- symbolic element classes: <<class, attribute>> --------------------------------------------------------- *)
(* ints by magnitude: "small" (fits 8 bits), "w16", "w32" (fits that signed width), "big53" (> 2^53, odd),          *)
(* "max63" (2^63-1), "max64" (2^64-1); floats: "half" (0.5), "nan"; text by length; dates by unit                   *)
ElemClasses == {<<"bool", 0>>, <<"int", "small">>, <<"int", "w16">>, <<"int", "w32">>, <<"int", "big53">>, <<"int", "max63">>, <<"int", "max64">>,
                <<"float", "half">>, <<"float", "nan">>, <<"complex", 0>>, <<"str", 1>>, <<"str", 3>>, <<"bytes", 1>>, <<"bytes", 3>>,
                <<"date", "Y">>, <<"date", "D">>, <<"date", "s">>, <<"nat", 0>>, <<"delta", "D">>, <<"delta", "s">>, <<"none", 0>>}
(* which element classes an array of dtype dt naturally contains *)
Natural(dt) ==
  CASE Kind(dt) = "b" -> {<<"bool", 0>>}
    [] Kind(dt) = "i" -> {<<"int", "small">>} \cup (IF dt[2] >= 16 THEN {<<"int", "w16">>} ELSE {}) \cup (IF dt[2] >= 32 THEN {<<"int", "w32">>} ELSE {})
                          \cup (IF dt[2] = 64 THEN {<<"int", "big53">>, <<"int", "max63">>} ELSE {})
    [] Kind(dt) = "u" -> {<<"int", "small">>} \cup (IF dt[2] >= 32 THEN {<<"int", "w16">>} ELSE {}) \cup (IF dt[2] = 64 THEN {<<"int", "w32">>, <<"int", "big53">>, <<"int", "max63">>, <<"int", "max64">>} ELSE {})
    [] Kind(dt) = "f" -> {<<"float", "half">>, <<"float", "nan">>}
    [] Kind(dt) = "c" -> {<<"complex", 0>>, <<"float", "nan">>}
    [] Kind(dt) = "U" -> {<<"str", n>> : n \in {1, 3} \cap 1..dt[2]}
    [] Kind(dt) = "S" -> {<<"bytes", n>> : n \in {1, 3} \cap 1..dt[2]}
    [] Kind(dt) = "M" -> {<<"date", dt[2]>>, <<"nat", 0>>}
    [] Kind(dt) = "m" -> {<<"delta", dt[2]>>, <<"nat", 0>>}
    [] Kind(dt) = "O" -> ElemClasses
(* does an array of dtype dt store element class e so that it reads back equal and of the same class? *)
Holds(dt, e) ==
  CASE Kind(dt) = "O" -> TRUE
    [] e[1] = "bool" -> Kind(dt) = "b"
    [] e[1] = "int" ->
         \/ (Kind(dt) = "i" /\ (e[2] = "small" \/ (e[2] = "w16" /\ dt[2] >= 16) \/ (e[2] = "w32" /\ dt[2] >= 32) \/ (e[2] \in {"big53", "max63"} /\ dt[2] = 64)))
         \/ (Kind(dt) = "u" /\ (e[2] = "small" \/ (e[2] = "w16" /\ dt[2] >= 16) \/ (e[2] = "w32" /\ dt[2] >= 32) \/ dt[2] = 64))
         \/ (Kind(dt) \in {"f", "c"} /\ LET mant == IF Kind(dt) = "f" THEN (CASE dt[2] = 16 -> 11 [] dt[2] = 32 -> 24 [] OTHER -> 53)
                                                    ELSE (IF dt[2] = 64 THEN 24 ELSE 53)
                                     IN (e[2] = "small" /\ mant >= 8) \/ (e[2] = "w16" /\ mant >= 16) \/ (e[2] = "w32" /\ mant >= 32))
    [] e[1] = "float" -> Kind(dt) \in {"f", "c"}            \* 0.5 and NaN are exact in every float width
    [] e[1] = "complex" -> Kind(dt) = "c"
    [] e[1] = "str" -> Kind(dt) = "U" /\ dt[2] >= e[2]
    [] e[1] = "bytes" -> Kind(dt) = "S" /\ dt[2] >= e[2]
    [] e[1] = "date" -> Kind(dt) = "M" /\ UnitRank(dt[2]) >= UnitRank(e[2])
    [] e[1] = "delta" -> Kind(dt) = "m" /\ UnitRank(dt[2]) >= UnitRank(e[2])
    [] e[1] = "nat" -> Kind(dt) \in {"M", "m"}
    [] e[1] = "none" -> FALSE
Dtypes == {DtB} \cup {<<"i", w>> : w \in {8, 16, 32, 64}} \cup {<<"u", w>> : w \in {8, 16, 32, 64}} \cup {<<"f", w>> : w \in {16, 32, 64}}
          \cup {<<"c", 64>>, <<"c", 128>>} \cup {<<"U", 1>>, <<"U", 3>>, <<"S", 1>>, <<"S", 3>>} \cup {<<"M", u>> : u \in {"Y", "D", "s"}}
          \cup {<<"m", u>> : u \in {"D", "s"}} \cup {DtO}
(* the only cells of the resolution table that lose information: 64-bit ints meeting a float / complex partner,   *)
(* and uint64 meeting a signed int (NumPy promotes to float64) -- the library's documented design decision       *)
IntWidth(a, b) == IF Kind(a) \in {"i", "u"} THEN a[2] ELSE b[2]
KnownLossy(a, b) == \/ ({Kind(a), Kind(b)} \in {{"i", "f"}, {"u", "f"}, {"i", "c"}, {"u", "c"}} /\ IntWidth(a, b) = 64)
                    \/ ({Kind(a), Kind(b)} = {"i", "u"} /\ <<"u", 64>> \in {a, b})
                    \/ ({Kind(a), Kind(b)} = {"U", "S"})                           \* str with bytes: outside the claim

(* ---- judging a recorded merge ------------------------------------------------------------------------------- *)
NumTagC(v) == Tag(v) \in {"i", "f"}
SameElement(sup, sto) ==
  \/ sup = sto
  \/ (NumTagC(sup) /\ NumTagC(sto) /\ QOf(sup) = QOf(sto))                 \* 1 stored as 1.0 is the same number
  \/ (IsNA(sup) /\ IsNA(sto) /\ (Tag(sup) = Tag(sto) \/ {Tag(sup), Tag(sto)} = {"nat", "none"} \/ {Tag(sup), Tag(sto)} = {"nan", "none"}))
  \/ (Tag(sup) = "c" /\ Tag(sto) = "c" /\ sup = sto)
  \/ (Tag(sup) \in {"i", "f"} /\ Tag(sto) = "c" /\ sto[3] = <<"f", 0, 1>> /\ NumTagC(sto[2]) /\ QOf(sto[2]) = QOf(sup))
  \/ (Tag(sup) \in {"I", "F"} /\ Tag(sto) = "c" /\ sto[3] = <<"f", 0, 1>> /\ sto[2] = sup)          \* a real number kept as a complex number with a zero imaginary part
  \/ (Tag(sup) = "d" /\ Tag(sto) = "d" /\ sup[3] = sto[3] /\ sup[2] = sto[2])
  \/ (Tag(sup) = "nan" /\ Tag(sto) = "c" /\ IsNA(sto[2]))                  \* NaN kept as a complex NaN
=============================================================================
