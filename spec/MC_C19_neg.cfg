INIT Init
NEXT Next
CONSTANT Sizes <- SizesQuick
INVARIANT MaskExtractionAnyOrder
CHECK_DEADLOCK FALSE
