------------------------------- MODULE MC_C12 -------------------------------
(* Small-scope instance for sorting (C12): every key sequence of length N over {0,1,2,NaN} (one and two keys),   *)
(* ascending and descending.  Design-level checks: the rank-based stable argsort meets the declarative           *)
(* statement, and the as-built multi-key route (successive stable sorts, last key first = np.lexsort with the    *)
(* keys reversed) yields the same order as the lexicographic stable sort.                                       *)
EXTENDS SFSort
CONSTANTS N
VARIABLES cs, res
vars == <<cs, res>>
KV == {<<"i", 0>>, <<"i", 1>>, <<"f", 1, 2>>, NaN}
Lab == [i \in 1..N |-> <<"s", <<"a", "b", "c", "d", "e">>[i]>>]
Pending == [k |-> "pending"]
Init == /\ \/ \E k1 \in [1..N -> KV], asc \in BOOLEAN :
                 cs = [op |-> "s_sort_values", s |-> [index |-> Lab, vals |-> [i \in 1..N |-> Cast(k1[i], DtF64)], dt |-> DtF64, name |-> <<"s", "nm">>], ascending |-> asc]
           \/ \E k1 \in [1..N -> KV], k2 \in [1..N -> {<<"i", 0>>, <<"i", 1>>}], asc \in BOOLEAN :
                 cs = [op |-> "f_sort_values", ascending |-> asc, by |-> <<<<"s", "x">>, <<"s", "yy">>>>,
                       f |-> [index |-> Lab, columns |-> <<<<"s", "x">>, <<"s", "yy">>, <<"s", "zzz">>>>, name |-> None,
                              cols |-> <<[dt |-> DtI64, vals |-> k2], [dt |-> DtF64, vals |-> [i \in 1..N |-> Cast(k1[i], DtF64)]], [dt |-> DtI64, vals |-> [i \in 1..N |-> <<"i", i>>]]>>]]
        /\ res = Pending
Call == res.k = "pending" /\ res' = SortResult(cs) /\ UNCHANGED cs
Next == Call
Spec == Init /\ [][Next]_vars
Order == SortOrder(SortKeys(cs), N, cs.ascending)
OrderMeetsStatement == IsStableSortOrder(SortKeys(cs), N, Order, cs.ascending)
LexsortRefines == LexsortAsBuilt(SortKeys(cs), N) = SortOrder(SortKeys(cs), N, TRUE)
DescendingIsReverse == SortOrder(SortKeys(cs), N, FALSE) = RevSeq(SortOrder(SortKeys(cs), N, TRUE))
SameAssociations == (res.k = "frame") => \A i \in 1..N : \E p \in 1..N : res.index[p] = cs.f.index[i] /\ \A j \in 1..3 : res.cols[j].vals[p] = cs.f.cols[j].vals[i]
=============================================================================
