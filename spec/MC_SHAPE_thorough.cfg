INIT Init
NEXT Next
CONSTANT NR = 4
CONSTANT NC = 4
CONSTANT MaxShift = 6
INVARIANT ReindexExact
INVARIANT ReindexKeepsDtype
INVARIANT RollInvertible
INVARIANT ShiftExact
INVARIANT DropIsComplementOfFlags
INVARIANT FirstRepresentativeStays
INVARIANT TransposeInvolution
INVARIANT ClipWithinBounds
INVARIANT RehierarchExact
INVARIANT LevelAddDropRoundTrip
INVARIANT SearchSortedBrackets
INVARIANT SearchSortedPointwise
INVARIANT LabelWidthsCoverRows
CHECK_DEADLOCK FALSE
