-------------------------------- MODULE SFDate --------------------------------
(* Datetime-typed indices (C04): selection by period.  A label is <<"dt", y, m, d>> (d = 1 on a year-month index);  *)
(* a key period is <<"D", y, m, d>>, <<"M", y, m>> or <<"Y", y>>.  A key of the index's own unit names one label      *)
(* (absent -> lookup error); a coarser key selects every label inside that period.                                   *)
EXTENDS SFFrame
InPeriod(lab, p) ==
  CASE p[1] = "D" -> lab[2] = p[2] /\ lab[3] = p[3] /\ lab[4] = p[4]
    [] p[1] = "M" -> lab[2] = p[2] /\ lab[3] = p[3]
    [] p[1] = "Y" -> lab[2] = p[2]
DNum(lab) == lab[2] * 400 + lab[3] * 31 + lab[4]
DateSorted(labels) == \A i \in 1..(Len(labels) - 1) : DNum(labels[i]) < DNum(labels[i + 1])
Matches(labels, p) == SelectSeq(SeqRange(Len(labels)), LAMBDA i : InPeriod(labels[i + 1], p))      \* 0-based, index order
IsNoBound(b) == b[1] = "none"
(* key: <<"dkey", p>>  <<"dlist", <<p, ...>>>> (one unit)  <<"dslice", a, b>> (a, b a period or <<"none">>)            *)
DateResolve(labels, unit, key) ==
  CASE key[1] = "dkey" ->
         LET ms == Matches(labels, key[2]) IN
         IF key[2][1] = unit THEN (IF ms = <<>> THEN [Unresolved EXCEPT !.multi = FALSE] ELSE Resolved(FALSE, <<ms[1]>>))
         ELSE Resolved(TRUE, ms)
    [] key[1] = "dlist" ->
         IF key[2] = <<>> THEN Resolved(TRUE, <<>>)
         ELSE IF key[2][1][1] = unit THEN
                (IF \E i \in 1..Len(key[2]) : Matches(labels, key[2][i]) = <<>> THEN Unresolved
                 ELSE Resolved(TRUE, [i \in 1..Len(key[2]) |-> Matches(labels, key[2][i])[1]]))
         ELSE Resolved(TRUE, SelectSeq(SeqRange(Len(labels)), LAMBDA i : \E j \in 1..Len(key[2]) : InPeriod(labels[i + 1], key[2][j])))
    [] key[1] = "dslice" ->
         (* from the first label inside the start period through the last label inside the stop period *)
         LET ma == IF IsNoBound(key[2]) THEN <<0>> ELSE Matches(labels, key[2])
             mb == IF IsNoBound(key[3]) THEN <<Len(labels) - 1>> ELSE Matches(labels, key[3])
         IN IF ma = <<>> \/ mb = <<>> THEN Unresolved
            ELSE Resolved(TRUE, RangeSeq(ma[1], mb[Len(mb)] + 1, 1))
(* outside the statement: a slice bound of a coarser unit whose period holds no label (the code yields an empty       *)
(* selection), and period slices on an index that is not in ascending order                                            *)
DateKeySpecified(labels, unit, key) ==
  key[1] = "dslice" =>
     /\ \A b \in {key[2], key[3]} : (~IsNoBound(b) /\ b[1] # unit) => Matches(labels, b) # <<>>
     /\ ((~IsNoBound(key[2]) /\ key[2][1] # unit) \/ (~IsNoBound(key[3]) /\ key[3][1] # unit)) => DateSorted(labels)

(* ---- as built (LocMap.map_slice_args / loc_to_iloc): transcribed to compare with the statement ----------------------- *)
FirstDay(p) == CASE p[1] = "D" -> <<"dt", p[2], p[3], p[4]>> [] p[1] = "M" -> <<"dt", p[2], p[3], 1>> [] p[1] = "Y" -> <<"dt", p[2], 1, 1>>
SliceStartAsBuilt(labels, unit, a) ==         \* -1: invalid loc, -2: empty
  IF IsNoBound(a) THEN 0
  ELSE IF a[1] = unit THEN Find(labels, FirstDay(a))
  ELSE LET p == Find(labels, FirstDay(a))  ms == Matches(labels, a) IN IF p >= 0 THEN p ELSE IF ms # <<>> THEN ms[1] ELSE -2
SliceStopAsBuilt(labels, unit, b) ==          \* exclusive stop
  IF IsNoBound(b) THEN Len(labels)
  ELSE IF b[1] = unit THEN (LET p == Find(labels, FirstDay(b)) IN IF p < 0 THEN -1 ELSE p + 1)
  ELSE LET ms == Matches(labels, b) IN IF ms # <<>> THEN ms[Len(ms)] + 1 ELSE -2
DateSliceAsBuilt(labels, unit, key) ==
  LET s == SliceStartAsBuilt(labels, unit, key[2])   e == SliceStopAsBuilt(labels, unit, key[3]) IN
  IF s = -1 \/ e = -1 THEN Unresolved
  ELSE IF s = -2 \/ e = -2 THEN Resolved(TRUE, <<>>)
  ELSE Resolved(TRUE, RangeSeq(s, e, 1))
=============================================================================
