-------------------------------- MODULE SFSort --------------------------------
(* Sorting (C12): an ordering of positions that is a permutation, puts the keys in non-decreasing order and    *)
(* keeps ties in their original relative order; descending is exactly the reverse arrangement; rows move        *)
(* whole.  Multi-key sorts are lexicographic; the as-built route (np.lexsort over the keys in reversed order,   *)
(* i.e. successive stable sorts from the last key to the first) is transcribed and compared.                    *)
EXTENDS SFFrame

(* total preorder on label / cell values of one kind; missing values sort last *)
StrOrder == <<"", "A", "B", "C", "D", "a", "b", "c", "d", "e", "f", "g", "h", "i", "j", "k", "l", "nm", "q r", "x", "yy", "zzz">>
StrRank(s) == Find(StrOrder, s)
RECURSIVE VLt(_, _)
VLt(a, b) ==
  IF IsNA(a) THEN FALSE
  ELSE IF IsNA(b) THEN TRUE
  ELSE IF Tag(a) = "t" /\ Tag(b) = "t" THEN
         LET n == MinI(Len(a[2]), Len(b[2]))
             d == {i \in 1..n : a[2][i] # b[2][i]}
         IN IF d = {} THEN Len(a[2]) < Len(b[2])
            ELSE LET i == CHOOSE x \in d : \A y \in d : x <= y IN VLt(a[2][i], b[2][i])
  ELSE IF Tag(a) = "s" /\ Tag(b) = "s" THEN StrRank(a[2]) < StrRank(b[2])
  ELSE IF Tag(a) = "d" /\ Tag(b) = "d" THEN a[3] < b[3]
  ELSE QLt(QOf(a), QOf(b))
VEq(a, b) == ~VLt(a, b) /\ ~VLt(b, a)

(* keys: Seq of key sequences (primary first), each of length n *)
RECURSIVE LexLt(_, _, _, _)
LexLt(keys, k, a, b) ==          \* positions a, b (0-based)
  IF k > Len(keys) THEN FALSE
  ELSE IF VLt(keys[k][a + 1], keys[k][b + 1]) THEN TRUE
  ELSE IF VLt(keys[k][b + 1], keys[k][a + 1]) THEN FALSE
  ELSE LexLt(keys, k + 1, a, b)
SortOrder(keys, n, ascending) ==
  LET asc == StableArgsort(n, LAMBDA a, b : LexLt(keys, 1, a, b)) IN IF ascending THEN asc ELSE RevSeq(asc)

(* as built: np.lexsort = successive stable sorts, last key first *)
RECURSIVE SuccessiveSort(_, _, _)
SuccessiveSort(keys, k, order) ==     \* order: current arrangement of 0-based positions
  IF k = 0 THEN order
  ELSE LET n == Len(order)
           ranks == StableArgsort(n, LAMBDA a, b : VLt(keys[k][order[a + 1] + 1], keys[k][order[b + 1] + 1]))
       IN SuccessiveSort(keys, k - 1, [i \in 1..n |-> order[ranks[i] + 1]])
LexsortAsBuilt(keys, n) == SuccessiveSort(keys, Len(keys), SeqRange(n))

(* the declarative statement about a recorded / computed ordering *)
IsStableSortOrder(keys, n, order, ascending) ==
  LET o == IF ascending THEN order ELSE RevSeq(order) IN
  /\ IsPerm0(o, n)
  /\ \A i \in 1..(n - 1) : ~LexLt(keys, 1, o[i + 1], o[i])                                   \* non-decreasing
  /\ \A i \in 1..(n - 1) : (~LexLt(keys, 1, o[i], o[i + 1])) => o[i] < o[i + 1]            \* ties keep input order

(* ---- containers ------------------------------------------------------------------------------------------- *)
SeriesTake(s, order) == MkSeries(Take(s.index, order), Take(s.vals, order), s.dt, s.name)
FrameTakeRows(f, order) == MkFrame(Take(f.index, order), f.columns, [j \in 1..NCols(f) |-> [dt |-> f.cols[j].dt, vals |-> Take(f.cols[j].vals, order)]], f.name)
FrameTakeCols(f, order) == MkFrame(f.index, Take(f.columns, order), Take(f.cols, order), f.name)
(* the key sequences of a call *)
SortKeys(cs) ==
  CASE cs.op = "s_sort_index" -> <<cs.s.index>>
    [] cs.op = "s_sort_values" -> <<cs.s.vals>>
    [] cs.op = "f_sort_index" -> <<cs.f.index>>
    [] cs.op = "f_sort_columns" -> <<cs.f.columns>>
    [] cs.op \in {"s_sort_index_key", "f_sort_index_key"} -> cs.keycols      \* what the key function returned, primary depth first
    [] cs.op = "f_sort_values" -> [k \in 1..Len(cs.by) |-> At(cs.f.cols, Find(cs.f.columns, cs.by[k])).vals]      \* rows ordered by columns
    [] cs.op = "f_sort_values_axis0" -> [k \in 1..Len(cs.by) |-> LET r == Find(cs.f.index, cs.by[k]) IN [j \in 1..NCols(cs.f) |-> At(cs.f.cols[j].vals, r)]]
SortLen(cs) == Len(SortKeys(cs)[1])
SortApply(cs, order) ==
  CASE cs.op \in {"s_sort_index", "s_sort_values", "s_sort_index_key"} -> SeriesTake(cs.s, order)
    [] cs.op \in {"f_sort_index", "f_sort_values", "f_sort_index_key"} -> FrameTakeRows(cs.f, order)
    [] cs.op \in {"f_sort_columns", "f_sort_values_axis0"} -> FrameTakeCols(cs.f, order)
SortResult(cs) == SortApply(cs, SortOrder(SortKeys(cs), SortLen(cs), cs.ascending))
=============================================================================
