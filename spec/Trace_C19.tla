------------------------------ MODULE Trace_C19 ------------------------------
(* Trace validation for Quilt and Batch (C19): a recorded Quilt call must give what the same call gives on the Frame    *)
(* obtained by concatenating the member Frames (Virtual); a recorded Batch chain must give, per label, the chain applied   *)
(* to that label's Frame, and its export must concatenate exactly those results.                                           *)
EXTENDS SFQuilt, Json, IOUtils
Trace == ndJsonDeserialize(IOEnv.TRACE_FILE)
VARIABLE l
BatchVerdict(ev) ==
  LET want == BatchItems(ev.members, ev.ops) IN
  IF Len(ev.items) # Len(want) THEN "batch_item_count"
  ELSE IF \E m \in 1..Len(want) : ev.items[m][1] # want[m][1] THEN "batch_labels"
  ELSE LET bad == {m \in 1..Len(want) : Diff(want[m][2], ev.items[m][2]) # "ok"} IN
       IF bad # {} THEN "batch_item_" \o Diff(want[CHOOSE m \in bad : TRUE][2], ev.items[CHOOSE m \in bad : TRUE][2])
       ELSE "ok"
Verdict(ev) == IF ev.kind = "quilt" THEN QDiff(QApply(ev.cs), ev.res) ELSE IF ev.kind = "batch_map" THEN BatchMapVerdict(ev.direct, ev.via) ELSE BatchVerdict(ev)
Expected(ev) == IF ev.kind = "quilt" THEN QApply(ev.cs) ELSE IF ev.kind = "batch_map" THEN ev.direct ELSE BatchItems(ev.members, ev.ops)
Init == l = 1
Next == /\ l <= Len(Trace)
        /\ l' = l + 1
        /\ LET v == Verdict(Trace[l]) IN v = "ok" \/ PrintT(<<"VERDICT", Trace[l].id, v, Expected(Trace[l])>>)
Post == PrintT(<<"DONE", TLCGet("stats").diameter - 1>>)
=============================================================================
