------------------------------ MODULE Trace_C13 ------------------------------
(* Trace validation for grouping and windows (C13).                                                              *)
(*  group events: the recorded groups (key, member positions, the sub-container as projected) must be a           *)
(*    partition with constant distinct keys and original order, every sub-container must be the source taken at   *)
(*    its members (whole rows / columns, labels, dtypes), and an apply over the groups must yield one result per   *)
(*    group labelled by its key.                                                                                  *)
(*  window events: the recorded (anchor, slice) pairs must be exactly those of the window loop.                   *)
EXTENDS SFGroup, Json, IOUtils
Trace == ndJsonDeserialize(IOEnv.TRACE_FILE)
VARIABLE l
NoName(r) == [r EXCEPT !.name = None]        \* the name a group carries is not one of the property's observables
NormW(w) == IF w.lo >= w.hi THEN [label |-> w.label, lo |-> 0, hi |-> 0] ELSE w
GroupVerdict(ev) ==
  LET gs == [g \in 1..Len(ev.groups) |-> [key |-> ev.groups[g].key, members |-> ev.groups[g].members]] IN
  IF ~IsPartition(ev.cs.keys, gs) THEN "not_a_partition"
  ELSE IF \E g \in 1..Len(ev.groups) : NoName(ev.groups[g].sub) # NoName(IF ev.cs.kind = "series" THEN SeriesTake(ev.cs.s, ev.groups[g].members)
                                                             ELSE IF ev.cs.axis = 0 THEN FrameTakeRows(ev.cs.f, ev.groups[g].members)
                                                             ELSE FrameTakeCols(ev.cs.f, ev.groups[g].members)) THEN "group_content"
  ELSE IF Len(ev.applied.index) # Len(ev.groups) \/ \E g \in 1..Len(ev.groups) : ev.applied.index[g] # ev.groups[g].label \/ ev.applied.vals[g] # <<"i", Len(ev.groups[g].members)>> THEN "apply_labels"
  ELSE "ok"
WindowVerdict(ev) ==
  LET e == Windows(ev.cs.n, ev.cs.size, ev.cs.step, ev.cs.start_shift, ev.cs.label_shift, ev.cs.size_increment, ev.cs.window_sized)
  IN IF [i \in 1..Len(e) |-> NormW(e[i])] = [i \in 1..Len(ev.windows) |-> NormW(ev.windows[i])] THEN "ok" ELSE "windows"
Verdict(ev) == IF ev.cs.op = "group" THEN GroupVerdict(ev) ELSE WindowVerdict(ev)
Init == l = 1
Next == /\ l <= Len(Trace)
        /\ l' = l + 1
        /\ LET v == Verdict(Trace[l]) IN v = "ok" \/ PrintT(<<"VERDICT", Trace[l].id, v, IF Trace[l].cs.op = "window" THEN Windows(Trace[l].cs.n, Trace[l].cs.size, Trace[l].cs.step, Trace[l].cs.start_shift, Trace[l].cs.label_shift, Trace[l].cs.size_increment, Trace[l].cs.window_sized) ELSE <<>>>>)
Post == PrintT(<<"DONE", TLCGet("stats").diameter - 1>>)
=============================================================================
