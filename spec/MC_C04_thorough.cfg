INIT Init
NEXT Next
CONSTANT NR = 4
CONSTANT NC = 4
CONSTANT Full = FALSE
CONSTANT AllSteps = FALSE
INVARIANT LabelsKept
INVARIANT PositionsExact
INVARIANT AbsentRaises
INVARIANT SliceAsBuiltIsRequired
INVARIANT LocIsIlocAtPositions
CHECK_DEADLOCK FALSE
