INIT Init
NEXT Next
CONSTANT N = 5
INVARIANT GroupsArePartition
INVARIANT RoutesAgree
INVARIANT WindowLoopMeetsDeclaration
INVARIANT WindowsContiguousInRange
CHECK_DEADLOCK FALSE
