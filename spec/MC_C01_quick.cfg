SPECIFICATION Spec
CONSTANT MaxArr = 5
CONSTANT MaxCont = 3
CONSTANT FilterBug = FALSE
INVARIANT AllFrozen
INVARIANT NoChange
INVARIANT CallerIsolated
INVARIANT ObtainedFrozen
CHECK_DEADLOCK FALSE
