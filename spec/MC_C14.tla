------------------------------- MODULE MC_C14 -------------------------------
(* Small-scope instance for missing-value operations (C14): EVERY missing pattern of a row of N cells, every   *)
(* partition of the row into blocks, both directions, every limit; the block-carried fill (bridging value,     *)
(* count and flag per row) must equal the declarative per-cell definition, and fills never alter a valid cell. *)
EXTENDS SFOps
CONSTANTS N
VARIABLES cs, res
vars == <<cs, res>>

CellVals == {NaN, <<"f", 1, 1>>, <<"f", 2, 1>>}
Rows == [1..N -> CellVals]
Blk == {<<w, nd>> : w \in 1..N, nd \in {1, 2}}
Layouts == {l \in UNION {[1..k -> Blk] : k \in 1..N} : SumSeq([i \in 1..Len(l) |-> l[i][1]]) = N /\ \A i \in 1..Len(l) : l[i][2] = 1 => l[i][1] = 1}
ColLab == [j \in 1..N |-> <<"s", <<"a", "b", "c", "d", "e">>[j]>>]
(* a two-row frame: the enumerated row and its mirror image, so that rows need different bridging state *)
FrameOf(r) == [index |-> <<<<"i", 0>>, <<"i", 1>>>>, columns |-> ColLab, name |-> None,
               cols |-> [j \in 1..N |-> [dt |-> DtF64, vals |-> <<r[j], r[N + 1 - j]>>]]]
SerOf(r) == [index |-> ColLab, vals |-> r, dt |-> DtF64, name |-> None]

(* the same row with its FIRST column replaced by a never-missing column (a complete block ahead of incomplete ones), and   *)
(* label-aligned fill values: all labels permuted; a proper subset of the columns / rows; an extra unknown label              *)
MixedOf(r) == [FrameOf(r) EXCEPT !.cols[1] = [dt |-> DtF64, vals |-> <<<<"f", 7, 1>>, <<"f", 8, 1>>>>]]
FV(j, i) == <<"f", 100 * j + 10 * i, 1>>
FillFrames ==
  { [index |-> <<<<"i", 1>>, <<"i", 0>>>>, columns |-> RevSeq(ColLab), cols |-> [j \in 1..N |-> [dt |-> DtF64, vals |-> <<FV(N + 1 - j, 2), FV(N + 1 - j, 1)>>]]],
    [index |-> <<<<"i", 0>>>>, columns |-> <<ColLab[N], <<"s", "zz">>, ColLab[2]>>, cols |-> <<[dt |-> DtF64, vals |-> <<FV(N, 1)>>], [dt |-> DtF64, vals |-> <<FV(9, 1)>>], [dt |-> DtF64, vals |-> <<NaN>>]>>] }
Pending == [k |-> "pending"]
InitCases ==
  \/ \E r \in Rows, l \in Layouts, fwd \in BOOLEAN, lim \in 0..N :
        cs = [op |-> "f_filldir", f |-> FrameOf(r), layout |-> l, forward |-> fwd, limit |-> lim, axis |-> 1]
  \/ \E r \in Rows, l \in Layouts, lead \in BOOLEAN :
        cs = [op |-> "f_fillsided", f |-> FrameOf(r), layout |-> l, leading |-> lead, v |-> <<"f", 9, 1>>, axis |-> 1]
  \/ \E r \in Rows, fwd \in BOOLEAN, lim \in 0..N : cs = [op |-> "s_filldir", s |-> SerOf(r), forward |-> fwd, limit |-> lim]
  \/ \E r \in Rows, lead \in BOOLEAN : cs = [op |-> "s_fillsided", s |-> SerOf(r), leading |-> lead, v |-> <<"f", 9, 1>>]
  \/ \E r \in Rows, l \in Layouts, ax \in {0, 1}, cond \in {"all", "any"} : cs = [op |-> "f_dropna", f |-> FrameOf(r), layout |-> l, axis |-> ax, cond |-> cond]
  \/ \E r \in Rows, l \in Layouts : cs = [op |-> "f_fillna", f |-> FrameOf(r), layout |-> l, v |-> <<"i", 0>>]
  \/ \E r \in Rows, l \in Layouts, ax \in {0, 1} : cs = [op |-> "f_count", f |-> FrameOf(r), layout |-> l, axis |-> ax]
  \/ \E r \in Rows, l \in Layouts, neg \in BOOLEAN : cs = [op |-> "f_isna", f |-> FrameOf(r), layout |-> l, neg |-> neg]
  \/ \E r \in Rows, fwd \in BOOLEAN, lim \in 0..2 : cs = [op |-> "f_filldir", f |-> FrameOf(r), layout |-> [j \in 1..N |-> <<1, 1>>], forward |-> fwd, limit |-> lim, axis |-> 0]
  \/ \E r \in Rows, l \in Layouts, v \in FillFrames : cs = [op |-> "f_fillna_frame", f |-> MixedOf(r), layout |-> l, val |-> v]
Init == InitCases /\ res = Pending
Call == res.k = "pending" /\ res' = Apply(cs) /\ UNCHANGED cs
Next == Call
Spec == Init /\ [][Next]_vars
Done == res.k # "pending"

(* the row of the case split into its blocks *)
RECURSIVE SplitRow(_, _, _)
SplitRow(r, l, pos) == IF l = <<>> THEN <<>> ELSE <<SubSeq(r, pos, pos + Head(l)[1] - 1)>> \o SplitRow(r, Tail(l), pos + Head(l)[1])
Row1 == [j \in 1..N |-> cs.f.cols[j].vals[1]]
(* the block-carried design refines the declarative per-cell definition, for every layout *)
BlockFillRefines ==
  (cs.op = "f_filldir" /\ cs.axis = 1) => BlockRowFill(SplitRow(Row1, cs.layout, 1), cs.forward, cs.limit) = FillDir(Row1, cs.forward, cs.limit)
(* no fill ever alters a non-missing cell, and nothing is filled beyond the limit *)
ValidUntouched ==
  (Done /\ cs.op \in {"s_filldir", "s_fillsided"}) => \A i \in 1..N : ~IsNA(cs.s.vals[i]) => res.vals[i] = cs.s.vals[i]
LimitRespected ==
  (Done /\ cs.op = "s_filldir" /\ cs.limit > 0) =>
     \A i \in 1..N : (IsNA(cs.s.vals[i]) /\ ~IsNA(res.vals[i])) =>
        \E j \in 1..N : /\ ~IsNA(cs.s.vals[j]) /\ res.vals[i] = cs.s.vals[j]
                        /\ (IF cs.forward THEN j < i /\ i - j <= cs.limit ELSE j > i /\ j - i <= cs.limit)
                        /\ \A k \in (IF cs.forward THEN (j + 1)..i ELSE i..(j - 1)) : IsNA(cs.s.vals[k])
(* a fill from a labelled Frame touches missing cells only, and puts there exactly the value's cell for the same labels *)
FillFrameExact ==
  (Done /\ cs.op = "f_fillna_frame") =>
     \A j \in 1..N, i \in 1..2 :
        LET old == cs.f.cols[j].vals[i]
            pc == Find(cs.val.columns, cs.f.columns[j])
            pr == Find(cs.val.index, cs.f.index[i])
        IN IF ~IsNA(old) \/ pc < 0 \/ pr < 0 THEN res.cols[j].vals[i] = LooseVal(old)
           ELSE res.cols[j].vals[i] = LooseVal(At(At(cs.val.cols, pc).vals, pr))
SidedOnlyEdge ==
  (Done /\ cs.op = "s_fillsided") => \A i \in 1..N : res.vals[i] # cs.s.vals[i] =>
        (IF cs.leading THEN \A j \in 1..i : IsNA(cs.s.vals[j]) ELSE \A j \in i..N : IsNA(cs.s.vals[j]))
CountExact == (Done /\ cs.op = "f_count" /\ cs.axis = 1) => res.vals[1] = <<"i", Cardinality({j \in 1..N : ~IsNA(Row1[j])})>>
DropnaExact == (Done /\ cs.op = "f_dropna" /\ cs.axis = 1) =>
   res.columns = SelectSeq(cs.f.columns, LAMBDA c : LET col == cs.f.cols[Find(cs.f.columns, c) + 1].vals IN
                                                    ~(IF cs.cond = "all" THEN IsNA(col[1]) /\ IsNA(col[2]) ELSE IsNA(col[1]) \/ IsNA(col[2])))
=============================================================================
