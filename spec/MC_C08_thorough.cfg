INIT Init
NEXT Next
CONSTANT NR = 4
CONSTANT NC = 4
INVARIANT OnlyAddressed
INVARIANT ElementStored
INVARIANT DropExact
INVARIANT MaskExact
CHECK_DEADLOCK FALSE
