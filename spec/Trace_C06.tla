------------------------------ MODULE Trace_C06 ------------------------------
(* Trace validation for set algebra and label alignment (C06): each recorded result must satisfy the declarative   *)
(* statement for its operation.                                                                                    *)
EXTENDS SFAlign, Json, IOUtils
Trace == ndJsonDeserialize(IOEnv.TRACE_FILE)
VARIABLE l
Verdict(ev) ==
  LET cs == ev.cs IN
  IF ev.res.k = "err" THEN "error"
  ELSE CASE cs.op = "setop" -> IF (IF cs.bform = "index" THEN SetOpOK(cs.kind, cs.a, cs.b, ev.res.labels) ELSE SetOpOKAny(cs.kind, cs.a, cs.b, ev.res.labels)) THEN "ok" ELSE "set_algebra"
         [] cs.op = "s_binop" -> IF SeriesOpOK(cs.fn, cs.a, cs.b, ev.res) THEN "ok" ELSE "series_alignment"
         [] cs.op = "f_binop" -> IF FrameOpOK(cs.fn, cs.a, cs.b, ev.res) THEN "ok" ELSE "frame_alignment"
         [] cs.op = "fs_binop" -> IF FrameSeriesOpOK(cs.fn, cs.a, cs.b, ev.res) THEN "ok" ELSE "frame_series_alignment"
         [] cs.op = "fsT_binop" -> IF FrameSeriesTOpOK(cs.fn, cs.a, cs.b, ev.res) THEN "ok" ELSE "frame_series_axis1_alignment"
         [] cs.op = "sf_matmul" -> IF MatmulSFOK(cs.a, cs.b, ev.res) THEN "ok" ELSE "matmul_alignment"
         [] cs.op = "fs_matmul" -> IF MatmulFSOK(cs.a, cs.b, ev.res) THEN "ok" ELSE "matmul_alignment"
         [] cs.op = "f_scalar" -> IF ScalarOpOK(cs.fn, cs.a, cs.v, ev.res, cs.reflected) THEN "ok" ELSE "scalar"
Init == l = 1
Next == /\ l <= Len(Trace)
        /\ l' = l + 1
        /\ LET v == Verdict(Trace[l]) IN v = "ok" \/ PrintT(<<"VERDICT", Trace[l].id, v, <<>>>>)
Post == PrintT(<<"DONE", TLCGet("stats").diameter - 1>>)
=============================================================================
