------------------------------- MODULE SFEquals -------------------------------
(* equals() as a content equivalence, and the hash contract of the HE variants (C10).                           *)
(* A container here is [cls, name, index, columns, cols] (Frame) or [cls, name, index, dt, vals] (Series);       *)
(* opts = [name, dtype, class, skipna : BOOLEAN].                                                                *)
EXTENDS SFReduce

(* value equality as the element-wise == sees it: numbers across int/float/bool by value, text by text, None = None; *)
(* two missing NaN/NaT at the same position count as equal only with skipna                                       *)
NumTag(v) == Tag(v) \in {"i", "b", "f"}
CellEq(x, y, skipna) ==
  IF NumTag(x) /\ NumTag(y) THEN QOf(x) = QOf(y)
  ELSE IF Tag(x) \in {"nan", "nat"} /\ Tag(y) \in {"nan", "nat"} THEN skipna /\ Tag(x) = Tag(y)
  ELSE x = y
SeqEq(a, b, skipna) == Len(a) = Len(b) /\ \A i \in 1..Len(a) : CellEq(a[i], b[i], skipna)
IndexEquals(a, b, opts) == SeqEq(a, b, opts.skipna)
SeriesEquals(a, b, opts) ==
  /\ (opts.class => a.cls = b.cls)
  /\ Len(a.vals) = Len(b.vals)
  /\ (opts.name => a.name = b.name)
  /\ (opts.dtype => a.dt = b.dt)
  /\ SeqEq(a.vals, b.vals, opts.skipna)
  /\ IndexEquals(a.index, b.index, opts)
FrameEquals(a, b, opts) ==
  /\ (opts.class => a.cls = b.cls)
  /\ Len(a.index) = Len(b.index) /\ Len(a.columns) = Len(b.columns)
  /\ (opts.name => a.name = b.name)
  /\ (opts.dtype => [j \in 1..Len(a.cols) |-> a.cols[j].dt] = [j \in 1..Len(b.cols) |-> b.cols[j].dt])
  /\ \A j \in 1..Len(a.cols) : SeqEq(a.cols[j].vals, b.cols[j].vals, opts.skipna)
  /\ IndexEquals(a.index, b.index, opts) /\ IndexEquals(a.columns, b.columns, opts)
(* an index on its own (flat: plain labels; hierarchical: <<"t", <<l1, .., ld>>>> labels, dt = one dtype per depth);  *)
(* how the index was built (from labels, a product, shared or separate level objects, a copy ...) is not content       *)
IndexItemEquals(a, b, opts) ==
  /\ (opts.class => a.cls = b.cls /\ a.lcls = b.lcls)              \* lcls: the class of the Index at every depth of a hierarchy (<<>> for a flat index)
  /\ (opts.name => a.name = b.name)
  /\ (opts.dtype => a.dt = b.dt)
  /\ IndexEquals(a.index, b.index, opts)
(* a Bus: its labels, and label by label the Frames it holds, each compared under the SAME options *)
BusEquals(a, b, opts) ==
  /\ (opts.class => a.cls = b.cls)
  /\ Len(a.frames) = Len(b.frames)
  /\ (opts.name => a.name = b.name)
  /\ IndexEquals(a.index, b.index, opts)
  /\ \A i \in 1..Len(a.frames) : FrameEquals(a.frames[i], b.frames[i], opts)
Equals(a, b, opts) == IF a.kind # b.kind THEN FALSE ELSE IF a.kind = "series" THEN SeriesEquals(a, b, opts)
                      ELSE IF a.kind = "index" THEN IndexItemEquals(a, b, opts)
                      ELSE IF a.kind = "bus" THEN BusEquals(a, b, opts) ELSE FrameEquals(a, b, opts)

(* TypeBlocks.equals as built: shape, optional dtype list, block-wise ==, then every position where BOTH sides   *)
(* are missing (NaN/NaT, not None) is set to True; MaskBug reproduces the defect repaired by the fix: commit      *)
(* (the left mask combined with itself).                                                                          *)
IsNaNT(v) == Tag(v) \in {"nan", "nat"}
RawEq(x, y) == IF NumTag(x) /\ NumTag(y) THEN QOf(x) = QOf(y) ELSE IF IsNaNT(x) \/ IsNaNT(y) THEN FALSE ELSE x = y
BlocksEqualsAsBuilt(acols, bcols, skipna, maskBug) ==
  /\ Len(acols) = Len(bcols)
  /\ \A j \in 1..Len(acols) : /\ Len(acols[j].vals) = Len(bcols[j].vals)
                              /\ \A i \in 1..Len(acols[j].vals) :
                                    LET x == acols[j].vals[i]  y == bcols[j].vals[i]
                                        both == IF maskBug THEN IsNaNT(x) ELSE IsNaNT(x) /\ IsNaNT(y)
                                    IN RawEq(x, y) \/ (skipna /\ both)
(* the statement about a recorded comparison matrix over a list of containers *)
MatrixVerdict(items, m, opts) ==
  LET n == Len(items) IN
  IF \E i \in 1..n : ~m[i][i] THEN "not_reflexive"
  ELSE IF \E i, j \in 1..n : m[i][j] # m[j][i] THEN "not_symmetric"
  ELSE IF \E i, j, k \in 1..n : m[i][j] /\ m[j][k] /\ ~m[i][k] THEN "not_transitive"
  ELSE IF \E i, j \in 1..n : i # j /\ m[i][j] # Equals(items[i], items[j], opts) THEN "not_the_content_predicate"      \* (a.equals(a) is True by identity)
  ELSE "ok"
(* HE variants: == / != are Booleans consistent with equals(compare_name, compare_dtype, compare_class all on), *)
(* a == b implies hash a = hash b                                                                                *)
HEOpts == [name |-> TRUE, dtype |-> FALSE, class |-> FALSE, skipna |-> TRUE]     \* what __eq__ of SeriesHE / FrameHE compares
HEVerdict(items, eq, ne, hashes) ==
  LET n == Len(items) IN
  IF \E i, j \in 1..n : i # j /\ eq[i][j] # Equals(items[i], items[j], HEOpts) THEN "eq_not_equals"
  ELSE IF \E i, j \in 1..n : ne[i][j] # ~eq[i][j] THEN "ne_not_negation"
  ELSE IF \E i, j \in 1..n : eq[i][j] # eq[j][i] THEN "eq_not_symmetric"
  ELSE IF \E i, j \in 1..n : eq[i][j] /\ hashes[i] # hashes[j] THEN "equal_but_hash_differs"
  ELSE "ok"
=============================================================================
