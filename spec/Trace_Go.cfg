INIT TInit
NEXT TNext
CONSTANT Lab <- L5
CONSTANT MaxObj = 99
CONSTANT MaxLen = 99
CONSTANT Atomic = TRUE
POSTCONDITION Post
CHECK_DEADLOCK FALSE
