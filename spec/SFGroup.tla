-------------------------------- MODULE SFGroup --------------------------------
(* Grouping and windows (C13).                                                                                 *)
(*  - groups: the declarative statement (a partition with constant, distinct keys, original order inside),      *)
(*    and the two routes the code takes (stable sort + cut at key transitions; unique keys + Boolean masks).   *)
(*  - windows: container_util.axis_window_items transcribed as its while loop, next to the declarative          *)
(*    comprehension of the anchors and slices it is meant to yield.                                            *)
EXTENDS SFSort

(* ---- groups ------------------------------------------------------------------------------------------------ *)
(* keys: Seq of key tuples (one per row, as a sequence of cell values); a grouping: Seq([key, members])         *)
(* members are 0-based row positions.                                                                           *)
DistinctKeys(keys) == Dedupe(keys)
MembersOf(keys, k) == SelectSeq(SeqRange(Len(keys)), LAMBDA p : keys[p + 1] = k)
KeyLt(a, b) == LET d == {i \in 1..Len(a) : a[i] # b[i]} IN IF d = {} THEN FALSE ELSE LET i == CHOOSE x \in d : \A y \in d : x <= y IN VLt(a[i], b[i])
(* route 1 (Frame._axis_group_sort_items): stable sort by key, cut where the key changes *)
RECURSIVE CutAtTransitions(_, _, _, _)
CutAtTransitions(keys, order, i, cur) ==
  IF i > Len(order) THEN (IF cur = <<>> THEN <<>> ELSE <<[key |-> keys[cur[1] + 1], members |-> cur]>>)
  ELSE IF cur = <<>> \/ keys[order[i] + 1] = keys[cur[1] + 1] THEN CutAtTransitions(keys, order, i + 1, Append(cur, order[i]))
  ELSE <<[key |-> keys[cur[1] + 1], members |-> cur]>> \o CutAtTransitions(keys, order, i + 1, <<order[i]>>)
GroupSortSlice(keys) ==
  LET order == StableArgsort(Len(keys), LAMBDA a, b : KeyLt(keys[a + 1], keys[b + 1])) IN CutAtTransitions(keys, order, 1, <<>>)
(* route 2 (TypeBlocks.group / array_to_groups_and_locations): unique keys in sorted order, one mask per key *)
GroupUniqueMask(keys) ==
  LET dk == DistinctKeys(keys)
      order == StableArgsort(Len(dk), LAMBDA a, b : KeyLt(dk[a + 1], dk[b + 1]))
  IN [i \in 1..Len(dk) |-> [key |-> dk[order[i] + 1], members |-> MembersOf(keys, dk[order[i] + 1])]]
(* the declarative statement about any recorded grouping *)
IsPartition(keys, groups) ==
  /\ \A p \in 0..(Len(keys) - 1) : Cardinality({g \in 1..Len(groups) : Member(groups[g].members, p)}) = 1      \* every row in exactly one group
  /\ \A g \in 1..Len(groups) : /\ groups[g].members # <<>>
                               /\ \A i \in 1..Len(groups[g].members) : keys[groups[g].members[i] + 1] = groups[g].key   \* constant key
                               /\ \A i \in 1..(Len(groups[g].members) - 1) : groups[g].members[i] < groups[g].members[i + 1]   \* original order
                               /\ Unique(groups[g].members)
  /\ \A g, h \in 1..Len(groups) : g # h => groups[g].key # groups[h].key                                      \* distinct keys

(* ---- windows ------------------------------------------------------------------------------------------------ *)
(* one yielded window: [label |-> 0-based label position, lo |-> first position, hi |-> one past the last]        *)
RECURSIVE WindowLoop(_, _, _, _, _, _, _, _, _)
WindowLoop(n, size, step, labelShift, sizeInc, windowSized, idxLeft, count, countMax) ==
  LET idxRight == idxLeft + size - 1
      lo == IF idxLeft > 0 THEN idxLeft ELSE 0
      hiIncl == IF idxRight > -1 THEN idxRight ELSE -1
      hi == MinI(hiIncl + 1, n)                         \* slicing clips at the end of the axis
      lo2 == MinI(lo, hi)
      width == hi - lo2
      idxLabel == idxRight + labelShift
      valid == idxLabel >= 0 /\ idxLabel < n /\ (~windowSized \/ width = size)
      here == IF valid THEN <<[label |-> idxLabel, lo |-> lo2, hi |-> hi]>> ELSE <<>>
      idxLeft2 == idxLeft + step
      size2 == size + sizeInc
      count2 == count + 1
  IN IF count2 > countMax \/ idxLeft2 > countMax - 1 \/ size2 < 0 THEN here
     ELSE here \o WindowLoop(n, size2, step, labelShift, sizeInc, windowSized, idxLeft2, count2, countMax)
Windows(n, size, step, startShift, labelShift, sizeInc, windowSized) ==
  LET countMax == IF startShift >= 0 THEN n ELSE n - startShift IN
  WindowLoop(n, size, step, labelShift, sizeInc, windowSized, startShift, 0, countMax)
(* declarative reading for a positive step and no size increment: window k starts at startShift + k*step,     *)
(* covers `size` positions clipped to the axis, is anchored at its last position shifted by labelShift, and is *)
(* yielded iff the anchor exists and (when windowSized) it is complete                                          *)
WindowsDeclared(n, size, step, startShift, labelShift, windowSized) ==
  LET cmax == IF startShift >= 0 THEN n ELSE n - startShift
      Ks == {k \in 0..(2 * n + 6) : startShift + k * step <= cmax - 1}
      byIdx == IF Ks = {} THEN 0 ELSE CHOOSE k \in Ks : \A j \in Ks : j <= k          \* the first iteration always runs
      lastK == MinI(byIdx, cmax)                 \* the loop also stops after cmax + 1 iterations
      W(k) == LET l == startShift + k * step  r == l + size - 1
                  lo == MinI(IF l > 0 THEN l ELSE 0, MinI((IF r > -1 THEN r ELSE -1) + 1, n))
                  hi == MinI((IF r > -1 THEN r ELSE -1) + 1, n)
              IN [label |-> r + labelShift, lo |-> lo, hi |-> hi]
      ok(w) == w.label >= 0 /\ w.label < n /\ (~windowSized \/ w.hi - w.lo = size)
  IN SelectSeq([k \in 1..(lastK + 1) |-> W(k - 1)], ok)
=============================================================================
