INIT Init
NEXT Next
CONSTANT NR = 4
CONSTANT NG = 3
INVARIANT PivotPartition
INVARIANT PivotConservesSum
INVARIANT JoinLaws
INVARIANT RoundTrips
INVARIANT CellsKeptWithRow
INVARIANT ReorderKeepsRows
CHECK_DEADLOCK FALSE
