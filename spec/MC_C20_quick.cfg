INIT Init
NEXT Next
CONSTANT NR = 3
CONSTANT NG = 2
INVARIANT PivotPartition
INVARIANT PivotConservesSum
INVARIANT JoinLaws
INVARIANT RoundTrips
INVARIANT CellsKeptWithRow
INVARIANT ReorderKeepsRows
CHECK_DEADLOCK FALSE
