INIT Init
NEXT Next
CONSTANT N = 2
CONSTANT MaskBug = FALSE
INVARIANT Symmetric
INVARIANT Reflexive
INVARIANT Transitive
INVARIANT AsBuiltRefines
INVARIANT AsBuiltSymmetric
CHECK_DEADLOCK FALSE
