INIT Init
NEXT Next
CONSTANT MaxN = 3
CONSTANT Sorted = TRUE
INVARIANT ExactPeriod
INVARIANT SliceAsBuiltIsRequired
INVARIANT SliceContiguous
CHECK_DEADLOCK FALSE
