------------------------------- MODULE MC_SHAPE -------------------------------
(* Small-scope instance for the shape family (SFShape): reindex / roll / shift / head / tail / duplicated /      *)
(* drop_duplicated / isin / transpose / clip / searchsorted on one Frame and one Series.  State = one call (cs) and its result. *)
(* The invariants restate each operation declaratively (what a user relies on) against the constructive          *)
(* definition that the conformance legs replay.                                                                  *)
EXTENDS SFOps
CONSTANTS NR, NC, MaxShift
VARIABLES cs, res
vars == <<cs, res>>

RowLab == [i \in 1..NR |-> <<"s", <<"a", "b", "c", "d">>[i]>>]
ColLab == [j \in 1..NC |-> <<"i", 10 * j>>]
ColDt  == [j \in 1..NC |-> <<DtI64, DtI64, DtF64, DtB>>[j]]
(* columns 1 and 2 are equal as values, rows 1 and 3 are equal: duplicates exist on both axes *)
ColVal(j, i) == CASE j <= 2 -> <<"i", IF i = 3 THEN 1 ELSE i>> [] j = 3 -> <<"f", IF i = 3 THEN 1 ELSE i, 1>> [] OTHER -> <<"b", IF i = 3 THEN 1 ELSE i % 2>>
F == [index |-> RowLab, columns |-> ColLab, name |-> <<"s", "nm">>,
      cols |-> [j \in 1..NC |-> [dt |-> ColDt[j], vals |-> [i \in 1..NR |-> ColVal(j, i)]]]]
Ser == [index |-> RowLab, vals |-> F.cols[1].vals, dt |-> DtI64, name |-> <<"s", "sn">>]
SerF == [index |-> RowLab, vals |-> [i \in 1..NR |-> IF i = 2 THEN NaN ELSE <<"f", 2 * i - 3, 2>>], dt |-> DtF64, name |-> None]
Fills == {NaN, None, <<"i", 0>>, <<"s", "w">>, <<"b", 1>>}
Shifts == (0 - MaxShift)..MaxShift
Absent == <<"s", "ZZ">>
AbsentC == <<"i", 999>>
Targets(labs, absent) == {<<>>, labs, RevSeq(labs), <<labs[2]>>, <<absent>>, <<labs[2], absent, labs[1]>>, <<absent, labs[Len(labs)]>>, <<labs[1], labs[1]>>}
Axis(labs, absent) == {<<"keep">>} \cup {<<"to", t>> : t \in Targets(labs, absent)}
Others == {<<>>, <<I(1)>>, <<I(2), <<"f", 3, 1>>>>, <<B(TRUE)>>, <<NaN>>, <<None, <<"s", "q">>>>}
Bounds == {None, I(0), I(2), <<"f", 3, 2>>}

(* hierarchical subjects: depth 2 and depth 3, deliberately NOT in sorted order (b before a, 2 before 1) *)
T2(a, b) == <<"t", <<a, b>>>>
T3(a, b, c) == <<"t", <<a, b, c>>>>
HLab2 == <<T2(S("b"), I(2)), T2(S("b"), I(1)), T2(S("a"), I(2)), T2(S("a"), I(3))>>
HLab3 == <<T3(S("b"), I(2), S("y")), T3(S("b"), I(2), S("x")), T3(S("b"), I(1), S("y")), T3(S("a"), I(2), S("x")), T3(S("a"), I(1), S("y"))>>
HSer2 == [index |-> HLab2, vals |-> [i \in 1..4 |-> I(10 * i)], dt |-> DtI64, name |-> None]
HSer3 == [index |-> HLab3, vals |-> [i \in 1..5 |-> I(10 * i)], dt |-> DtI64, name |-> <<"s", "h">>]
HF == [index |-> HLab3, columns |-> <<T2(S("q"), I(2)), T2(S("q"), I(1)), T2(S("p"), I(2))>>, name |-> None,
       cols |-> <<[dt |-> DtI64, vals |-> [i \in 1..5 |-> I(i)]], [dt |-> DtF64, vals |-> [i \in 1..5 |-> <<"f", 2 * i + 1, 2>>]], [dt |-> DtI64, vals |-> [i \in 1..5 |-> I(100 + i)]]>>]
(* searchsorted subjects: ascending values with a repeat, under string labels; ascending integer labels; and Ser (not ascending for NR >= 3) *)
AscSer == [index |-> RowLab, vals |-> [i \in 1..NR |-> <<"f", <<1, 3, 3, 5>>[i], IF i = 1 THEN 1 ELSE 2>>], dt |-> DtF64, name |-> None]
IxSer == [index |-> [i \in 1..NR |-> I(10 * i)], vals |-> [i \in 1..NR |-> I(i)], dt |-> DtI64, name |-> None]
Queries == {I(0), I(1), <<"f", 3, 2>>, I(2), <<"f", 5, 2>>, I(10), I(15), I(30), I(31)}
DepthMaps(d) == {m \in [1..d -> 0..(d - 1)] : TRUE} \cup {<<0>>}      \* every map, valid or not, and one of the wrong length

InitCases ==
  \/ \E t \in Targets(RowLab, Absent), v \in Fills : cs = [op |-> "s_reindex", s |-> Ser, target |-> t, v |-> v]
  \/ \E it \in Axis(RowLab, Absent), ct \in Axis(ColLab, AbsentC), v \in Fills : cs = [op |-> "f_reindex", f |-> F, it |-> it, ct |-> ct, v |-> v]
  \/ \E n \in Shifts, b \in BOOLEAN : cs = [op |-> "s_roll", s |-> Ser, n |-> n, incl |-> b]
  \/ \E n \in Shifts, v \in Fills : cs = [op |-> "s_shift", s |-> Ser, n |-> n, v |-> v]
  \/ \E ri \in Shifts, ci \in Shifts, ii \in BOOLEAN, ic \in BOOLEAN : cs = [op |-> "f_roll", f |-> F, ri |-> ri, ci |-> ci, ii |-> ii, ic |-> ic]
  \/ \E ri \in Shifts, ci \in Shifts, v \in Fills : cs = [op |-> "f_shift", f |-> F, ri |-> ri, ci |-> ci, v |-> v]
  \/ \E n \in 0..(NR + 1), t \in BOOLEAN : cs = [op |-> "s_head", s |-> Ser, n |-> n, tail |-> t]
  \/ \E n \in 0..(NR + 1), t \in BOOLEAN : cs = [op |-> "f_head", f |-> F, n |-> n, tail |-> t]
  \/ \E xf \in BOOLEAN, xl \in BOOLEAN, op \in {"s_duplicated", "s_drop_duplicated"}, s \in {Ser, SerF} : cs = [op |-> op, s |-> s, xf |-> xf, xl |-> xl]
  \/ \E xf \in BOOLEAN, xl \in BOOLEAN, op \in {"f_duplicated", "f_drop_duplicated"}, ax \in {0, 1} : cs = [op |-> op, f |-> F, axis |-> ax, xf |-> xf, xl |-> xl]
  \/ \E o \in Others, s \in {Ser, SerF} : cs = [op |-> "s_isin", s |-> s, other |-> o]
  \/ \E o \in Others : cs = [op |-> "f_isin", f |-> F, other |-> o]
  \/ cs = [op |-> "f_transpose", f |-> F]
  \/ \E lo \in Bounds, hi \in Bounds, s \in {Ser, SerF} : cs = [op |-> "s_clip", s |-> s, lo |-> lo, hi |-> hi]
  \/ \E lo \in Bounds, hi \in Bounds : cs = [op |-> "f_clip", f |-> [F EXCEPT !.columns = SubSeq(ColLab, 1, MinI(NC, 3)), !.cols = SubSeq(F.cols, 1, MinI(NC, 3))], lo |-> lo, hi |-> hi]

  \/ \E sb \in {<<AscSer, "values">>, <<IxSer, "index">>, <<IxSer, "values">>, <<Ser, "values">>}, q \in Queries, left \in BOOLEAN, loc \in BOOLEAN, v \in {NaN, I(0 - 1)} :
        cs = [op |-> "s_searchsorted", s |-> sb[1], on |-> sb[2], q |-> <<q>>, many |-> FALSE, left |-> left, loc |-> loc, v |-> v]
  \/ \E sb \in {<<AscSer, "values">>, <<IxSer, "index">>}, left \in BOOLEAN, loc \in BOOLEAN :
        cs = [op |-> "s_searchsorted", s |-> sb[1], on |-> sb[2], q |-> <<I(31), I(0), <<"f", 3, 2>>, I(20)>>, many |-> TRUE, left |-> left, loc |-> loc, v |-> NaN]
  \/ \E h \in {HSer2, HSer3}, x \in {<<"s", "X">>, <<"i", 0>>} : cs = [op |-> "s_level_add", s |-> h, v |-> x]
  \/ \E h \in {HSer2, HSer3}, n \in 1..2 : (n < HDepth(h.index)) /\ cs = [op |-> "s_level_drop", s |-> h, n |-> n]
  \/ \E dm \in DepthMaps(2) : cs = [op |-> "s_rehierarch", s |-> HSer2, dm |-> dm]
  \/ \E dm \in DepthMaps(3) : cs = [op |-> "s_rehierarch", s |-> HSer3, dm |-> dm]
  \/ \E ax \in {0, 1}, x \in {<<"s", "X">>} : cs = [op |-> "f_level_add", f |-> HF, axis |-> ax, v |-> x]
  \/ \E h \in {HSer2, HSer3}, d \in 0..2 : cs = [op |-> "s_label_widths", s |-> h, n |-> d]
  \/ \E h \in {HSer2, HSer3}, ds \in {<<0>>, <<1>>, <<2>>, <<0, 1>>, <<1, 0>>, <<2, 0>>} : cs = [op |-> "s_iter_label", s |-> h, ds |-> ds]
  \/ \E h \in {HSer2, HSer3} : cs = [op |-> "s_relabel_flat", s |-> h]
  \/ \E ax \in {0, 1} : cs = [op |-> "f_relabel_flat", f |-> HF, axis |-> ax]
  \/ \E n \in 1..2 : cs = [op |-> "f_level_drop", f |-> HF, axis |-> 0, n |-> n]
  \/ cs = [op |-> "f_level_drop", f |-> HF, axis |-> 1, n |-> 1]
  \/ \E dm \in DepthMaps(3) : cs = [op |-> "f_rehierarch", f |-> HF, axis |-> 0, dm |-> dm]
  \/ \E dm \in DepthMaps(2) : cs = [op |-> "f_rehierarch", f |-> HF, axis |-> 1, dm |-> dm]

Pending == [k |-> "pending"]
Init == InitCases /\ res = Pending
Call == res.k = "pending" /\ res' = Apply(cs) /\ UNCHANGED cs
Next == Call
Spec == Init /\ [][Next]_vars
Done == res.k # "pending"

(* ---- declarative restatements ---------------------------------------------------------------------------- *)
SameNum(a, b) == a = b \/ (IsNum(a) /\ IsNum(b) /\ QOf(a) = QOf(b)) \/ (IsNA(a) /\ IsNA(b))
(* reindex: every target label that existed carries its old cells, every other holds the fill; nothing else *)
ReindexExact ==
  (Done /\ cs.op = "f_reindex" /\ res.k = "frame") =>
     \A i \in 1..Len(res.index), j \in 1..Len(res.columns) :
        LET pr == Find(cs.f.index, res.index[i])
            pc == Find(cs.f.columns, res.columns[j])
        IN SameNum(res.cols[j].vals[i], IF pr >= 0 /\ pc >= 0 THEN Cell(cs.f, pr, pc) ELSE cs.v)
ReindexKeepsDtype ==
  (Done /\ cs.op = "f_reindex" /\ res.k = "frame") =>
     \A j \in 1..Len(res.columns) :
        LET pc == Find(cs.f.columns, res.columns[j]) IN
        (pc >= 0 /\ Len(res.index) > 0 /\ \A i \in 1..Len(res.index) : Member(cs.f.index, res.index[i])) => res.cols[j].dt = At(cs.f.cols, pc).dt
(* roll is a bijection on positions: rolling back restores the container; the multiset of cells per column is kept *)
RollInvertible ==
  (Done /\ cs.op = "f_roll" /\ res.k = "frame") =>
     FrameRoll([index |-> res.index, columns |-> res.columns, cols |-> res.cols, name |-> res.name], 0 - cs.ri, 0 - cs.ci, cs.ii, cs.ic) = AsFrame(cs.f)
(* shift: cell (i, j) of the result is cell (i - ri, j - ci) of the source when that exists, else the fill *)
ShiftExact ==
  (Done /\ cs.op = "f_shift" /\ res.k = "frame") =>
     /\ res.index = cs.f.index /\ res.columns = cs.f.columns
     /\ \A i \in 1..NR, j \in 1..NC :
          SameNum(res.cols[j].vals[i], IF i - cs.ri \in 1..NR /\ j - cs.ci \in 1..NC THEN cs.f.cols[j - cs.ci].vals[i - cs.ri] ELSE cs.v)
(* drop_duplicated keeps exactly the rows / columns that duplicated does not flag, in order *)
DropIsComplementOfFlags ==
  (Done /\ cs.op = "f_drop_duplicated" /\ res.k = "frame") =>
     LET fl == FrameDuplicated(cs.f, cs.axis, cs.xf, cs.xl).vals
         labs == IF cs.axis = 0 THEN cs.f.index ELSE cs.f.columns
     IN (IF cs.axis = 0 THEN res.index ELSE res.columns) = SelectSeq(labs, LAMBDA x : fl[Find(labs, x) + 1] = B(FALSE))
(* with exclude_first exactly one representative of every class of equal rows stays, and it is the first *)
FirstRepresentativeStays ==
  (Done /\ cs.op = "f_drop_duplicated" /\ res.k = "frame" /\ cs.axis = 0 /\ cs.xf /\ ~cs.xl) =>
     /\ \A i \in 1..NR : \E k \in 1..Len(res.index) : SameSeq(RowItems(cs.f)[i], [j \in 1..NC |-> res.cols[j].vals[k]])
     /\ \A k1, k2 \in 1..Len(res.index) : k1 # k2 => ~SameSeq([j \in 1..NC |-> res.cols[j].vals[k1]], [j \in 1..NC |-> res.cols[j].vals[k2]])
TransposeInvolution ==
  (Done /\ cs.op = "f_transpose" /\ res.k = "frame") =>
     LET back == FrameTranspose([index |-> res.index, columns |-> res.columns, cols |-> res.cols, name |-> res.name])
     IN /\ back.index = cs.f.index /\ back.columns = cs.f.columns
        /\ \A i \in 1..NR, j \in 1..NC : SameNum(back.cols[j].vals[i], cs.f.cols[j].vals[i])
ClipWithinBounds ==
  (Done /\ cs.op = "s_clip" /\ res.k = "series") =>
     \A i \in 1..Len(res.vals) :
        \/ IsNA(res.vals[i]) /\ IsNA(cs.s.vals[i])
        \/ /\ ~IsNA(cs.s.vals[i])
           /\ (Tag(cs.hi) # "none" => QLe(QOf(res.vals[i]), QOf(cs.hi)))
           /\ ((Tag(cs.lo) # "none" /\ (Tag(cs.hi) = "none" \/ QLe(QOf(cs.lo), QOf(cs.hi)))) => QLe(QOf(cs.lo), QOf(res.vals[i])))
           /\ ((Tag(cs.lo) = "none" \/ QLe(QOf(cs.lo), QOf(cs.s.vals[i]))) /\ (Tag(cs.hi) = "none" \/ QLe(QOf(cs.s.vals[i]), QOf(cs.hi))) => QOf(res.vals[i]) = QOf(cs.s.vals[i]))
(* rehierarch: a bijection on rows (every source label, reordered by the depth map, appears once with its own cells) *)
(* and the result is a tree: rows that agree on a prefix of levels are contiguous                                     *)
Contiguous(labs, k) == \A i, j \in 1..Len(labs) : (i < j /\ SubSeq(labs[i][2], 1, k) = SubSeq(labs[j][2], 1, k)) =>
                          \A m \in i..j : SubSeq(labs[m][2], 1, k) = SubSeq(labs[i][2], 1, k)
RehierarchExact ==
  (Done /\ cs.op = "s_rehierarch" /\ res.k = "series") =>
     /\ Len(res.index) = Len(cs.s.index)
     /\ \A i \in 1..Len(cs.s.index) : \E k \in 1..Len(res.index) : res.index[k] = PermuteLabel(cs.s.index[i], cs.dm) /\ res.vals[k] = cs.s.vals[i]
     /\ \A k \in 1..HDepth(res.index) : Contiguous(res.index, k)
LevelAddDropRoundTrip ==
  (Done /\ cs.op = "s_level_add" /\ res.k = "series") =>
     SeriesLevelDrop([index |-> res.index, vals |-> res.vals, dt |-> res.dt, name |-> res.name], 1) = AsSeries(cs.s)
(* searchsorted brackets the value: everything before the reported position is below it (side left: strictly), everything from it on is not; *)
(* the label form reports the label at that position and the fill only past the end                                                       *)
SearchSortedBrackets ==
  (Done /\ cs.op = "s_searchsorted" /\ ~cs.many /\ res.k = "elem") =>
     LET xs == IF cs.on = "values" THEN cs.s.vals ELSE cs.s.index
         v == SKey(cs.q[1])
         below(x) == IF cs.left THEN QLt(SKey(x), v) ELSE QLe(SKey(x), v)
         ok(p) == (\A i \in 1..p : below(xs[i])) /\ (\A i \in (p + 1)..Len(xs) : ~below(xs[i]))
     IN IF ~cs.loc THEN res.v[1] = "i" /\ res.v[2] \in 0..Len(xs) /\ ok(res.v[2])
        ELSE \/ res.v = SCanon(cs.v) /\ ok(Len(xs))
             \/ \E p \in 0..(Len(xs) - 1) : res.v = SCanon(cs.s.index[p + 1]) /\ ok(p)
(* the array form is the element form applied to every value *)
SearchSortedPointwise ==
  (Done /\ cs.op = "s_searchsorted" /\ cs.many /\ res.k = "array") =>
     \A i \in 1..Len(cs.q) : Elem(res.vals[i]) = SeriesSearchSorted(cs.s, cs.on, <<cs.q[i]>>, FALSE, cs.left, cs.loc, cs.v)
(* the widths at any depth account for every row exactly once, and consecutive nodes differ in their path *)
LabelWidthsCoverRows ==
  (Done /\ cs.op = "s_label_widths" /\ res.k = "array") =>
     /\ SumSeq([k \in 1..Len(res.vals) |-> res.vals[k][2][2][2]]) = Len(cs.s.index)
     /\ \A k \in 1..Len(res.vals) : res.vals[k][2][2][2] >= 1
     /\ (cs.n = HDepth(cs.s.index) - 1) => \A k \in 1..Len(res.vals) : res.vals[k][2][2][2] = 1          \* leaves
(* negative control: a roll that also reorders within the columns would not be invertible (never holds) *)
NegRollIsIdentity == (Done /\ cs.op = "f_roll" /\ res.k = "frame") => res.cols = cs.f.cols
=============================================================================
