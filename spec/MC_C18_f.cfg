SPECIFICATION Spec
CONSTANT N = 8
CONSTANT W = 4
CONSTANT C = 1
CONSTANT Fails = {5}
CONSTANT Eager = TRUE
INVARIANT InvPaired
INVARIANT InvComplete
INVARIANT InvError
INVARIANT InvNoLater
PROPERTY Terminates
CHECK_DEADLOCK FALSE
