INIT Init
NEXT Next
CONSTANT N = 4
INVARIANT OrderMeetsStatement
INVARIANT LexsortRefines
INVARIANT DescendingIsReverse
INVARIANT SameAssociations
CHECK_DEADLOCK FALSE
