------------------------------ MODULE Trace_C16 ------------------------------
(* Trace validation for single-table export / import (C16).  A "delimited" event carries the abstract table, the configuration,  *)
(* the lines the real Frame.to_delimited wrote and the table the real Frame.from_delimited read back:                               *)
(*   1. the lines must be the lines the writer model produces (which fields are quoted, how, header rows, StoreFilter texts);      *)
(*   2. the table read back must be the import as built of those lines (quoting state machine or raw tab split, line stripping,     *)
(*      per-column typing, StoreFilter) wherever the typing model applies;                                                         *)
(*   3. where the statement speaks (unambiguous texts) the table read back must be the table written; the clause names the known   *)
(*      loss class when there is one.                                                                                              *)
(* A "route" event carries the outcome of an export / import pair that does not go through text (pairs, records, items, pickle).   *)
EXTENDS SFDelim, Json, IOUtils
Trace == ndJsonDeserialize(IOEnv.TRACE_FILE)
VARIABLE l
Cols(T) == [k \in 1..Len(T.ix) |-> T.ix[k]] \o [j \in 1..Len(T.data) |-> T.data[j].cells]
Modelled(T, cfg) ==
  /\ \A c \in 1..Len(Cols(T)) : Present(TextsOf(Cols(T)[c], cfg)) # <<>>
  /\ \A j \in 1..Len(T.labels) : \A r \in 1..Len(T.labels[j]) : ~Missing(CellText(T.labels[j][r], cfg.filtered))
  /\ NRowsT(T) >= 1 /\ Len(T.data) >= 1
  /\ \A c \in 1..Len(Cols(T)) : ColumnKind(TextsOf(Cols(T)[c], cfg)) = "bool" => \A i \in 1..Len(Cols(T)[c]) : ~Missing(TextsOf(Cols(T)[c], cfg)[i])        \* a Boolean-typed column with a blank cell makes genfromtxt fall back to one array type for the whole table
Ragged(ev) == LET m == ImportAsBuilt(ev.lines, ev.T, ev.cfg) IN m.k = "err" /\ m.why = "ragged"          \* genfromtxt drops or pads such rows: outside the typing model
SameOutcome(m, r) == IF m.k = "err" THEN r.k = "err" ELSE r = m
LossClause(T, cfg) ==
  IF LossNumpyUpgrade(T, cfg) THEN "roundtrip_numpy_upgrade"
  ELSE IF LossTabQuoting(T, cfg) THEN "roundtrip_tab_quoting"
  ELSE IF LossAllMissing(T, cfg) THEN "roundtrip_all_missing_column"
  ELSE IF LossBlankCell(T, cfg) THEN "roundtrip_blank_cell"
  ELSE IF LossEdgeBlank(T, cfg) THEN "roundtrip_edge_blank"
  ELSE "roundtrip"
Verdict(ev) ==
  IF ev.kind = "route" THEN (IF ev.equal THEN "ok" ELSE "route_" \o ev.route)
  ELSE IF ev.lines # FileLines(ev.T, ev.cfg) THEN "file_text"
  ELSE IF Modelled(ev.T, ev.cfg) /\ ~Ragged(ev) /\ ~SameOutcome(ImportAsBuilt(ev.lines, ev.T, ev.cfg), ev.res) THEN "import_differs_from_model"
  ELSE IF Specified(ev.T, ev.cfg) /\ ev.res # Original(ev.T) THEN LossClause(ev.T, ev.cfg)
  ELSE "ok"
Expected(ev) == IF ev.kind = "route" THEN <<>> ELSE IF ev.lines # FileLines(ev.T, ev.cfg) THEN FileLines(ev.T, ev.cfg) ELSE ImportAsBuilt(ev.lines, ev.T, ev.cfg)
Init == l = 1
Next == /\ l <= Len(Trace)
        /\ l' = l + 1
        /\ LET v == Verdict(Trace[l]) IN v = "ok" \/ PrintT(<<"VERDICT", Trace[l].id, v, Expected(Trace[l])>>)
Post == PrintT(<<"DONE", TLCGet("stats").diameter - 1>>)
=============================================================================
