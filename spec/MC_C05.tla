------------------------------- MODULE MC_C05 -------------------------------
(* Small-scope instance for IndexHierarchy (C05): every tree-ordered label set of depth D with at most N rows over  *)
(* a two-label alphabet per depth (ragged fan-out, inner labels repeated under different parents), and every        *)
(* combination of per-level selectors.                                                                              *)
EXTENDS SFHier
CONSTANTS N, D
VARIABLES cs, res
vars == <<cs, res>>
L(d) == IF d = 1 THEN {<<"s", "A">>, <<"s", "B">>} ELSE IF d = 2 THEN {<<"i", 1>>, <<"i", 2>>} ELSE {<<"s", "x">>, <<"s", "y">>}
Tuples == IF D = 2 THEN {<<a, b>> : a \in L(1), b \in L(2)} ELSE {<<a, b, c>> : a \in L(1), b \in L(2), c \in L(3)}
RowSeqs == {r \in UNION {[1..k -> Tuples] : k \in 1..N} : TreeOrdered(r)}
Sels(d) == {<<"all">>} \cup {<<"loc", l>> : l \in L(d)} \cup ({<<"loclist", <<a, b>>>> : a, b \in L(d)} \ {<<"loclist", <<a, a>>>> : a \in L(d)})
           \cup {<<"locslice", a, b>> : a \in L(d) \cup {SNone}, b \in L(d) \cup {SNone}}
Keys == IF D = 2 THEN {<<s1, s2>> : s1 \in Sels(1), s2 \in Sels(2)} ELSE {<<s1, s2, s3>> : s1 \in Sels(1), s2 \in Sels(2), s3 \in {<<"all">>, <<"loc", <<"s", "x">>>>, <<"loclist", <<<<"s", "y">>, <<"s", "x">>>>>>}}
Pending == [k |-> "pending"]
Init == /\ \E rows \in RowSeqs, key \in Keys : cs = [rows |-> rows, key |-> key]
        /\ res = Pending
Call == res.k = "pending" /\ res' = [k |-> "positions", ps |-> HLocWalk(cs.rows, cs.key)] /\ UNCHANGED cs
Next == Call
Spec == Init /\ [][Next]_vars
Done == res.k = "positions"
(* tree and table describe the same sequence of tuples; label -> position through the tree is the table position *)
TreeTable == LeavesOf(Tree(cs.rows), <<>>) = cs.rows /\ Tree(cs.rows).size = Len(cs.rows)
LeafBij == \A i \in 1..Len(cs.rows) : LeafLocToIloc(cs.rows, cs.rows[i]) = i - 1
LeafAbsent == \A t \in Tuples : ~Member(cs.rows, t) => LeafLocToIloc(cs.rows, t) = -1
(* the breadth-first walk with running offsets is the declarative per-level selection *)
HLocExact == Done => res.ps = RefSelect(cs.rows, cs.key)
InClaim == SliceBoundsOK(cs.rows, cs.key)
(* and the declarative selection is what the property says: exactly the positions whose tuple matches every selector *)
Matches(t, key) == \A d \in 1..D : CASE key[d][1] = "all" -> TRUE [] key[d][1] = "loc" -> t[d] = key[d][2] [] key[d][1] = "loclist" -> Member(key[d][2], t[d]) [] OTHER -> TRUE
SelectsMatchingOnly == Done => \A i \in 1..Len(res.ps) : Matches(cs.rows[res.ps[i] + 1], cs.key)
SelectsAllMatching == (Done /\ \A d \in 1..D : cs.key[d][1] # "locslice" /\ (cs.key[d][1] = "loclist" => Unique(cs.key[d][2]))) =>
                         \A i \in 1..Len(cs.rows) : Matches(cs.rows[i], cs.key) => Cardinality({j \in 1..Len(res.ps) : res.ps[j] = i - 1}) = 1
=============================================================================
