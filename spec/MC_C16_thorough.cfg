INIT Init
NEXT Next
CONSTANT MaxLen = 3
INVARIANT QuotingLossless
INVARIANT RequiredRoundTrip
INVARIANT AsBuiltRoundTripWhereSafe
CHECK_DEADLOCK FALSE
