------------------------------- MODULE MC_C19 -------------------------------
(* Small scope for Quilt (C19): two or three member Frames of 1-2 positions on the axis, both axes, labels retained or not,   *)
(* every positional key on the axis (ints, slices, lists in any order, masks) x a few keys on the opposite axis.  The result   *)
(* prescribed is the selection on the concatenated Frame; the dump is replayed on real Quilts.  Invariants: the Boolean-mask    *)
(* extraction of Quilt._extract delivers the prescribed positions whenever the key is ascending (negative control: any order), *)
(* and the per-member translation covers exactly the selected positions.                                                        *)
EXTENDS SFQuilt
CONSTANTS Sizes        \* sequence of member sizes on the axis, e.g. <<2, 1, 2>>
VARIABLES cs, res
vars == <<cs, res>>
NM == Len(Sizes)
NOpp == 2
Lab(m, i) == <<"s", <<"a", "b", "c", "d", "e", "f">>[(IF m = 1 THEN 0 ELSE IF m = 2 THEN Sizes[1] ELSE Sizes[1] + Sizes[2]) + i]>>
OppLab(j) == <<"s", <<"x", "y">>[j]>>
Val(m, i, j) == <<"i", 100 * m + 10 * i + j>>
Member0(m) == [label |-> <<"s", <<"f1", "f2", "f3">>[m]>>,
               f |-> [index |-> [i \in 1..Sizes[m] |-> Lab(m, i)], columns |-> [j \in 1..NOpp |-> OppLab(j)], name |-> <<"s", <<"f1", "f2", "f3">>[m]>>,
                      cols |-> [j \in 1..NOpp |-> [dt |-> DtI64, vals |-> [i \in 1..Sizes[m] |-> Val(m, i, j)]]]]]
Transposed(mem) == [label |-> mem.label, f |-> [index |-> mem.f.columns, columns |-> mem.f.index, name |-> mem.f.name,
                    cols |-> [i \in 1..Len(mem.f.index) |-> [dt |-> DtI64, vals |-> [j \in 1..NOpp |-> mem.f.cols[j].vals[i]]]]]]
Q(axis, retain) == [members |-> [m \in 1..NM |-> IF axis = 0 THEN Member0(m) ELSE Transposed(Member0(m))], axis |-> axis, retain |-> retain]
Total == SumSeq(Sizes)
AxisKeys == {KAll} \cup {<<"int", p>> : p \in {0, Total - 1, -1, Total}}
            \cup {<<"slice", a, b, s>> : a \in {SNone, SI(1), SI(-2)}, b \in {SNone, SI(Total - 1), SI(-1)}, s \in {SNone, SI(2), SI(-1)}}
            \cup {<<"list", <<p, r>>>> : p, r \in 0..(Total - 1)} \cup {<<"list", <<>>>>}
            \cup {<<"mask", m>> : m \in [1..Total -> BOOLEAN]}
OppKeys == {KAll, <<"int", 1>>, <<"list", <<1, 0>>>>, <<"slice", SI(1), SNone, SNone>>}
Init == /\ \E axis \in {0, 1}, retain \in BOOLEAN, ak \in AxisKeys, ok \in OppKeys :
              cs = [op |-> "q_iloc", q |-> Q(axis, retain), rk |-> IF axis = 0 THEN ak ELSE ok, ck |-> IF axis = 0 THEN ok ELSE ak]
        /\ res = [k |-> "pending"]
Next == res.k = "pending" /\ res' = QApply(cs) /\ UNCHANGED cs
Spec == Init /\ [][Next]_vars
AxisRes == IlocResolve(IF cs.q.axis = 0 THEN cs.rk ELSE cs.ck, Total)
WellFormedQ == QuiltWellFormed(cs.q)
SizesQuick == <<2, 1>>
SizesThorough == <<2, 1, 2>>
MaskExtractionIsSelection == (~AxisRes.err /\ AxisRes.multi /\ Ascending(AxisRes.ps)) => ExtractPositions(cs.q, AxisRes.ps) = AxisRes.ps
MemberGroupedIsSelection == (~AxisRes.err /\ AxisRes.multi /\ MemberGrouped(cs.q, AxisRes.ps)) => ExtractPositions(cs.q, AxisRes.ps) = AxisRes.ps
MaskExtractionAnyOrder == (~AxisRes.err /\ AxisRes.multi /\ Unique(AxisRes.ps)) => ExtractPositions(cs.q, AxisRes.ps) = AxisRes.ps          \* negative control
TranslationCovers ==
  (~AxisRes.err) =>
     LET pm == PerMember(cs.q, AxisRes.ps) IN
     /\ SumSeq([m \in 1..NM |-> Len(pm[m])]) = Len(AxisRes.ps)
     /\ \A m \in 1..NM : \A k \in 1..Len(pm[m]) : pm[m][k][2] \in 1..Sizes[m]
=============================================================================
