INIT Init
NEXT Next
CONSTANT MaxN = 3
CONSTANT Sorted = FALSE
INVARIANT SliceAsBuiltAnyOrder
CHECK_DEADLOCK FALSE
