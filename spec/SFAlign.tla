-------------------------------- MODULE SFAlign --------------------------------
(* Index set algebra and label alignment of binary operators (C06).                                             *)
(* Everything is stated on label -> value maps, so the statements are insensitive to the order in which an      *)
(* implementation emits a union: pairing is by label, never by position.                                        *)
EXTENDS SFReduce

AsSet(s) == {s[i] : i \in 1..Len(s)}
(* the declarative statement about a recorded set operation *)
(* SetOpOKAny: the set-algebra part alone (the other operand is a plain array / list of labels, not an index: the statement's  *)
(* "identical operands keep their order" speaks about two indices)                                                              *)
SetOpOKAny(kind, a, b, res) ==
  /\ Unique(res)
  /\ AsSet(res) = (CASE kind = "union" -> AsSet(a) \cup AsSet(b)
                     [] kind = "intersection" -> AsSet(a) \cap AsSet(b)
                     [] kind = "difference" -> AsSet(a) \ AsSet(b))
SetOpOK(kind, a, b, res) ==
  /\ Unique(res)
  /\ AsSet(res) = (CASE kind = "union" -> AsSet(a) \cup AsSet(b)
                     [] kind = "intersection" -> AsSet(a) \cap AsSet(b)
                     [] kind = "difference" -> AsSet(a) \ AsSet(b))
  /\ (a = b /\ kind \in {"union", "intersection"}) => res = a          \* identical operands keep their order

(* element-wise operator on canonical numeric values (<<"q",n,d>>, NaN) and Booleans (<<"q",0|1,1>>) *)
QB(x) == <<"q", IF x THEN 1 ELSE 0, 1>>
OpVal(fn, x, y) ==
  LET na == IsNA(x) \/ IsNA(y)
      a == <<x[2], x[3]>>   b == <<y[2], y[3]>>
  IN CASE fn = "add" -> IF na THEN NaN ELSE QV(QAdd(a, b))
       [] fn = "sub" -> IF na THEN NaN ELSE QV(QSub(a, b))
       [] fn = "mul" -> IF na THEN NaN ELSE QV(QMul(a, b))
       [] fn = "eq" -> IF na THEN QB(FALSE) ELSE QB(a = b)
       [] fn = "ne" -> IF na THEN QB(TRUE) ELSE QB(a # b)
       [] fn = "lt" -> IF na THEN QB(FALSE) ELSE QB(QLt(a, b))
       [] fn = "le" -> IF na THEN QB(FALSE) ELSE QB(QLe(a, b))
       [] fn = "gt" -> IF na THEN QB(FALSE) ELSE QB(QLt(b, a))
       [] fn = "and" -> IF na THEN NaN ELSE QB(a[1] # 0 /\ b[1] # 0)
       [] fn = "or" -> IF na THEN NaN ELSE QB(a[1] # 0 \/ b[1] # 0)

(* value of a labelled 1-D operand at a label, NaN when it lacks the label *)
Lookup1(labels, vals, l) == LET p == Find(labels, l) IN IF p < 0 THEN NaN ELSE At(vals, p)
(* Series op Series *)
SeriesOpOK(fn, a, b, res) ==
  /\ Unique(res.index)
  /\ AsSet(res.index) = AsSet(a.index) \cup AsSet(b.index)
  /\ \A i \in 1..Len(res.index) : res.vals[i] = OpVal(fn, Lookup1(a.index, a.vals, res.index[i]), Lookup1(b.index, b.vals, res.index[i]))
  /\ (a.index = b.index) => res.index = a.index
(* value of a Frame at (row label, column label), NaN when absent *)
Lookup2(f, r, c) == LET p == Find(f.index, r)  q == Find(f.columns, c) IN IF p < 0 \/ q < 0 THEN NaN ELSE At(At(f.cols, q), p)
FrameOpOK(fn, a, b, res) ==
  /\ Unique(res.index) /\ Unique(res.columns)
  /\ AsSet(res.index) = AsSet(a.index) \cup AsSet(b.index)
  /\ AsSet(res.columns) = AsSet(a.columns) \cup AsSet(b.columns)
  /\ \A i \in 1..Len(res.index), j \in 1..Len(res.columns) :
        res.cols[j][i] = OpVal(fn, Lookup2(a, res.index[i], res.columns[j]), Lookup2(b, res.index[i], res.columns[j]))
  /\ (a.index = b.index) => res.index = a.index
  /\ (a.columns = b.columns) => res.columns = a.columns
(* Frame op Series: the Series is aligned with the columns (every row meets the same Series) *)
FrameSeriesOpOK(fn, a, s, res) ==
  /\ res.index = a.index
  /\ Unique(res.columns) /\ AsSet(res.columns) = AsSet(a.columns) \cup AsSet(s.index)
  /\ \A i \in 1..Len(res.index), j \in 1..Len(res.columns) :
        res.cols[j][i] = OpVal(fn, Lookup2(a, res.index[i], res.columns[j]), Lookup1(s.index, s.vals, res.columns[j]))
  /\ (a.columns = s.index) => res.columns = a.columns
(* Frame.via_T op Series: the Series is aligned with the INDEX (every column meets the same Series) *)
FrameSeriesTOpOK(fn, a, s, res) ==
  /\ res.columns = a.columns
  /\ Unique(res.index) /\ AsSet(res.index) = AsSet(a.index) \cup AsSet(s.index)
  /\ \A i \in 1..Len(res.index), j \in 1..Len(res.columns) :
        res.cols[j][i] = OpVal(fn, Lookup2(a, res.index[i], res.columns[j]), Lookup1(s.index, s.vals, res.index[i]))
  /\ (a.index = s.index) => res.index = a.index
(* matrix product (@): Series @ Frame pairs the Series' labels with the Frame's ROW labels, Frame @ Series the Frame's COLUMN labels with the   *)
(* Series' labels - by label, whatever the order either operand stores them in; the result is labelled by the Frame's other axis               *)
QOfN(v) == <<v[2], v[3]>>
Dot(labels, leftAt(_), rightAt(_)) == FoldLeft(LAMBDA acc, l : QAdd(acc, QMul(QOfN(leftAt(l)), QOfN(rightAt(l)))), <<0, 1>>, labels)
MatmulSFOK(s, f, res) ==
  /\ res.index = f.columns
  /\ \A j \in 1..Len(f.columns) : res.vals[j] = QV(Dot(s.index, LAMBDA l : Lookup1(s.index, s.vals, l), LAMBDA l : Lookup2(f, l, f.columns[j])))
MatmulFSOK(f, s, res) ==
  /\ res.index = f.index
  /\ \A i \in 1..Len(f.index) : res.vals[i] = QV(Dot(s.index, LAMBDA l : Lookup1(s.index, s.vals, l), LAMBDA l : Lookup2(f, f.index[i], l)))
ScalarOpOK(fn, a, v, res, reflected) ==
  /\ res.index = a.index /\ res.columns = a.columns
  /\ \A i \in 1..Len(res.index), j \in 1..Len(res.columns) :
        res.cols[j][i] = (IF reflected THEN OpVal(fn, v, a.cols[j][i]) ELSE OpVal(fn, a.cols[j][i], v))
=============================================================================
