SPECIFICATION Spec
CONSTANT N = 5
CONSTANT W = 2
CONSTANT C = 2
CONSTANT Fails = {3}
CONSTANT Eager = TRUE
INVARIANT InvPaired
INVARIANT InvComplete
INVARIANT InvError
INVARIANT InvNoLater
PROPERTY Terminates
CHECK_DEADLOCK FALSE
