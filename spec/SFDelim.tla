-------------------------------- MODULE SFDelim --------------------------------
(* Delimited export / import of one table (C16).  Texts are sequences of one-character strings.                          *)
(*   Writer  : Frame._to_str_records + csv.writer(QUOTE_MINIMAL, doublequote): which fields are quoted and how.           *)
(*   Reader  : for a delimiter other than tab, csv.reader (the quoting state machine) and a re-join with tabs; for tab,    *)
(*             the raw line; then np.genfromtxt's line handling: the LINE is stripped of outer blanks and split at tabs.   *)
(*   Typing  : np.genfromtxt(dtype=None) per column: the first of bool, int, float, str that accepts every non-missing     *)
(*             cell (a cell that is blank is missing and takes the type's default); NumPy 2 raises when a column first     *)
(*             settles on int and must later become str.  Then StoreFilter maps the special strings of str columns.        *)
(* A cell is <<"i", n>>, <<"q", num, den>> (a float, reduced), <<"b", BOOLEAN>>, <<"s", text>>, <<"nan">>, <<"none">>.     *)
EXTENDS Integers, Sequences, FiniteSets, SequencesExt, TLC
TAB == "\t"
SP == " "
DigitChars == <<"0", "1", "2", "3", "4", "5", "6", "7", "8", "9">>
IsDigit(c) == \E k \in 1..10 : DigitChars[k] = c
DigitVal(c) == (CHOOSE k \in 1..10 : DigitChars[k] = c) - 1
Cat(ss) == FoldLeft(LAMBDA a, b : a \o b, <<>>, ss)
Has(t, c) == \E i \in 1..Len(t) : t[i] = c
RECURSIVE Digits(_)
Digits(n) == IF n < 10 THEN <<DigitChars[n + 1]>> ELSE Digits(n \div 10) \o <<DigitChars[(n % 10) + 1]>>
IntText(n) == IF n < 0 THEN <<"-">> \o Digits(-n) ELSE Digits(n)
RECURSIVE Gcd(_, _)
Gcd(a, b) == IF b = 0 THEN a ELSE Gcd(b, a % b)
Abs(x) == IF x < 0 THEN -x ELSE x
Q(n, d) == LET g == Gcd(Abs(n), d) IN IF g = 0 THEN <<"q", 0, 1>> ELSE <<"q", n \div g, d \div g>>
(* floats are quarters: repr gives the shortest decimal: k/4 -> "i.0", "i.25", "i.5", "i.75" *)
QuarterText(cell) ==
  LET n == cell[2] * (4 \div cell[3])                                   \* numerator over 4
      neg == n < 0   a == Abs(n)
      frac == CASE a % 4 = 0 -> <<"0">> [] a % 4 = 1 -> <<"2", "5">> [] a % 4 = 2 -> <<"5">> [] OTHER -> <<"7", "5">>
  IN (IF neg THEN <<"-">> ELSE <<>>) \o Digits(a \div 4) \o <<".">> \o frac
Chars(s) == s                                                            \* texts already are character sequences
(* the text Frame._to_str_records produces for a cell under the default StoreFilter (NaN -> '', None -> 'None') *)
CellText(cell, filtered) ==
  CASE cell[1] = "i" -> IntText(cell[2])
    [] cell[1] = "q" -> QuarterText(cell)
    [] cell[1] = "b" -> IF cell[2] THEN <<"T", "r", "u", "e">> ELSE <<"F", "a", "l", "s", "e">>
    [] cell[1] = "s" -> cell[2]
    [] cell[1] = "nan" -> IF filtered THEN <<>> ELSE <<"n", "a", "n">>
    [] cell[1] = "none" -> <<"N", "o", "n", "e">>
(* ---- writer ----------------------------------------------------------------------------------------------------------- *)
NeedsQuote(t, d, q) == Has(t, d) \/ Has(t, q) \/ Has(t, "\n") \/ Has(t, "\r")
Doubled(t, q) == Cat([i \in 1..Len(t) |-> IF t[i] = q THEN <<q, q>> ELSE <<t[i]>>])
WriteField(t, d, q) == IF NeedsQuote(t, d, q) THEN <<q>> \o Doubled(t, q) \o <<q>> ELSE t
WriteLine(fields, d, q) ==               \* without the line terminator; a lone empty field is written as a pair of quotes
  IF Len(fields) = 1 /\ fields[1] = <<>> THEN <<q, q>>
  ELSE Cat([i \in 1..Len(fields) |-> (IF i > 1 THEN <<d>> ELSE <<>>) \o WriteField(fields[i], d, q)])
(* ---- csv.reader: the quoting state machine over one line ------------------------------------------------------------------ *)
RECURSIVE CsvScan(_, _, _, _, _, _, _)
CsvScan(line, i, st, cur, out, d, q) ==
  IF i > Len(line) THEN
       (CASE st = "start_record" -> out
          [] st = "start_field" -> Append(out, <<>>)
          [] OTHER -> Append(out, cur))
  ELSE LET c == line[i] IN
       CASE st \in {"start_record", "start_field"} ->
              (IF c = q THEN CsvScan(line, i + 1, "in_quoted", <<>>, out, d, q)
               ELSE IF c = d THEN CsvScan(line, i + 1, "start_field", <<>>, Append(out, <<>>), d, q)
               ELSE CsvScan(line, i + 1, "in_field", <<c>>, out, d, q))
         [] st = "in_field" ->
              (IF c = d THEN CsvScan(line, i + 1, "start_field", <<>>, Append(out, cur), d, q)
               ELSE CsvScan(line, i + 1, "in_field", Append(cur, c), out, d, q))
         [] st = "in_quoted" ->
              (IF c = q THEN CsvScan(line, i + 1, "quote_in_quoted", cur, out, d, q)
               ELSE CsvScan(line, i + 1, "in_quoted", Append(cur, c), out, d, q))
         [] st = "quote_in_quoted" ->
              (IF c = q THEN CsvScan(line, i + 1, "in_quoted", Append(cur, q), out, d, q)
               ELSE IF c = d THEN CsvScan(line, i + 1, "start_field", <<>>, Append(out, cur), d, q)
               ELSE CsvScan(line, i + 1, "in_field", Append(cur, c), out, d, q))
CsvRead(line, d, q) == CsvScan(line, 1, "start_record", <<>>, <<>>, d, q)
(* ---- genfromtxt's line handling: strip the line's outer blanks, split at tabs ------------------------------------------------ *)
RECURSIVE LStrip(_)
LStrip(t) == IF t # <<>> /\ t[1] \in {SP, "\r", "\n"} THEN LStrip(Tail(t)) ELSE t
RECURSIVE RStrip(_)
RStrip(t) == IF t # <<>> /\ t[Len(t)] \in {SP, "\r", "\n"} THEN RStrip(SubSeq(t, 1, Len(t) - 1)) ELSE t
Strip(t) == RStrip(LStrip(t))
RECURSIVE SplitAt(_, _, _)
SplitAt(t, c, cur) == IF t = <<>> THEN <<cur>> ELSE IF t[1] = c THEN <<cur>> \o SplitAt(Tail(t), c, <<>>) ELSE SplitAt(Tail(t), c, Append(cur, t[1]))
JoinWith(fields, c) == Cat([i \in 1..Len(fields) |-> (IF i > 1 THEN <<c>> ELSE <<>>) \o fields[i]])
(* what Frame.from_delimited hands to the typing stage for one line of the file *)
FieldsAsBuilt(line, d, q) ==
  LET tabbed == IF d = TAB THEN line ELSE JoinWith(CsvRead(line, d, q), TAB)
      stripped == Strip(tabbed)
  IN IF stripped = <<>> THEN <<>> ELSE SplitAt(stripped, TAB, <<>>)
(* the reading the statement requires: the written fields come back *)
FieldsRequired(line, d, q) == CsvRead(line, d, q)
(* ---- typing ------------------------------------------------------------------------------------------------------------------- *)
Missing(t) == Strip(t) = <<>>
AllDigits(t) == t # <<>> /\ \A i \in 1..Len(t) : IsDigit(t[i])
Unsigned(t) == IF t # <<>> /\ t[1] \in {"+", "-"} THEN Tail(t) ELSE t
IsIntText(t) == LET u == Unsigned(Strip(t)) IN AllDigits(u)
DotPos(t) == IF Has(t, ".") THEN CHOOSE i \in 1..Len(t) : t[i] = "." /\ \A j \in 1..(i - 1) : t[j] # "." ELSE 0
IsDecimalText(t) ==
  LET u == Unsigned(Strip(t))   p == DotPos(u) IN
  p > 0 /\ LET a == SubSeq(u, 1, p - 1)  b == SubSeq(u, p + 1, Len(u)) IN
           (a = <<>> \/ AllDigits(a)) /\ (b = <<>> \/ AllDigits(b)) /\ (a # <<>> \/ b # <<>>)
LowerWord(t) == t \in {<<"n", "a", "n">>, <<"i", "n", "f">>}
IsFloatText(t) == IsIntText(t) \/ IsDecimalText(t) \/ LowerWord(Unsigned(Strip(t)))
IsBoolText(t) == t \in {<<"T", "r", "u", "e">>, <<"F", "a", "l", "s", "e">>}
Accepts(kind, t) == CASE kind = "bool" -> IsBoolText(t) [] kind = "int" -> IsIntText(t) [] kind = "float" -> IsFloatText(t) [] OTHER -> TRUE
Present(texts) == SelectSeq(texts, LAMBDA t : ~Missing(t))
ColumnKind(texts) ==
  LET ps == Present(texts) IN
  IF \A i \in 1..Len(ps) : Accepts("bool", ps[i]) THEN "bool"
  ELSE IF \A i \in 1..Len(ps) : Accepts("int", ps[i]) THEN "int"
  ELSE IF \A i \in 1..Len(ps) : Accepts("float", ps[i]) THEN "float"
  ELSE "str"
(* NumPy 2: a column whose first present cell is an integer text (the converter settles on int) and which must end as str *)
UpgradeRaises(texts) == LET ps == Present(texts) IN ps # <<>> /\ IsIntText(ps[1]) /\ ColumnKind(texts) = "str"
RECURSIVE ToNat(_, _)
ToNat(t, acc) == IF t = <<>> THEN acc ELSE ToNat(Tail(t), acc * 10 + DigitVal(t[1]))
Pow10(k) == FoldLeft(LAMBDA a, b : a * 10, 1, [i \in 1..k |-> i])
ParseInt(t) == LET s == Strip(t)  neg == s[1] = "-" IN (IF neg THEN -1 ELSE 1) * ToNat(Unsigned(s), 0)
ParseFloat(t) ==
  LET s == Strip(t)   u == Unsigned(s)   neg == s[1] = "-"   p == DotPos(u) IN
  IF LowerWord(u) THEN (IF u = <<"n", "a", "n">> THEN <<"nan">> ELSE <<"inf", IF neg THEN -1 ELSE 1>>)
  ELSE IF p = 0 THEN Q((IF neg THEN -1 ELSE 1) * ToNat(u, 0), 1)
  ELSE LET a == SubSeq(u, 1, p - 1)  b == SubSeq(u, p + 1, Len(u)) IN Q((IF neg THEN -1 ELSE 1) * (ToNat(a, 0) * Pow10(Len(b)) + ToNat(b, 0)), Pow10(Len(b)))
(* StoreFilter.to_type_filter_array on a str column: the special strings become values (the column becomes object) *)
FilterStr(t, filtered) ==
  IF ~filtered THEN <<"s", t>>
  ELSE IF t \in {<<>>, <<"n", "a", "n">>, <<"N", "a", "N">>, <<"N", "A", "N">>, <<"N", "U", "L", "L">>} THEN <<"nan">>
  ELSE IF t = <<"N", "o", "n", "e">> THEN <<"none">>
  ELSE IF t = <<"i", "n", "f">> THEN <<"inf", 1>> ELSE IF t = <<"-", "i", "n", "f">> THEN <<"inf", -1>>
  ELSE <<"s", t>>
DecodeCell(kind, t, filtered) ==
  CASE kind = "bool" -> IF Missing(t) THEN <<"b", FALSE>> ELSE <<"b", t = <<"T", "r", "u", "e">>>>
    [] kind = "int" -> IF Missing(t) THEN <<"i", -1>> ELSE <<"i", ParseInt(t)>>
    [] kind = "float" -> IF Missing(t) THEN <<"nan">> ELSE ParseFloat(t)
    [] OTHER -> FilterStr(t, filtered)                         \* a str column keeps the text as it is; only the StoreFilter words change
DecodeColumn(texts, filtered) == LET k == ColumnKind(texts) IN [kind |-> k, cells |-> [i \in 1..Len(texts) |-> DecodeCell(k, texts[i], filtered)]]
(* a header field is typed on its own (each header row is read as one record) *)
DecodeLabel(t, filtered) == DecodeCell(ColumnKind(<<t>>), t, FALSE)

(* ---- one table -------------------------------------------------------------------------------------------------------------------- *)
(* T = [ix |-> <<index column cells>>, labels |-> <<per data column: <<label cell per depth>>>>, data |-> <<[kind, cells]>>]                 *)
(* cfg = [d |-> delimiter, q |-> quote character, filtered |-> BOOLEAN (the default StoreFilter on both sides, or none)]                    *)
NRowsT(T) == IF T.ix # <<>> THEN Len(T.ix[1]) ELSE IF T.data # <<>> THEN Len(T.data[1].cells) ELSE 0
IndexName(k) == <<"_", "_", "i", "n", "d", "e", "x">> \o Digits(k - 1) \o <<"_", "_">>
HeaderFields(T, cfg, r) == [k \in 1..Len(T.ix) |-> IF r = 1 THEN IndexName(k) ELSE <<>>] \o [j \in 1..Len(T.data) |-> CellText(T.labels[j][r], cfg.filtered)]
RowFields(T, cfg, i) == [k \in 1..Len(T.ix) |-> CellText(T.ix[k][i], cfg.filtered)] \o [j \in 1..Len(T.data) |-> CellText(T.data[j].cells[i], cfg.filtered)]
ColDepth(T) == IF T.labels = <<>> THEN 1 ELSE Len(T.labels[1])
AllFields(T, cfg) == [r \in 1..ColDepth(T) |-> HeaderFields(T, cfg, r)] \o [i \in 1..NRowsT(T) |-> RowFields(T, cfg, i)]
FileLines(T, cfg) == LET fs == AllFields(T, cfg) IN [n \in 1..Len(fs) |-> WriteLine(fs[n], cfg.d, cfg.q)]
(* import of the lines by a given field reader *)
ImportWith(lines, T, cfg, Reader(_, _, _)) ==
  LET dc == ColDepth(T)   di == Len(T.ix)   width == di + Len(T.data)
      fields == [n \in 1..Len(lines) |-> Reader(lines[n], cfg.d, cfg.q)]
      body == [i \in 1..(Len(lines) - dc) |-> fields[dc + i]]
      colTexts(c) == [i \in 1..Len(body) |-> body[i][c]]
  IN IF \E n \in 1..Len(fields) : Len(fields[n]) # width THEN [k |-> "err", why |-> "ragged"]
     ELSE IF \E c \in 1..width : UpgradeRaises(colTexts(c)) THEN [k |-> "err", why |-> "numpy_upgrade"]
     ELSE [k |-> "table",
           ix |-> [c \in 1..di |-> DecodeColumn(colTexts(c), cfg.filtered).cells],
           labels |-> [j \in 1..Len(T.data) |-> [r \in 1..dc |-> DecodeLabel(fields[r][di + j], cfg.filtered)]],
           data |-> [j \in 1..Len(T.data) |-> DecodeColumn(colTexts(di + j), cfg.filtered)]]
ImportAsBuilt(lines, T, cfg) == ImportWith(lines, T, cfg, FieldsAsBuilt)
ImportRequired(lines, T, cfg) == ImportWith(lines, T, cfg, FieldsRequired)
KindName(k) == CASE k = "i" -> "int" [] k = "f" -> "float" [] k = "b" -> "bool" [] OTHER -> "str"
Original(T) == [k |-> "table", ix |-> T.ix, labels |-> T.labels, data |-> [j \in 1..Len(T.data) |-> [kind |-> KindName(T.data[j].kind), cells |-> T.data[j].cells]]]
(* the statement speaks about cells whose text is unambiguous for their type *)
StrCells(T) == Cat([k \in 1..Len(T.ix) |-> SelectSeq(T.ix[k], LAMBDA c : c[1] = "s")]) \o Cat([j \in 1..Len(T.data) |-> SelectSeq(T.data[j].cells, LAMBDA c : c[1] = "s")])
              \o Cat([j \in 1..Len(T.labels) |-> SelectSeq(T.labels[j], LAMBDA c : c[1] = "s")])
IsStrCol(cells) == \E i \in 1..Len(cells) : cells[i][1] = "s"
TextsOf(cells, cfg) == [i \in 1..Len(cells) |-> CellText(cells[i], cfg.filtered)]
Specified(T, cfg) ==
  /\ \A i \in 1..Len(StrCells(T)) : (cfg.d = TAB \/ ~Has(StrCells(T)[i][2], TAB)) /\ ~Has(StrCells(T)[i][2], "\n") /\ ~Has(StrCells(T)[i][2], "\r")
  /\ \A j \in 1..Len(T.labels) : \A r \in 1..Len(T.labels[j]) : T.labels[j][r][1] = "s" => (ColumnKind(<<T.labels[j][r][2]>>) = "str" /\ ~Missing(T.labels[j][r][2]))
  /\ \A k \in 1..Len(T.ix) : IsStrCol(T.ix[k]) => (ColumnKind(TextsOf(T.ix[k], cfg)) = "str" /\ \A i \in 1..Len(T.ix[k]) : ~Missing(CellText(T.ix[k][i], cfg.filtered)))
  /\ \A j \in 1..Len(T.data) : T.data[j].kind = "s" =>
         /\ ColumnKind(TextsOf(T.data[j].cells, cfg)) = "str"
         /\ \A i \in 1..Len(T.data[j].cells) : LET c == T.data[j].cells[i] IN
               /\ (c[1] = "s" => (c[2] = <<>> \/ FilterStr(c[2], cfg.filtered) = c))             \* not one of the StoreFilter's special words; the empty string is in scope
               /\ (c[1] = "nan" => cfg.filtered)                                                   \* without a StoreFilter a missing value in a str column is written as the word nan
(* where the import as built is known to lose something although the statement speaks *)
EdgeBlank(fields) == fields # <<>> /\ ((fields[1] # <<>> /\ fields[1][1] = SP) \/ (fields[Len(fields)] # <<>> /\ fields[Len(fields)][Len(fields[Len(fields)])] = SP))
LossTabQuoting(T, cfg) == cfg.d = TAB /\ \E n \in 1..Len(AllFields(T, cfg)) : \E i \in 1..Len(AllFields(T, cfg)[n]) : NeedsQuote(AllFields(T, cfg)[n][i], cfg.d, cfg.q)
LossEdgeBlank(T, cfg) == \E n \in 1..Len(AllFields(T, cfg)) : EdgeBlank(AllFields(T, cfg)[n]) \/ (AllFields(T, cfg)[n] # <<>> /\ Missing(AllFields(T, cfg)[n][Len(AllFields(T, cfg)[n])]) /\ AllFields(T, cfg)[n][Len(AllFields(T, cfg)[n])] # <<>>)
LossBlankCell(T, cfg) == cfg.filtered /\ \E i \in 1..Len(StrCells(T)) : StrCells(T)[i][2] = <<>>              \* with the default StoreFilter an empty string is read back as NaN
LossNumpyUpgrade(T, cfg) == \E c \in 1..(Len(T.ix) + Len(T.data)) : UpgradeRaises([i \in 1..NRowsT(T) |-> RowFields(T, cfg, i)[c]])
LossAllMissing(T, cfg) == \E j \in 1..Len(T.data) : Present(TextsOf(T.data[j].cells, cfg)) = <<>>                     \* a column of missing values only has no type of its own: it reads back as Boolean False
KnownLossy(T, cfg) == LossAllMissing(T, cfg) \/ LossTabQuoting(T, cfg) \/ LossEdgeBlank(T, cfg) \/ LossBlankCell(T, cfg) \/ LossNumpyUpgrade(T, cfg)
=============================================================================
