INIT Init
NEXT Next
CONSTANT MaxLen = 2
INVARIANT QuotingLossless
INVARIANT RequiredRoundTrip
INVARIANT AsBuiltRoundTripWhereSafe
CHECK_DEADLOCK FALSE
