--------------------------------- MODULE SFPool ---------------------------------
(* Function application through a worker pool (C18), at the grain of IterNodeDelegate._apply_iter_items_parallel:      *)
(*    zip(func_keys, executor.map(func, arg_gen(), chunksize))                                                           *)
(* arg_gen appends each key to func_keys as the pool pulls the argument; executor.map submits eagerly (the whole         *)
(* iterable is consumed when map is called), runs chunks of tasks on at most w workers which finish in any order, and     *)
(* hands results back strictly in submission order; zip pairs them with the recorded keys.  A failing task raises when     *)
(* its position is reached.  Steps are functions of a state record s = [keys, state, yielded, phase] and parameters        *)
(* p = [n, w, c, fails, eager] so that the model checker and the trace specification share them.                           *)
(* eager = FALSE is the counterfactual in which submission is lazy (keys recorded only as results are requested): zip       *)
(* asks the key list first, finds it short and stops - the negative control.                                               *)
EXTENDS Integers, Sequences, FiniteSets, SequencesExt, TLC
F(i) == i * 10                                          \* the function applied: item i has key i and value i
Sequential(p) == [i \in 1..p.n |-> <<i, F(i)>>]          \* what the sequential form yields
ChunkOf(p, k) == ((k - 1) \div p.c) + 1
NChunks(p) == (p.n + p.c - 1) \div p.c
S0 == [keys |-> <<>>, state |-> <<>>, yielded |-> <<>>, phase |-> "map"]
(* executor.map(...) is evaluated while zip's arguments are built: every argument is pulled (recording its key) and submitted *)
CallMap(s, p) == [s EXCEPT !.keys = IF p.eager THEN [i \in 1..p.n |-> i] ELSE <<>>,
                           !.state = IF p.eager THEN [c \in 1..NChunks(p) |-> "queued"] ELSE <<>>, !.phase = "run"]
Running(s) == {c \in 1..Len(s.state) : s.state[c] = "running"}
CanStart(s, p, c) == /\ s.phase = "run" /\ c \in 1..Len(s.state) /\ s.state[c] = "queued" /\ Cardinality(Running(s)) < p.w
                     /\ \A d \in 1..(c - 1) : s.state[d] # "queued"                       \* the work queue is first in, first out
DoStart(s, c) == [s EXCEPT !.state[c] = "running"]
CanFinish(s, c) == s.phase = "run" /\ c \in Running(s)
DoFinish(s, c) == [s EXCEPT !.state[c] = "done"]
(* zip asks the key list first, then the result iterator, which blocks until the chunk holding the next position is done *)
NextPos(s) == Len(s.yielded) + 1
CanYield(s, p) == s.phase = "run" /\ (IF NextPos(s) > Len(s.keys) THEN TRUE ELSE s.state[ChunkOf(p, NextPos(s))] = "done")
DoYield(s, p) == LET k == NextPos(s) IN
                 IF k > Len(s.keys) THEN [s EXCEPT !.phase = "finished"]
                 ELSE IF k \in p.fails THEN [s EXCEPT !.phase = "error"]
                 ELSE [s EXCEPT !.yielded = Append(@, <<s.keys[k], F(k)>>)]
(* ---- the statements ------------------------------------------------------------------------------------------------ *)
PairedAndOrdered(s, p) == IsPrefix(s.yielded, Sequential(p))                              \* every result with the label of its input, in input order
CompleteOrError(s, p) == s.phase = "finished" => (s.yielded = Sequential(p) /\ p.fails = {})     \* never a silently shorter result
ErrorIsReal(s, p) == s.phase = "error" => NextPos(s) \in p.fails                          \* an error is raised exactly at a failing task's position
NoLaterThanFailure(s, p) == \A i \in p.fails : Len(s.yielded) < i
=============================================================================
