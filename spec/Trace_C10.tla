------------------------------ MODULE Trace_C10 ------------------------------
EXTENDS SFEquals, Json, IOUtils
Trace == ndJsonDeserialize(IOEnv.TRACE_FILE)
VARIABLE l
Verdict(ev) == IF ev.kind = "matrix" THEN MatrixVerdict(ev.items, ev.m, ev.opts) ELSE HEVerdict(ev.items, ev.eq, ev.ne, ev.hashes)
Init == l = 1
Next == /\ l <= Len(Trace)
        /\ l' = l + 1
        /\ LET v == Verdict(Trace[l]) IN v = "ok" \/ PrintT(<<"VERDICT", Trace[l].id, v, <<>>>>)
Post == PrintT(<<"DONE", TLCGet("stats").diameter - 1>>)
=============================================================================
