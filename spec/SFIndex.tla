-------------------------------- MODULE SFIndex --------------------------------
(* Flat indices (C02): uniqueness and the label <-> position bijection, for static indices built / derived by any    *)
(* route and for grow-only indices at the grain of index.py: IndexGO.append updates the hash map (or keeps the         *)
(* map-less auto-integer form) and the mutable label list and only raises the recache flag; the cached label array      *)
(* is rebuilt by a separate internal step.                                                                              *)
EXTENDS SFSort

(* ---- derived label sequences, by route ------------------------------------------------------------------------------ *)
Rotate(s, k) == IF s = <<>> THEN s ELSE LET n == Len(s)  m == ((k % n) + n) % n IN [i \in 1..n |-> s[((i - 1 - m + n) % n) + 1]]
DErr == [k |-> "err"]
DElem(x) == [k |-> "elem", v |-> x]
DLab(x) == [k |-> "labels", v |-> x]
DeriveLabels(route, src, arg) ==
  CASE route = "iloc" -> LET r == IlocResolve(arg, Len(src)) IN IF r.err THEN DErr ELSE IF ~r.multi THEN DElem(At(src, r.ps[1])) ELSE DLab(Take(src, r.ps))
    [] route = "loc" -> LET r == LocResolve(arg, src) IN IF r.err THEN DErr ELSE IF ~r.multi THEN DElem(At(src, r.ps[1])) ELSE DLab(Take(src, r.ps))
    [] route = "drop_iloc" -> LET r == IlocResolve(arg, Len(src)) IN IF r.err THEN DErr ELSE DLab(Take(src, Without(Len(src), r.ps)))
    [] route = "drop_loc" -> LET r == LocResolve(arg, src) IN IF r.err THEN DErr ELSE DLab(Take(src, Without(Len(src), r.ps)))
    [] route = "roll" -> DLab(Rotate(src, arg))
    [] route = "sort" -> DLab(Take(src, SortOrder(<<src>>, Len(src), arg)))
    [] route = "relabel_map" -> DLab([i \in 1..Len(src) |-> LET p == Find(arg[1], src[i]) IN IF p < 0 THEN src[i] ELSE At(arg[2], p)])
    [] route = "level_add" -> DLab([i \in 1..Len(src) |-> <<"t", <<arg, src[i]>>>>])
    [] route \in {"ih_flat", "ih_copy", "ih_pickle"} -> DLab(src)
    [] route = "ih_level_drop_outer" -> DLab([i \in 1..Len(src) |-> LET rest == Tail(src[i][2]) IN IF Len(rest) = 1 THEN rest[1] ELSE <<"t", rest>>])
    [] route = "ih_level_drop_inner" -> DLab(Dedupe([i \in 1..Len(src) |-> LET rest == SubSeq(src[i][2], 1, Len(src[i][2]) - 1) IN IF Len(rest) = 1 THEN rest[1] ELSE <<"t", rest>>]))
    [] route = "ih_level_add" -> DLab([i \in 1..Len(src) |-> <<"t", <<arg>> \o src[i][2]>>])
    [] route = "ih_roll" -> DLab(Rotate(src, arg))
    [] route = "ih_iloc" -> LET r == IlocResolve(arg, Len(src)) IN IF r.err THEN DErr ELSE DLab(Take(src, r.ps))
    [] route = "ih_drop_iloc" -> LET r == IlocResolve(arg, Len(src)) IN IF r.err THEN DErr ELSE DLab(Take(src, Without(Len(src), r.ps)))
    [] route \in {"copy", "deepcopy", "pickle", "rename", "astype_object", "ctor_from_index", "to_go", "to_static", "values_ctor", "head_all", "iter_ctor"} -> DLab(src)
(* set operations are stated as sets (C06) *)

(* ---- grow-only index, implementation shaped ----------------------------------------------------------------------------- *)
(* state: [mutable |-> Seq(label), cache |-> Seq(label), recache |-> BOOLEAN, hasMap |-> BOOLEAN]                              *)
(* hasMap = FALSE is the auto-integer form (loc_is_iloc): labels are 0..n-1 and lookups are position arithmetic                *)
GoInit(labels, auto) == [mutable |-> labels, cache |-> labels, recache |-> FALSE, hasMap |-> ~auto]
IsCount(v, n) == Tag(v) = "i" /\ v[2] = n
GoContains(ix, v) == IF ix.hasMap THEN Member(ix.mutable, v) ELSE (Tag(v) = "i" /\ v[2] >= 0 /\ v[2] < Len(ix.mutable))
GoRecache(ix) == [ix EXCEPT !.cache = ix.mutable, !.recache = FALSE]                       \* _update_array_cache
(* IndexGO.append: the membership test first (on the map-less form a non-negative integer is compared with len(self), which *)
(* performs the deferred rebuild); a duplicate is rejected; otherwise map update or promotion, list append, recache := TRUE *)
GoAppendIxP(ix, v, promote) ==
  LET ix1 == IF ~ix.hasMap /\ Tag(v) = "i" /\ v[2] >= 0 /\ ix.recache THEN GoRecache(ix) ELSE ix IN          \* value >= 0 and value < len(self): len is only reached for a non-negative integer
  IF GoContains(ix1, v) THEN [ix |-> ix1, outcome |-> "rejected"]
  ELSE [ix |-> [mutable |-> Append(ix1.mutable, v), cache |-> ix1.cache, recache |-> TRUE,
                hasMap |-> ix1.hasMap \/ (promote /\ ~IsCount(v, Len(ix1.mutable)))],        \* keeps the map-less form only for value = count
        outcome |-> "ok"]
GoAppendIx(ix, v) == GoAppendIxP(ix, v, TRUE)
RECURSIVE GoExtendFold(_, _)
GoExtendFold(ix, vs) == IF vs = <<>> THEN ix ELSE GoExtendFold(GoAppendIx(ix, Head(vs)).ix, Tail(vs))
(* IndexGO.extend: every value validated before any is appended *)
GoExtendClash(ix, vs) == (\E i \in 1..Len(vs) : GoContains(ix, vs[i])) \/ ~Unique(vs)
(* the implementation-shaped lookup: hash map, or position arithmetic for the map-less form *)
GoLookup(ix, v) == IF ix.hasMap THEN Find(ix.mutable, v) ELSE IF GoContains(ix, v) THEN v[2] ELSE -1
GoBij(ix) == \A i \in 1..Len(ix.mutable) : GoLookup(ix, ix.mutable[i]) = i - 1
GoUnique(ix) == Unique(ix.mutable)
GoCacheCoherent(ix) == ~ix.recache => ix.cache = ix.mutable
GoAutoShape(ix) == ~ix.hasMap => ix.mutable = [i \in 1..Len(ix.mutable) |-> <<"i", i - 1>>]
=============================================================================
