------------------------------ MODULE Trace_C02 ------------------------------
(* Trace validation for flat indices (C02).  Event kinds:                                                              *)
(*   construct : labels given to a construction route; duplicates must be rejected with the index-initialisation      *)
(*               error, otherwise the resulting index is observed through every view;                                *)
(*   derive    : a derivation route applied to an index; the result's labels must be those the route prescribes       *)
(*               (DeriveLabels) and the result is observed through every view;                                        *)
(*   setop     : union / intersection / difference, stated on sets;                                                   *)
(*   grow / extend / read : one call on a grow-only index with the private state (label list, cached array length,    *)
(*               recache flag, map present) before and after: the step must be the SFIndex transition.                *)
(* Observation obs = [labels (iteration), rev (reversed iteration), values, ilocs, len, positions, lookup, member,     *)
(*                    absent]                                                                                          *)
EXTENDS SFIndex, SFHier, Json, IOUtils
Trace == ndJsonDeserialize(IOEnv.TRACE_FILE)
VARIABLE l
ObsVerdict(want, obs) ==
  LET n == Len(want) IN
  IF obs.k # "obs" THEN "error_instead_of_index"
  ELSE IF obs.labels # want THEN "labels"
  ELSE IF ~Unique(obs.labels) THEN "not_unique"
  ELSE IF obs.rev # RevSeq(want) THEN "reversed_iteration"
  ELSE IF obs.values # want THEN "values"
  ELSE IF obs.ilocs # want THEN "iloc_elements"
  ELSE IF obs.len # n THEN "length"
  ELSE IF obs.positions # SeqRange(n) THEN "positions"
  ELSE IF obs.lookup # SeqRange(n) THEN "label_to_position"
  ELSE IF \E i \in 1..Len(obs.member) : ~obs.member[i] THEN "membership_present"
  ELSE IF \E i \in 1..Len(obs.absent) : obs.absent[i] THEN "membership_absent"
  ELSE "ok"
SetEq(a, b) == (\A i \in 1..Len(a) : Member(b, a[i])) /\ (\A i \in 1..Len(b) : Member(a, b[i]))
St(r) == [mutable |-> r.mutable, cache |-> r.cache, recache |-> r.recache, hasMap |-> r.hasMap]
IsHierRoute(route) == route \in {"ih_copy", "ih_pickle", "ih_level_add", "ih_roll", "ih_iloc", "ih_drop_iloc"}
IsHierCtor(route) == route \in {"ih_from_labels", "ih_from_labels_delimited", "ih_from_type_blocks", "ih_from_frame_set_index", "ih_from_tree", "ih_from_index_items", "ih_from_index_items_shared", "ih_from_product", "ih_from_product_dup_level"}
RowsOf(labels) == [i \in 1..Len(labels) |-> labels[i][2]]
Verdict(ev) ==
  CASE ev.kind = "construct" ->
         IF ~Unique(ev.labels) THEN (IF ev.obs.k = "err" /\ ev.obs.cat \in {"init_nonunique", "init"} THEN "ok" ELSE "duplicates_not_rejected")
         ELSE IF IsHierCtor(ev.route) /\ ~TreeOrdered(RowsOf(ev.labels)) THEN (IF ev.obs.k = "err" /\ ev.obs.cat \in {"init_nonunique", "init"} THEN "ok" ELSE "non_tree_not_rejected")
         ELSE ObsVerdict(ev.labels, ev.obs)
    [] ev.kind = "derive" ->
         LET d == DeriveLabels(ev.route, ev.src, ev.arg)
             want == d.v IN
         IF d.k = "err" THEN (IF ev.obs.k = "err" THEN "ok" ELSE "invalid_key_not_rejected")
         ELSE IF d.k = "elem" THEN (IF ev.obs.k = "elem" /\ ev.obs.v = d.v THEN "ok" ELSE "element")
         ELSE IF ~Unique(want) THEN (IF ev.obs.k = "err" /\ ev.obs.cat \in {"init_nonunique", "init"} THEN "ok" ELSE "duplicates_not_rejected")
         ELSE IF IsHierRoute(ev.route) /\ ~TreeOrdered(RowsOf(want)) THEN (IF ev.obs.k = "err" /\ ev.obs.cat \in {"init_nonunique", "init"} THEN "ok" ELSE "non_tree_not_rejected")
         ELSE ObsVerdict(want, ev.obs)
    (* twin: one public call made on a grow-only container that reached its labels through a history (reads, appends, no read at the end) and on a   *)
    (* twin built at once from the same labels; Value(ix) - the label sequence - is the whole state of the model, so the two observables coincide     *)
    [] ev.kind = "twin" -> IF ev.stale = ev.fresh THEN "ok" ELSE "observable_depends_on_history"
    [] ev.kind = "setop" ->
         LET want == CASE ev.route = "union" -> ev.src \o ev.other
                       [] ev.route = "intersection" -> SelectSeq(ev.src, LAMBDA x : Member(ev.other, x))
                       [] ev.route = "difference" -> SelectSeq(ev.src, LAMBDA x : ~Member(ev.other, x))
         IN IF ev.obs.k # "obs" THEN "error_instead_of_index"
            ELSE IF ~SetEq(ev.obs.labels, want) THEN "set_members"
            ELSE ObsVerdict(ev.obs.labels, ev.obs)
    [] ev.kind = "grow" ->
         LET r == GoAppendIx(St(ev.pre), ev.v) IN
         IF r.outcome # ev.outcome THEN "outcome"
         ELSE IF St(ev.post) # r.ix THEN "append_transition"
         ELSE IF ev.outcome = "ok" /\ ev.stale # Len(r.ix.mutable) - 1 THEN "lookup_before_recache"
         ELSE IF ~(GoBij(r.ix) /\ GoUnique(r.ix) /\ GoAutoShape(r.ix)) THEN "model_invariant"
         ELSE ObsVerdict(r.ix.mutable, ev.obs)
    [] ev.kind = "extend" ->
         LET pre == St(ev.pre)  post == St(ev.post) IN
         IF GoExtendClash(pre, ev.vs)
           THEN (IF ev.outcome # "rejected" THEN "outcome" ELSE IF post.mutable # pre.mutable \/ post.hasMap # pre.hasMap THEN "rejected_extend_changed_index" ELSE ObsVerdict(pre.mutable, ev.obs))
           ELSE (IF ev.outcome # "ok" THEN "outcome" ELSE IF post # GoExtendFold(pre, ev.vs) THEN "extend_transition" ELSE ObsVerdict(post.mutable, ev.obs))
    [] ev.kind = "read" ->
         LET pre == St(ev.pre) IN
         IF St(ev.post) = (IF pre.recache THEN GoRecache(pre) ELSE pre) THEN "ok" ELSE "read_transition"
Init == l = 1
Next == /\ l <= Len(Trace)
        /\ l' = l + 1
        /\ LET v == Verdict(Trace[l]) IN v = "ok" \/ PrintT(<<"VERDICT", Trace[l].id, v, IF Trace[l].kind = "derive" THEN DeriveLabels(Trace[l].route, Trace[l].src, Trace[l].arg) ELSE <<>>>>)
Post == PrintT(<<"DONE", TLCGet("stats").diameter - 1>>)
=============================================================================
