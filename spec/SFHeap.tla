-------------------------------- MODULE SFHeap --------------------------------
(* Arrays, buffers and ownership (C01).  An array is a view on a buffer with its own writeable flag (NumPy);     *)
(* a container references arrays; the caller keeps references to the arrays it supplied or obtained.            *)
(* One action per family of code path; `act` records the call so that behaviours can be replayed.                *)
EXTENDS Integers, Sequences, FiniteSets, TLC
CONSTANTS MaxArr, MaxCont,
          FilterBug        \* TRUE = negative control: immutable_filter shares a writeable input instead of copying it
VARIABLES bufs,            \* buffer id -> data (a 2-cell sequence over 0..1)
          arrs,            \* array id -> [buf, w]
          conts,           \* container id -> [arr, born]  (born = content at creation)
          caller,          \* array ids the caller holds
          act
vars == <<bufs, arrs, conts, caller, act>>
Data == [1..2 -> {0, 1}]
Content(c) == bufs[arrs[conts[c].arr].buf]
NewBuf(d) == Append(bufs, d)
Init == /\ bufs = <<>> /\ arrs = <<>> /\ conts = <<>> /\ caller = {}
        /\ act = [name |-> "init"]
(* the caller creates an array (writeable or already read-only) *)
CallerNew(w) ==
  /\ Len(arrs) < MaxArr
  /\ bufs' = NewBuf(<<0, 1>>)
  /\ arrs' = Append(arrs, [buf |-> Len(bufs) + 1, w |-> w])
  /\ caller' = caller \cup {Len(arrs) + 1}
  /\ UNCHANGED conts
  /\ act' = [name |-> "caller_new", w |-> w]
(* a container is built from an array the caller holds; immutable_filter: writeable => copy and freeze; read-only => share *)
Construct(a) ==
  /\ a \in caller /\ Len(conts) < MaxCont /\ Len(arrs) < MaxArr
  /\ IF arrs[a].w /\ ~FilterBug
       THEN /\ bufs' = NewBuf(bufs[arrs[a].buf])
            /\ arrs' = Append(arrs, [buf |-> Len(bufs) + 1, w |-> FALSE])
            /\ conts' = Append(conts, [arr |-> Len(arrs) + 1, born |-> bufs[arrs[a].buf]])
       ELSE /\ UNCHANGED <<bufs, arrs>>
            /\ conts' = Append(conts, [arr |-> a, born |-> bufs[arrs[a].buf]])
  /\ UNCHANGED caller
  /\ act' = [name |-> "construct", arr |-> a]
(* the caller writes through an array it holds: possible exactly when that array is writeable *)
CallerWrite(a) ==
  /\ a \in caller /\ arrs[a].w
  /\ bufs' = [bufs EXCEPT ![arrs[a].buf] = <<1 - @[1], @[2]>>]
  /\ UNCHANGED <<arrs, conts, caller>>
  /\ act' = [name |-> "caller_write", arr |-> a, allowed |-> TRUE]
CallerWriteRefused(a) ==
  /\ a \in caller /\ ~arrs[a].w
  /\ UNCHANGED <<bufs, arrs, conts, caller>>
  /\ act' = [name |-> "caller_write", arr |-> a, allowed |-> FALSE]
(* the caller obtains an array from a container (values, index.values, iter_array, ...): the array itself or a view *)
Obtain(c, asView) ==
  /\ c \in 1..Len(conts) /\ Len(arrs) < MaxArr
  /\ IF asView
       THEN /\ arrs' = Append(arrs, [buf |-> arrs[conts[c].arr].buf, w |-> FALSE])
            /\ caller' = caller \cup {Len(arrs) + 1}
       ELSE /\ UNCHANGED arrs
            /\ caller' = caller \cup {conts[c].arr}
  /\ UNCHANGED <<bufs, conts>>
  /\ act' = [name |-> "obtain", cont |-> c, view |-> asView]
(* a container derived from another: sharing the buffer through a read-only view, or a fresh frozen copy *)
Derive(c, share) ==
  /\ c \in 1..Len(conts) /\ Len(conts) < MaxCont /\ Len(arrs) < MaxArr
  /\ IF share
       THEN /\ arrs' = Append(arrs, [buf |-> arrs[conts[c].arr].buf, w |-> FALSE])
            /\ UNCHANGED bufs
       ELSE /\ bufs' = NewBuf(Content(c))
            /\ arrs' = Append(arrs, [buf |-> Len(bufs) + 1, w |-> FALSE])
  /\ conts' = Append(conts, [arr |-> Len(arrs) + 1, born |-> Content(c)])
  /\ UNCHANGED caller
  /\ act' = [name |-> "derive", cont |-> c, share |-> share]
Next == \/ \E w \in BOOLEAN : CallerNew(w)
        \/ \E a \in 1..Len(arrs) : Construct(a) \/ CallerWrite(a) \/ CallerWriteRefused(a)
        \/ \E c \in 1..Len(conts), b \in BOOLEAN : Obtain(c, b) \/ Derive(c, b)
Spec == Init /\ [][Next]_vars
(* ---- the property -------------------------------------------------------------------------------------------- *)
AllFrozen == \A c \in 1..Len(conts) : ~arrs[conts[c].arr].w
NoChange == \A c \in 1..Len(conts) : Content(c) = conts[c].born
CallerIsolated == \A a \in 1..Len(arrs) : arrs[a].w => \A c \in 1..Len(conts) : arrs[conts[c].arr].buf # arrs[a].buf
ObtainedFrozen == \A a \in caller : (\E c \in 1..Len(conts) : arrs[conts[c].arr].buf = arrs[a].buf) => ~arrs[a].w
=============================================================================
