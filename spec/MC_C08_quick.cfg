INIT Init
NEXT Next
CONSTANT NR = 3
CONSTANT NC = 3
INVARIANT OnlyAddressed
INVARIANT ElementStored
INVARIANT DropExact
INVARIANT MaskExact
CHECK_DEADLOCK FALSE
