------------------------------- MODULE SFShape -------------------------------
(* Shape-preserving and label-driven transformations that the listed properties only touch in passing:       *)
(* reindex, roll, shift, head / tail, duplicated / drop_duplicated, isin, transpose, clip.                   *)
(* Each is given ONE column-level meaning; the conformance legs of C03 run every case on every block layout  *)
(* (so "whatever their block layouts" is decided against a stated result, not only against another layout).  *)
EXTENDS SFUpdate

(* ---- sequences -------------------------------------------------------------------------------------------- *)
(* roll: the element at position i moves to position i + n (mod m); an empty sequence rolls to itself          *)
RollSeq(q, n) == LET m == Len(q) IN IF m = 0 THEN q ELSE [i \in 1..m |-> q[((i - 1 - n) % m) + 1]]
(* shift: the element at position i moves to i + n; what falls off is lost, what is uncovered holds fill        *)
ShiftSeq(q, n, fill) == [i \in 1..Len(q) |-> IF i - n >= 1 /\ i - n <= Len(q) THEN q[i - n] ELSE fill]

FillCol(n, fill) == [dt |-> ElemDtype(fill), vals |-> [i \in 1..n |-> fill]]
ShiftCol(c, n, fill) == IF n = 0 \/ Len(c.vals) = 0 THEN c          \* nothing moves along an empty axis: the dtype stays
                        ELSE LET dt == Resolve(c.dt, ElemDtype(fill)) IN [dt |-> dt, vals |-> CastSeq(ShiftSeq(c.vals, n, fill), dt)]

SeriesRoll(s, n, incl) == MkSeries(IF incl THEN RollSeq(s.index, n) ELSE s.index, RollSeq(s.vals, n), s.dt, s.name)
SeriesShift(s, n, fill) == LET c == ShiftCol([dt |-> s.dt, vals |-> s.vals], n, fill) IN MkSeries(s.index, c.vals, c.dt, s.name)
FrameRoll(f, ri, ci, ii, ic) ==
  MkFrame(IF ii THEN RollSeq(f.index, ri) ELSE f.index, IF ic THEN RollSeq(f.columns, ci) ELSE f.columns,
          LET cols == RollSeq(f.cols, ci) IN [j \in 1..NCols(f) |-> [dt |-> cols[j].dt, vals |-> RollSeq(cols[j].vals, ri)]], f.name)
(* columns move first (an uncovered column is a column of fill with the dtype of fill), then every column is     *)
(* shifted along the rows                                                                                       *)
FrameShift(f, ri, ci, fill) ==
  LET cols == ShiftSeq(f.cols, ci, FillCol(NRows(f), fill))
  IN MkFrame(f.index, f.columns, [j \in 1..NCols(f) |-> ShiftCol(cols[j], ri, fill)], f.name)

(* ---- reindex ------------------------------------------------------------------------------------------------ *)
(* target: the new labels; a label the source has keeps its value, any other holds fill.  A column whose every   *)
(* target label exists keeps its dtype, otherwise it takes the resolution with the dtype of fill.                *)
AllFound(src, target) == target = src \/ (Len(target) > 0 /\ \A i \in 1..Len(target) : Member(src, target[i]))
ReindexCol(c, src, target, fill) ==
  LET dt == IF AllFound(src, target) THEN c.dt ELSE Resolve(c.dt, ElemDtype(fill))
  IN [dt |-> dt, vals |-> [i \in 1..Len(target) |-> LET p == Find(src, target[i]) IN Cast(IF p < 0 THEN fill ELSE At(c.vals, p), dt)]]
SeriesReindex(s, target, fill) ==
  IF ~Unique(target) THEN Err("init_nonunique")
  ELSE LET c == ReindexCol([dt |-> s.dt, vals |-> s.vals], s.index, target, fill) IN MkSeries(target, c.vals, c.dt, s.name)
(* it / ct: <<"keep">> or <<"to", labels>> *)
FrameReindex(f, it, ct, fill) ==
  IF it[1] = "keep" /\ ct[1] = "keep" THEN Err("runtime")
  ELSE LET ti == IF it[1] = "keep" THEN f.index ELSE it[2]
           tc == IF ct[1] = "keep" THEN f.columns ELSE ct[2]
       IN IF ~Unique(ti) \/ ~Unique(tc) THEN Err("init_nonunique")
          ELSE MkFrame(ti, tc,
                 [j \in 1..Len(tc) |-> LET p == Find(f.columns, tc[j]) IN
                                       IF p < 0 THEN FillCol(Len(ti), fill) ELSE ReindexCol(At(f.cols, p), f.index, ti, fill)], f.name)

(* ---- head / tail ------------------------------------------------------------------------------------------- *)
(* the first / last n entries (n >= 0); tail(0) is left unspecified: as built it is the slice [-0:], everything   *)
HeadPs(len, n) == RangeSeq(0, MinI(n, len), 1)
TailPs(len, n) == RangeSeq(len - MinI(n, len), len, 1)
SeriesHead(s, n, tail) == IF tail /\ n = 0 THEN Unspecified
                          ELSE SeriesSelect(s, Resolved(TRUE, IF tail THEN TailPs(Len(s.index), n) ELSE HeadPs(Len(s.index), n)))
FrameHead(f, n, tail) == IF tail /\ n = 0 THEN Unspecified
                         ELSE FrameSelect(f, Resolved(TRUE, IF tail THEN TailPs(NRows(f), n) ELSE HeadPs(NRows(f), n)), Resolved(TRUE, SeqRange(NCols(f))))

(* ---- duplicates --------------------------------------------------------------------------------------------- *)
(* equality of cells as the containers see it: numbers by value (1, 1.0 and True are one value), NaN / NaT equal  *)
(* to nothing, None equal to None, everything else by identity of the tagged value                               *)
SameCell(a, b) == IF IsNA(a) \/ IsNA(b) THEN Tag(a) = "none" /\ Tag(b) = "none"
                  ELSE IF IsNum(a) /\ IsNum(b) THEN QOf(a) = QOf(b) ELSE a = b
SameSeq(x, y) == Len(x) = Len(y) /\ \A i \in 1..Len(x) : SameCell(x[i], y[i])
(* items: a sequence of cell sequences (one cell for a Series, a row or a column for a Frame)                     *)
DupFlags(items, exFirst, exLast) ==
  [p \in 1..Len(items) |->
     /\ \E q \in 1..Len(items) : q # p /\ SameSeq(items[p], items[q])
     /\ ~(exFirst /\ ~\E q \in 1..(p - 1) : SameSeq(items[p], items[q]))
     /\ ~(exLast /\ ~\E q \in (p + 1)..Len(items) : SameSeq(items[p], items[q]))]
BoolVals(flags) == [i \in 1..Len(flags) |-> B(flags[i])]
Keep(flags) == SelectSeq(SeqRange(Len(flags)), LAMBDA p : ~flags[p + 1])
RowItems(f) == [i \in 1..NRows(f) |-> [j \in 1..NCols(f) |-> f.cols[j].vals[i]]]
ColItems(f) == [j \in 1..NCols(f) |-> f.cols[j].vals]
SeriesItems(s) == [i \in 1..Len(s.vals) |-> <<s.vals[i]>>]

SeriesDuplicated(s, exFirst, exLast) == MkSeries(s.index, BoolVals(DupFlags(SeriesItems(s), exFirst, exLast)), DtB, None)
SeriesDropDuplicated(s, exFirst, exLast) ==
  LET keep == Keep(DupFlags(SeriesItems(s), exFirst, exLast)) IN MkSeries(Take(s.index, keep), Take(s.vals, keep), s.dt, s.name)
(* as built, rows / columns are compared after sorting the 2-D values; when those are an object array (mixed column  *)
(* dtypes) holding NaN the order is not total and equal rows can be missed: left unspecified (DESIGN 14.2) *)
NaNUnderObject(f) == NCols(f) > 0 /\ ResolveSeq(Dtypes(f)) = DtO /\ \E j \in 1..NCols(f), i \in 1..NRows(f) : Tag(f.cols[j].vals[i]) = "nan"
FrameDuplicated(f, axis, exFirst, exLast) ==
  IF NCols(f) = 0 \/ NRows(f) = 0 \/ NaNUnderObject(f) THEN Unspecified
  ELSE MkSeries(IF axis = 0 THEN f.index ELSE f.columns,
                BoolVals(DupFlags(IF axis = 0 THEN RowItems(f) ELSE ColItems(f), exFirst, exLast)), DtB, None)
(* as built the rows / columns that stay are taken from the 2-D values of the whole Frame: when anything is        *)
(* dropped every column takes the resolution of all column dtypes (values are kept exactly)                       *)
FrameDropDuplicated(f, axis, exFirst, exLast) ==
  IF NCols(f) = 0 \/ NRows(f) = 0 \/ NaNUnderObject(f) THEN Unspecified
  ELSE LET flags == DupFlags(IF axis = 0 THEN RowItems(f) ELSE ColItems(f), exFirst, exLast)
           keep == Keep(flags)
           D == ResolveSeq(Dtypes(f))
       IN IF Len(keep) = Len(flags) THEN AsFrame(f)
          ELSE IF axis = 0 THEN MkFrame(Take(f.index, keep), f.columns, [j \in 1..NCols(f) |-> [dt |-> D, vals |-> CastSeq(Take(f.cols[j].vals, keep), D)]], f.name)
          ELSE MkFrame(f.index, Take(f.columns, keep), [j \in 1..Len(keep) |-> [dt |-> D, vals |-> CastSeq(At(f.cols, keep[j]).vals, D)]], f.name)

(* ---- isin ---------------------------------------------------------------------------------------------------- *)
InOther(v, other) == \E k \in 1..Len(other) : SameCell(v, other[k])
SeriesIsin(s, other) == MkSeries(s.index, [i \in 1..Len(s.vals) |-> B(InOther(s.vals[i], other))], DtB, s.name)
FrameIsin(f, other) == MkFrame(f.index, f.columns, [j \in 1..NCols(f) |-> [dt |-> DtB, vals |-> [i \in 1..NRows(f) |-> B(InOther(f.cols[j].vals[i], other))]]], f.name)

(* ---- transpose ------------------------------------------------------------------------------------------------ *)
FrameTranspose(f) ==
  IF NCols(f) = 0 THEN Unspecified
  ELSE LET D == ResolveSeq(Dtypes(f))
       IN MkFrame(f.columns, f.index, [i \in 1..NRows(f) |-> [dt |-> D, vals |-> [j \in 1..NCols(f) |-> Cast(f.cols[j].vals[i], D)]]], f.name)

(* ---- clip (numeric columns, scalar bounds; <<"none">> = no bound) ------------------------------------------------ *)
QMax(x, y) == IF QLt(x, y) THEN y ELSE x
QMin(x, y) == IF QLt(y, x) THEN y ELSE x
NumOf(q, dt) == IF Kind(dt) = "f" THEN <<"f", q[1], q[2]>> ELSE <<"i", q[1]>>
ClipDtype(dt, lo, hi) == LET d1 == IF Tag(lo) = "none" THEN dt ELSE Resolve(dt, DtypeFromElement(lo))
                         IN IF Tag(hi) = "none" THEN d1 ELSE Resolve(d1, DtypeFromElement(hi))
ClipVal(v, lo, hi, dt) ==
  IF IsNA(v) THEN v
  ELSE LET x1 == IF Tag(lo) = "none" THEN QOf(v) ELSE QMax(QOf(v), QOf(lo))
           x2 == IF Tag(hi) = "none" THEN x1 ELSE QMin(x1, QOf(hi))
       IN NumOf(x2, dt)
ClipCol(c, lo, hi) == LET dt == ClipDtype(c.dt, lo, hi) IN [dt |-> dt, vals |-> [i \in 1..Len(c.vals) |-> ClipVal(c.vals[i], lo, hi, dt)]]
Clippable(dt) == dt \in {DtI64, DtF64}
SeriesClip(s, lo, hi) == IF ~Clippable(s.dt) THEN Unspecified
                         ELSE LET c == ClipCol([dt |-> s.dt, vals |-> s.vals], lo, hi) IN MkSeries(s.index, c.vals, c.dt, s.name)
FrameClip(f, lo, hi) == IF \E j \in 1..NCols(f) : ~Clippable(f.cols[j].dt) THEN Unspecified
                        ELSE MkFrame(f.index, f.columns, [j \in 1..NCols(f) |-> ClipCol(f.cols[j], lo, hi)], f.name)

(* ---- searchsorted: where values would be inserted into an ascending sequence, as positions or as the labels found there ------------ *)
(* keys are numbers (compared as rationals) or datetimes of one unit (compared by their ticks); anything else, a missing value or a      *)
(* sequence that is not ascending leaves the call Unspecified (NumPy's binary search then returns some position)                         *)
SKeyOK(v) == Tag(v) \in {"i", "f", "d"}
SKey(v) == IF Tag(v) = "d" THEN <<v[3], 1>> ELSE QOf(v)
SKeysComparable(xs) == \A i \in 1..Len(xs) : SKeyOK(xs[i]) /\ (Tag(xs[i]) = "d") = (Tag(xs[1]) = "d") /\ (Tag(xs[i]) = "d" => xs[i][2] = xs[1][2])
SAscending(xs) == \A i \in 1..(Len(xs) - 1) : QLe(SKey(xs[i]), SKey(xs[i + 1]))
(* the number of members strictly below v (side left) or not above v (side right): the insertion position that keeps the order *)
SearchPos(xs, v, left) == Cardinality({i \in 1..Len(xs) : IF left THEN QLt(SKey(xs[i]), SKey(v)) ELSE QLe(SKey(xs[i]), SKey(v))})
(* searched: the ascending sequence; labels: what a position is reported as (loc form: the label there, the fill past the end) *)
SCanon(v) == IF Tag(v) = "f" /\ v[3] = 1 THEN <<"i", v[2]>> ELSE v          \* the dtype of the reported labels is not part of the statement: whole floats as integers
SearchOne(searched, labels, v, left, loc, fill) ==
  LET p == SearchPos(searched, v, left) IN IF ~loc THEN <<"i", p>> ELSE IF p = Len(labels) THEN SCanon(fill) ELSE SCanon(labels[p + 1])
SearchSorted(searched, labels, q, many, left, loc, fill) ==
  IF ~SKeysComparable(searched \o q) \/ ~SAscending(searched) THEN Unspecified
  ELSE IF many THEN [k |-> "array", dt |-> <<"any", 0>>, vals |-> [i \in 1..Len(q) |-> SearchOne(searched, labels, q[i], left, loc, fill)]]
  ELSE Elem(SearchOne(searched, labels, q[1], left, loc, fill))
(* Series: the VALUES are searched and positions are reported as index labels; Index: the labels themselves *)
SeriesSearchSorted(s, on, q, many, left, loc, fill) ==
  IF Len(q) = 0 THEN Unspecified
  ELSE IF Len(s.index) = 0 /\ many /\ loc THEN Unspecified          \* as built: IndexError (the labels are indexed at position 0 before the fill is put in); the element form returns the fill
  ELSE SearchSorted(IF on = "values" THEN s.vals ELSE s.index, s.index, q, many, left, loc, fill)

(* ---- hierarchical relabelling: labels of a hierarchical axis are <<"t", <<l1, ..., ld>>>> ---------------------- *)
AddLevel(l, x) == IF Tag(l) = "t" THEN <<"t", <<x>> \o l[2]>> ELSE <<"t", <<x, l>>>>
DropOuter(l, k) == LET rest == SubSeq(l[2], k + 1, Len(l[2])) IN IF Len(rest) = 1 THEN rest[1] ELSE <<"t", rest>>
LabelsLevelAdd(labs, x) == [i \in 1..Len(labs) |-> AddLevel(labs[i], x)]
LabelsLevelDrop(labs, k) == [i \in 1..Len(labs) |-> DropOuter(labs[i], k)]
HDepth(labs) == Len(labs[1][2])
(* rehierarch: the levels are reordered by the depth map dm (0-based source depths), then the rows are put in the      *)
(* order of a stable sort on, level by level, the rank of first appearance of each label within its source level       *)
ColumnAt(labs, d) == [i \in 1..Len(labs) |-> labs[i][2][d]]
RankIn(labs, d, x) == Find(Dedupe(ColumnAt(labs, d)), x)
RECURSIVE RankLexLt(_, _, _, _, _)
RankLexLt(labs, dm, k, a, b) ==
  IF k > Len(dm) THEN FALSE
  ELSE LET d == dm[k] + 1
           ra == RankIn(labs, d, labs[a + 1][2][d])
           rb == RankIn(labs, d, labs[b + 1][2][d])
       IN IF ra # rb THEN ra < rb ELSE RankLexLt(labs, dm, k + 1, a, b)
RehierOrder(labs, dm) == StableArgsort(Len(labs), LAMBDA a, b : RankLexLt(labs, dm, 1, a, b))
PermuteLabel(l, dm) == <<"t", [k \in 1..Len(dm) |-> l[2][dm[k] + 1]]>>
ValidDepthMap(labs, dm) == Len(dm) = HDepth(labs) /\ \A d \in 0..(HDepth(labs) - 1) : Member(dm, d)
RehierLabels(labs, dm) == LET ord == RehierOrder(labs, dm) IN [i \in 1..Len(labs) |-> PermuteLabel(labs[ord[i] + 1], dm)]

SeriesLevelAdd(s, x) == MkSeries(LabelsLevelAdd(s.index, x), s.vals, s.dt, s.name)
(* as built the levels are re-used: after dropping an outer level the labels of the next level are concatenated     *)
(* parent by parent and must be unique ACROSS the dropped parents, which is stronger than unique result labels     *)
DropOK(labs, k) == \A c \in 1..k : \A i, j \in 1..Len(labs) :
                      labs[i][2][c + 1] = labs[j][2][c + 1] => SubSeq(labs[i][2], 1, c) = SubSeq(labs[j][2], 1, c)
SeriesLevelDrop(s, k) == IF ~DropOK(s.index, k) THEN Err("init_nonunique") ELSE MkSeries(LabelsLevelDrop(s.index, k), s.vals, s.dt, s.name)
SeriesRehierarch(s, dm) == IF ~ValidDepthMap(s.index, dm) THEN Err("runtime")
                           ELSE MkSeries(RehierLabels(s.index, dm), Take(s.vals, RehierOrder(s.index, dm)), s.dt, s.name)
(* Frames: axis 0 = index, 1 = columns; the other axis and every cell stay where their label goes *)
(* label_widths_at_depth(d): the tree read at depth d (0-based) - one (label, number of leaves below it) pair per node, in tree order;   *)
(* a node is a maximal run of rows that agree on levels 0..d                                                                            *)
PrefixTo(l, d) == SubSeq(l[2], 1, d + 1)
RunStarts(labs, d) == SelectSeq([i \in 1..Len(labs) |-> i], LAMBDA i : i = 1 \/ PrefixTo(labs[i], d) # PrefixTo(labs[i - 1], d))
LabelWidths(labs, d) ==
  LET st == RunStarts(labs, d) IN
  [k \in 1..Len(st) |-> <<"t", <<labs[st[k]][2][d + 1], <<"i", (IF k = Len(st) THEN Len(labs) + 1 ELSE st[k + 1]) - st[k]>>>>>>]
(* iter_label(depths): per row the label at that depth, or the tuple of the labels at those depths *)
IterLabel(labs, ds) == [i \in 1..Len(labs) |-> IF Len(ds) = 1 THEN labs[i][2][ds[1] + 1] ELSE <<"t", [k \in 1..Len(ds) |-> labs[i][2][ds[k] + 1]]>>]
ArrayOf(vals) == [k |-> "array", dt |-> <<"any", 0>>, vals |-> vals]
SeriesLabelWidths(s, d) == IF Len(s.index) = 0 \/ d < 0 \/ d >= HDepth(s.index) THEN Unspecified ELSE ArrayOf(LabelWidths(s.index, d))
SeriesIterLabel(s, ds) == IF Len(s.index) = 0 \/ Len(ds) = 0 \/ (\E k \in 1..Len(ds) : ds[k] < 0 \/ ds[k] >= HDepth(s.index)) THEN Unspecified
                          ELSE ArrayOf(IterLabel(s.index, ds))
(* relabel_flat: the hierarchical axis becomes a one-level axis whose labels are the tuples; nothing else changes *)
SeriesRelabelFlat(s) == MkSeries(s.index, s.vals, s.dt, s.name)
FrameRelabelFlat(f, axis) == MkFrame(f.index, f.columns, f.cols, f.name)
FrameLevelAdd(f, axis, x) == IF axis = 0 THEN MkFrame(LabelsLevelAdd(f.index, x), f.columns, f.cols, f.name)
                             ELSE MkFrame(f.index, LabelsLevelAdd(f.columns, x), f.cols, f.name)
FrameLevelDrop(f, axis, k) ==
  LET labs == LabelsLevelDrop(IF axis = 0 THEN f.index ELSE f.columns, k)
  IN IF ~DropOK(IF axis = 0 THEN f.index ELSE f.columns, k) THEN Err("init_nonunique")
     ELSE IF axis = 0 THEN MkFrame(labs, f.columns, f.cols, f.name) ELSE MkFrame(f.index, labs, f.cols, f.name)
FrameRehierarch(f, axis, dm) ==
  LET src == IF axis = 0 THEN f.index ELSE f.columns IN
  IF ~ValidDepthMap(src, dm) THEN Err("runtime")
  ELSE LET ord == RehierOrder(src, dm) IN
       IF axis = 0 THEN MkFrame(RehierLabels(src, dm), f.columns, [j \in 1..NCols(f) |-> [dt |-> f.cols[j].dt, vals |-> Take(f.cols[j].vals, ord)]], f.name)
       ELSE MkFrame(f.index, RehierLabels(src, dm), Take(f.cols, ord), f.name)

(* ---- element-wise mapping: iter_element().map_any / map_fill / map_all -------------------------------------------------- *)
(* keys / vals: the mapping as two parallel sequences; a cell is looked up as a dictionary key is (numbers by value, None by    *)
(* identity, NaN never found).  "any": a cell without an entry stays; "fill": it becomes the fill; "all": it is a lookup       *)
(* error.  The result keeps the labels and drops the name; its dtype is inferred from the resulting values and is not part    *)
(* of the statement (one missing marker, whole floats as ints: LooseCols of SFNA is restated here to keep SFShape independent) *)
MapFind(keys, v) == IF \E k \in 1..Len(keys) : SameCell(keys[k], v) THEN CHOOSE k \in 1..Len(keys) : SameCell(keys[k], v) /\ \A j \in 1..(k - 1) : ~SameCell(keys[j], v) ELSE 0
MapCell(keys, vals, mode, fill, v) == LET k == MapFind(keys, v) IN IF k > 0 THEN vals[k] ELSE IF mode = "any" THEN v ELSE fill
MapMissing(keys, cells) == \E i \in 1..Len(cells) : MapFind(keys, cells[i]) = 0
LooseCell(v) == IF IsNA(v) THEN <<"na">> ELSE IF Tag(v) = "f" /\ v[3] = 1 THEN <<"i", v[2]>> ELSE v
SeriesMap(s, keys, vals, mode, fill) ==
  IF mode = "all" /\ MapMissing(keys, s.vals) THEN Err("lookup")
  ELSE MkSeries(s.index, [i \in 1..Len(s.vals) |-> LooseCell(MapCell(keys, vals, mode, fill, s.vals[i]))], <<"any", 0>>, None)
FrameMap(f, keys, vals, mode, fill) ==
  IF NCols(f) = 0 \/ NRows(f) = 0 THEN Unspecified          \* zero-sized Frames: the element iterator cannot rebuild them (zero-sized family)
  ELSE IF mode = "all" /\ \E j \in 1..NCols(f) : MapMissing(keys, f.cols[j].vals) THEN Err("lookup")
  ELSE MkFrame(f.index, f.columns, [j \in 1..NCols(f) |-> [dt |-> <<"any", 0>>, vals |-> [i \in 1..NRows(f) |-> LooseCell(MapCell(keys, vals, mode, fill, f.cols[j].vals[i]))]]], None)
=============================================================================
