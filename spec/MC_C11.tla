------------------------------- MODULE MC_C11 -------------------------------
(* Small-scope instance for concatenation (C11): two or three one-row / one-column inputs with every choice of   *)
(* aligned-axis labels over {x, y, z}; the dictionary-style reference meets the declarative statement, conserves   *)
(* cells (no cell lost, duplicated or moved) and rejects duplicate concat-axis labels.                            *)
EXTENDS SFConcat
CONSTANTS K
VARIABLES cs, res
vars == <<cs, res>>
Across == {<<"s", "x">>, <<"s", "y">>, <<"s", "z">>}
AcrossSeqs == {s \in UNION {[1..k -> Across] : k \in 0..2} : Unique(s)}
Pending == [k |-> "pending"]
Mk(k, ac, rowlab, axis) ==      \* input k: one line along the concat axis labelled rowlab, cells 10k + position
  IF axis = 0 THEN [index |-> <<rowlab>>, columns |-> ac, cols |-> [j \in 1..Len(ac) |-> <<<<"q", 10 * k + j, 1>>>>]]
  ELSE [index |-> ac, columns |-> <<rowlab>>, cols |-> <<[j \in 1..Len(ac) |-> <<"q", 10 * k + j, 1>>]>>]
Init == /\ \E acs \in [1..K -> AcrossSeqs], dup \in BOOLEAN, ax \in {0, 1}, un \in BOOLEAN :
              cs = [op |-> "f_concat", axis |-> ax, union |-> un, fill |-> NaN, auto |-> FALSE,
                    frames |-> [k \in 1..K |-> Mk(k, acs[k], IF dup /\ k = K THEN <<"i", 1>> ELSE <<"i", k>>, ax)]]
        /\ res = Pending
Call == res.k = "pending" /\ res' = ConcatRef(cs.frames, cs.axis, cs.union, cs.fill) /\ UNCHANGED cs
Next == Call
Spec == Init /\ [][Next]_vars
Done == res.k # "pending"
RefMeetsStatement == (Done /\ res.k = "nframe") => ConcatOK(cs.frames, cs.axis, cs.union, cs.fill, FALSE, res)
DupRejected == Done => ((res.k = "err") <=> ConcatRejects(cs.frames, cs.axis, FALSE))
(* every non-fill cell of the result is an input cell and every input cell on a kept label appears exactly once *)
Cells(f) == {<<f.index[i], f.columns[j], f.cols[j][i]>> : i \in 1..Len(f.index), j \in 1..Len(f.columns)}
CellConservation ==
  (Done /\ res.k = "nframe" /\ cs.union) =>
     {c \in Cells(res) : ~IsNA(c[3])} = UNION {Cells(cs.frames[k]) : k \in 1..K}
=============================================================================
