------------------------------ MODULE Trace_C11 ------------------------------
EXTENDS SFConcat, Json, IOUtils
Trace == ndJsonDeserialize(IOEnv.TRACE_FILE)
VARIABLE l
Relabel(f, axis, labels) == IF axis = 0 THEN [f EXCEPT !.index = labels] ELSE [f EXCEPT !.columns = labels]
Verdict(ev) ==
  LET cs == ev.cs IN
  CASE cs.op = "f_concat" ->
         IF ConcatRejects(cs.frames, cs.axis, cs.auto) THEN (IF ev.res.k = "err" THEN "ok" ELSE "duplicates_accepted")
         ELSE IF ev.res.k = "err" THEN "error"
         ELSE IF ConcatOK(cs.frames, cs.axis, cs.union, cs.fill, cs.auto, ev.res) THEN "ok" ELSE "cells_or_labels"
    [] cs.op = "f_concat_items" ->
         IF ev.res.k = "err" THEN "error"
         ELSE LET il == ItemsLabels(cs.keys, cs.frames, cs.axis)
                  (* the same statement with every input's concat-axis labels replaced by (key, label) *)
                  fr == [k \in 1..Len(cs.frames) |-> Relabel(cs.frames[k], cs.axis, [i \in 1..Len(AlongLabels(cs.frames[k], cs.axis)) |-> <<"t", <<cs.keys[k], AlongLabels(cs.frames[k], cs.axis)[i]>>>>])]
              IN IF ConcatOK(fr, cs.axis, cs.union, cs.fill, FALSE, ev.res) THEN "ok" ELSE "cells_or_labels"
    [] cs.op = "s_concat" ->
         IF ~cs.auto /\ ~Unique(ConcatSeqs([k \in 1..Len(cs.sers) |-> cs.sers[k].index])) THEN (IF ev.res.k = "err" THEN "ok" ELSE "duplicates_accepted")
         ELSE IF ev.res.k = "err" THEN "error"
         ELSE IF SeriesConcatOK(cs.sers, cs.auto, ev.res) THEN "ok" ELSE "cells_or_labels"
    [] cs.op = "f_overlay" -> IF ev.res.k = "err" THEN "error" ELSE IF OverlayOK(cs.frames, ev.res) THEN "ok" ELSE "overlay"
    [] cs.op = "s_overlay" -> IF ev.res.k = "err" THEN "error" ELSE IF SeriesOverlayOK(cs.sers, ev.res) THEN "ok" ELSE "overlay"
Init == l = 1
Next == /\ l <= Len(Trace)
        /\ l' = l + 1
        /\ LET v == Verdict(Trace[l]) IN v = "ok" \/ PrintT(<<"VERDICT", Trace[l].id, v, <<>>>>)
Post == PrintT(<<"DONE", TLCGet("stats").diameter - 1>>)
=============================================================================
