SPECIFICATION Spec
CONSTANT MaxArr = 6
CONSTANT MaxCont = 4
CONSTANT FilterBug = FALSE
INVARIANT AllFrozen
INVARIANT NoChange
INVARIANT CallerIsolated
INVARIANT ObtainedFrozen
CHECK_DEADLOCK FALSE
