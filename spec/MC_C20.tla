------------------------------- MODULE MC_C20 -------------------------------
(* Small scope for reshaping and relational operations (C20).  One state per call: cs (the call) and res (the result  *)
(* the definitions prescribe); the dump is replayed into the real Frame methods for every block layout.  Invariants   *)
(* are the algebraic laws the definitions must satisfy (partition of the source rows by a pivot, conservation of a    *)
(* summed pivot, containment and counting of the four joins, round trips of the label-moving operations).             *)
EXTENDS SFRel
CONSTANTS NR, NG
VARIABLES cs, res
vars == <<cs, res>>
RowLab == [i \in 1..NR |-> S(<<"p", "q", "r", "s">>[i])]
KVals == {S("a"), S("b")}
JVals == {I(1), I(2)}
(* F(kv, jv): columns k (strings), j (ints), v (distinct ints), w (ints) *)
F(kv, jv) == [index |-> RowLab, columns |-> <<S("k"), S("j"), S("v"), S("w")>>, name |-> None,
              cols |-> <<[dt |-> DtAny, vals |-> kv], [dt |-> DtAny, vals |-> jv],
                         [dt |-> DtAny, vals |-> [i \in 1..NR |-> I(10 * i)]], [dt |-> DtAny, vals |-> [i \in 1..NR |-> I(7 - 2 * i)]]>>]
G(kv) == [index |-> [i \in 1..NG |-> S(<<"x", "y", "z">>[i])], columns |-> <<S("k"), S("z")>>, name |-> None,
          cols |-> <<[dt |-> DtAny, vals |-> kv], [dt |-> DtAny, vals |-> [i \in 1..NG |-> I(100 + i)]]>>]
Fills == {NaN, I(-1)}
Fns == {"sum", "min", "max", "count", "range", "first"}
KeyK == [depth |-> FALSE, cols |-> <<S("k")>>]
InitCases ==
  \/ \E kv \in [1..NR -> KVals], jv \in [1..NR -> JVals], lab \in {S("k"), S("j"), S("v"), S("zz")}, drop \in BOOLEAN :
        cs = [op |-> "set_index", f |-> F(kv, jv), lab |-> lab, drop |-> drop]
  \/ \E kv \in [1..NR -> KVals], jv \in [1..NR -> JVals], labs \in {<<S("k"), S("j")>>, <<S("k"), S("v")>>, <<S("j"), S("k")>>}, drop \in BOOLEAN :
        cs = [op |-> "set_index_hierarchy", f |-> F(kv, jv), labs |-> labs, drop |-> drop]
  \/ \E kv \in [1..NR -> KVals], jv \in [1..NR -> JVals], labs \in {<<S("k"), S("j")>>, <<S("j"), S("k")>>, <<S("k"), S("v")>>}, drop \in BOOLEAN :
        cs = [op |-> "set_index_hierarchy_reorder", f |-> F(kv, jv), labs |-> labs, drop |-> drop]
  \/ \E kv \in [1..NR -> KVals], jv \in [1..NR -> JVals], lab \in {S("k"), S("v")} : cs = [op |-> "shift_in_rows", f |-> F(kv, jv), lab |-> lab]
  \/ \E kv \in [1..NR -> KVals], jv \in [1..NR -> JVals], lab \in {RowLab[1], RowLab[NR], S("zz")} : cs = [op |-> "shift_in_cols", f |-> F(kv, jv), lab |-> lab]
  \/ \E kv \in [1..NR -> KVals], jv \in [1..NR -> JVals] : cs = [op |-> "unset_index", f |-> F(kv, jv), names |-> <<S("ix")>>]
  \/ \E kv \in [1..NR -> KVals], jv \in [1..NR -> JVals] : cs = [op |-> "stack", f |-> F(kv, jv)]
  \/ \E kv \in [1..NR -> KVals], jv \in [1..NR -> JVals], ixf \in {<<S("k")>>, <<S("j")>>, <<S("k"), S("j")>>}, colf \in {<<>>, <<S("j")>>, <<S("k")>>},
        dataf \in {<<S("v")>>, <<S("v"), S("w")>>, <<>>}, fn \in Fns, fill \in Fills :
        /\ \A c \in 1..Len(colf) : ~Member(ixf, colf[c])
        /\ (dataf = <<>> => Member(ixf \o colf, S("k")))            \* the remaining fields must be numeric
        /\ cs = [op |-> "pivot", f |-> F(kv, jv), ixf |-> ixf, colf |-> colf, dataf |-> dataf, fns |-> <<<<"", fn>>>>, fill |-> fill]
  \/ \E kv \in [1..NR -> KVals], jv \in [1..NR -> JVals], colf \in {<<>>, <<S("j")>>} :
        cs = [op |-> "pivot", f |-> F(kv, jv), ixf |-> <<S("k")>>, colf |-> colf, dataf |-> <<S("v")>>, fns |-> <<<<"mx", "max">>, <<"mn", "min">>>>, fill |-> NaN]
  \/ \E kv \in [1..NR -> KVals \cup {S("c")}], gv \in [1..NG -> KVals \cup {S("d")}], kind \in {"inner", "left", "right", "outer"}, fill \in Fills, composite \in BOOLEAN :
        cs = [op |-> "join", f |-> F(kv, [i \in 1..NR |-> I(1)]), g |-> G(gv), lk |-> KeyK, rk |-> KeyK, kind |-> kind, fill |-> fill,
              lt |-> <<"L_", "">>, rt |-> <<"", "_r">>, composite |-> composite]
Pending == [k |-> "pending"]
Init == InitCases /\ res = Pending
Next == res.k = "pending" /\ res' = Apply20(cs) /\ UNCHANGED cs
Spec == Init /\ [][Next]_vars
Done == res.k # "pending"
(* ---- laws ------------------------------------------------------------------------------------------------------------ *)
PivotPartition == cs.op = "pivot" => PivotPartitions(cs.f, cs.ixf, cs.colf)
PivotConservesSum ==
  (Done /\ cs.op = "pivot" /\ res.k = "pivot" /\ cs.fns = <<<<"", "sum">>>>) =>
     \A d \in 1..Len(PivotDataFields(cs.f, cs.ixf, cs.colf, cs.dataf)) :
        LET dl == PivotDataFields(cs.f, cs.ixf, cs.colf, cs.dataf)[d]
            cells == FlatSeqs([r \in 1..Len(res.rows) |-> SelectSeq([c \in 1..Len(res.cols) |-> IF res.cols[c][2] = dl /\ res.cells[r][c] # cs.fill THEN res.cells[r][c] ELSE I(0)], LAMBDA x : TRUE)])
        IN SumSeq([k \in 1..Len(cells) |-> cells[k][2]]) = SumSeq([i \in 1..NR |-> CellAt(cs.f, i, ColIdx(cs.f, dl))[2]])
           \/ \E r \in 1..Len(res.rows), c \in 1..Len(res.cols) : res.cells[r][c] = cs.fill /\ PivotSrc(cs.f, cs.ixf, res.rows[r], cs.colf, res.cols[c][1]) # <<>>   \* a genuine aggregate equal to the fill value
JoinLaws ==
  (Done /\ cs.op = "join" /\ res.k = "join") =>
     LET rows(kind) == JoinRows(cs.f, cs.g, cs.lk, cs.rk, kind, cs.fill)
         ps == JoinPairs(cs.f, cs.g, cs.lk, cs.rk)
         nl == Cardinality({i \in 1..NR : \A k \in 1..Len(ps) : ps[k][1] # i})
         nr == Cardinality({j \in 1..NG : \A k \in 1..Len(ps) : ps[k][2] # j})
     IN /\ Len(rows("inner")) = Len(ps)
        /\ Len(rows("left")) = Len(ps) + nl /\ Len(rows("right")) = Len(ps) + nr /\ Len(rows("outer")) = Len(ps) + nl + nr
        /\ \A k \in 1..Len(rows("inner")) : Member(rows("left"), rows("inner")[k]) /\ Member(rows("right"), rows("inner")[k])
        /\ \A k \in 1..Len(rows("left")) : Member(rows("outer"), rows("left")[k])
        /\ \A k \in 1..Len(rows("right")) : Member(rows("outer"), rows("right")[k])
        /\ \A i \in 1..NR : \E k \in 1..Len(rows("left")) : rows("left")[k][1] = cs.f.index[i]            \* the preserved side keeps every row
        /\ \A j \in 1..NG : \E k \in 1..Len(rows("right")) : rows("right")[k][2] = cs.g.index[j]
        /\ Unique([k \in 1..Len(rows("outer")) |-> SubSeq(rows("outer")[k], 1, 2)])
RoundTrips ==
  /\ (Done /\ cs.op = "set_index" /\ res.k = "frame" /\ cs.drop) =>
        LET back == UnsetIndex(res, <<cs.lab>>) IN
        /\ back.columns = <<cs.lab>> \o res.columns
        /\ \A j \in 1..NCols(cs.f) : back.cols[ColIdx(back, cs.f.columns[j])].vals = cs.f.cols[j].vals
  /\ (Done /\ cs.op = "shift_in_rows" /\ res.k = "frame") =>
        LET back == ShiftOutRows(res, <<S("ix"), cs.lab>>, <<1>>) IN
        /\ back.index = cs.f.index
        /\ \A j \in 1..NCols(cs.f) : back.cols[ColIdx(back, cs.f.columns[j])].vals = cs.f.cols[j].vals
  /\ (Done /\ cs.op = "stack") =>
        \A i \in 1..NR, j \in 1..NCols(cs.f) : UnstackCell(res, cs.f.index[i], I(0), cs.f.columns[j], NaN) = CellAt(cs.f, i, j)
(* reorder_for_hierarchy: a permutation of the rows - every source row appears once, with all its cells under its own key label - whose *)
(* labels form a tree                                                                                                                      *)
ReorderKeepsRows ==
  (Done /\ cs.op = "set_index_hierarchy_reorder" /\ res.k = "frame") =>
     /\ TreeOrdered([i \in 1..NRows(res) |-> res.index[i][2]])
     /\ \A i \in 1..NR : \E k \in 1..NRows(res) :
           /\ res.index[k] = Tup(KeyTuple(cs.f, i, cs.labs))
           /\ \A j \in 1..NCols(res) : res.cols[j].vals[k] = cs.f.cols[ColIdx(cs.f, res.columns[j])].vals[i]
CellsKeptWithRow ==       \* moving a column into the labels keeps every remaining cell in its row
  (Done /\ cs.op \in {"set_index", "set_index_hierarchy", "shift_in_rows"} /\ res.k = "frame") =>
     \A j \in 1..NCols(res) : res.cols[j].vals = cs.f.cols[ColIdx(cs.f, res.columns[j])].vals
=============================================================================
