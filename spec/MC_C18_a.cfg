SPECIFICATION Spec
CONSTANT N = 5
CONSTANT W = 2
CONSTANT C = 1
CONSTANT Fails = {}
CONSTANT Eager = TRUE
INVARIANT InvPaired
INVARIANT InvComplete
INVARIANT InvError
INVARIANT InvNoLater
PROPERTY Terminates
CHECK_DEADLOCK FALSE
