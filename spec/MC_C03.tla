------------------------------- MODULE MC_C03 -------------------------------
(* Refinement instance for block-manager transparency (C03): for every admissible block layout of a small    *)
(* column set and every column key, the block-walking algorithms transcribed in SFBlocks give exactly the   *)
(* column-level result of SFFrame.  State = one (layout, operation, key) case and its block-level result.   *)
EXTENDS SFBlocks
CONSTANTS NC, NR
VARIABLES cs, res
vars == <<cs, res>>

ColDt == [j \in 1..NC |-> IF j <= NC - 1 THEN DtI64 ELSE DtF64]
ColVal(j, i) == IF j <= NC - 1 THEN <<"i", 10 * j + i>> ELSE <<"f", 2 * i + 1, 2>>
FlatC == [j \in 1..NC |-> [dt |-> ColDt[j], vals |-> [i \in 1..NR |-> ColVal(j, i)]]]
F == [index |-> [i \in 1..NR |-> <<"i", i - 1>>], columns |-> [j \in 1..NC |-> <<"s", <<"a", "b", "c", "d", "e">>[j]>>], name |-> None, cols |-> FlatC]

Blk == {<<w, nd>> : w \in 1..NC, nd \in {1, 2}}
Layouts == {l \in UNION {[1..k -> Blk] : k \in 1..NC} : LayoutOK(FlatC, l)}

Comp == {SNone} \cup {SI(v) : v \in (-NC - 1)..(NC + 1)}
Steps == {SNone, SI(1), SI(2), SI(3), SI(-1), SI(-2), SI(-3)}
Keys == {KAll} \cup {<<"slice", a, b, s>> : a \in Comp, b \in Comp, s \in Steps}
        \cup {<<"list", <<p>>>> : p \in (-NC)..(NC - 1)} \cup {<<"list", <<p, q>>>> : p, q \in (-NC)..(NC - 1)}
        \cup {<<"list", <<p, q, r>>>> : p, q, r \in 0..(NC - 1)} \cup {<<"list", <<>>>>}
        \cup {<<"mask", m>> : m \in [1..NC -> BOOLEAN]}
RowSels == {SeqRange(NR), <<1>>, <<NR - 1, 0>>, <<>>}

Pending == [k |-> "pending"]
Init == /\ \E l \in Layouts, key \in Keys, op \in {"select", "drop", "mask"}, rs \in RowSels :
              cs = [op |-> op, layout |-> l, key |-> key, rs |-> rs]
        /\ res = Pending
TB == FromCols(FlatC, cs.layout, NR)
DistinctRows == Unique(cs.rs)
Call == /\ res.k = "pending"
        /\ res' = CASE cs.op = "select" -> [k |-> "blocks", blocks |-> SliceBlocks(TB, cs.rs, cs.key)]
                    [] cs.op = "drop" -> [k |-> "blocks", blocks |-> DropBlocks(TB, Without(NR, cs.rs), cs.key).blocks]
                    [] cs.op = "mask" -> [k |-> "blocks", blocks |-> MaskBlocks(TB, cs.rs, cs.key).blocks]
        /\ UNCHANGED cs
Next == Call
Spec == Init /\ [][Next]_vars

Done == res.k = "blocks"
ColRes == IlocResolve(cs.key, NC)
RowRes == Resolved(TRUE, cs.rs)
(* the block layout is unobservable: the flat columns of the block-level result are the column-level result *)
RefSelect == [j \in 1..Len(ColRes.ps) |-> [dt |-> At(FlatC, ColRes.ps[j]).dt, vals |-> Take(At(FlatC, ColRes.ps[j]).vals, cs.rs)]]
SelectRefines == (Done /\ cs.op = "select" /\ Unique(ColRes.ps)) => FlatCols(res.blocks, 1) = RefSelect
RefDrop == LET keepc == Without(NC, ColRes.ps)  keepr == Without(NR, cs.rs) IN
           [j \in 1..Len(keepc) |-> [dt |-> At(FlatC, keepc[j]).dt, vals |-> Take(At(FlatC, keepc[j]).vals, keepr)]]
DropRefines == (Done /\ cs.op = "drop" /\ Unique(ColRes.ps)) => FlatCols(res.blocks, 1) = RefDrop
RefMask == [j \in 1..NC |-> [dt |-> DtB, vals |-> [i \in 1..NR |-> B(Member(cs.rs, i - 1) /\ Member(ColRes.ps, j - 1))]]]
MaskRefines == (Done /\ cs.op = "mask") => FlatCols(res.blocks, 1) = RefMask
(* every produced block is well formed *)
BlocksCoherent == Done => \A i \in 1..Len(res.blocks) : /\ Width(res.blocks[i]) >= 1
                                                       /\ \A j \in 1..Width(res.blocks[i]) : Len(res.blocks[i].cols[j]) = Len(res.blocks[1].cols[1])
(* slice_to_ascending_slice covers the same positions, ascending *)
AscendingOK == cs.key[1] = "slice" =>
   LET k == SliceToAscending(cs.key[2], cs.key[3], cs.key[4], NC) IN
   PySlice(k[1], k[2], k[3], NC) = SortedSeq(PySlice(cs.key[2], cs.key[3], cs.key[4], NC))
SourceCoherent == Coherent(TB) /\ Cols(TB) = FlatC
=============================================================================
