INIT Init
NEXT Next
CONSTANT NR = 3
CONSTANT NC = 4
CONSTANT MaxShift = 2
INVARIANT NegRollIsIdentity
CHECK_DEADLOCK FALSE
