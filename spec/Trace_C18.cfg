INIT Init
NEXT Next
POSTCONDITION Post
CHECK_DEADLOCK FALSE
