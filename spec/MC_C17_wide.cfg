SPECIFICATION Spec
CONSTANT N = 5
CONSTANT MP = 2
CONSTANT MaxBuses = 1
CONSTANT Depth = 3
INVARIANT AllBounded
INVARIANT AllFaithful
INVARIANT LruExactUntilError
INVARIANT GetReturnsTheFrame
PROPERTY NoReadAfterMutation
PROPERTY ErrorOnlyIfChanged
CHECK_DEADLOCK FALSE
