INIT Init
NEXT Next
CONSTANT NR = 2
CONSTANT NC = 3
CONSTANT WithBool = TRUE
INVARIANT NAPropagates
INVARIANT SkipnaIgnores
INVARIANT TwoStageSound
CHECK_DEADLOCK FALSE
