------------------------------- MODULE MC_C16 -------------------------------
(* Small scope for delimited round trips (C16): a table of two rows with a string index, one string column whose two     *)
(* cells range over every text of up to MaxLen characters from {a, 1, blank, the delimiter, the quote character}, and an  *)
(* integer column, written with each of three delimiters.  cs is the case, res the import as built of the written lines.  *)
EXTENDS SFDelim
CONSTANTS MaxLen
VARIABLES cs, res
vars == <<cs, res>>
Delims == {",", TAB, "|"}
Alpha(d) == {"a", "1", SP, d, "\""}
Texts(d) == UNION {[1..n -> Alpha(d)] : n \in 0..MaxLen}
S(t) == <<"s", t>>
Table(a, b) == [ix |-> <<<<S(<<"x">>), S(<<"y">>)>>>>, labels |-> <<<<S(<<"s", "1">>)>>, <<S(<<"n">>)>>>>,
                data |-> <<[kind |-> "s", cells |-> <<S(a), S(b)>>], [kind |-> "i", cells |-> <<<<"i", 7>>, <<"i", -20>>>>]>>]
Init == /\ \E d \in Delims : \E a, b \in Texts(d) : cs = [T |-> Table(a, b), cfg |-> [d |-> d, q |-> "\"", filtered |-> TRUE]]
        /\ res = [k |-> "pending"]
Next == res.k = "pending" /\ res' = ImportAsBuilt(FileLines(cs.T, cs.cfg), cs.T, cs.cfg) /\ UNCHANGED cs
Spec == Init /\ [][Next]_vars
(* the csv layer is lossless: reading a written line with the quoting state machine gives back its fields *)
QuotingLossless == \A n \in 1..Len(AllFields(cs.T, cs.cfg)) : FieldsRequired(FileLines(cs.T, cs.cfg)[n], cs.cfg.d, cs.cfg.q) = AllFields(cs.T, cs.cfg)[n]
RequiredRoundTrip == (Specified(cs.T, cs.cfg) /\ ~LossBlankCell(cs.T, cs.cfg) /\ ~LossNumpyUpgrade(cs.T, cs.cfg)) => ImportRequired(FileLines(cs.T, cs.cfg), cs.T, cs.cfg) = Original(cs.T)
AsBuiltRoundTripWhereSafe == (res.k # "pending" /\ Specified(cs.T, cs.cfg) /\ ~KnownLossy(cs.T, cs.cfg)) => res = Original(cs.T)
BlankKept == TRUE
AsBuiltRoundTrip == (res.k # "pending" /\ Specified(cs.T, cs.cfg)) => res = Original(cs.T)            \* negative control
=============================================================================
