------------------------------ MODULE Trace_C18 ------------------------------
(* Trace validation for pooled application (C18): runs on a thread pool are recorded as begin / start / finish / yield /  *)
(* error / end events (start and finish under one lock, yields as the caller receives them); every event must be an        *)
(* enabled SFPool step of the run's own state.  Runs on a process pool (and Batch / store reads and writes with workers)    *)
(* are recorded as begin + yields + end only.  The end event carries the comparison with the sequential form.              *)
EXTENDS SFPool, Json, IOUtils
Trace == ndJsonDeserialize(IOEnv.TRACE_FILE)
VARIABLES l, s, p
ToSetSeq(q) == {q[i] : i \in 1..Len(q)}
Verdict(ev) ==
  CASE ev.kind = "begin" -> "ok"
    [] ev.kind = "start" -> IF CanStart(s, p, ev.i) THEN "ok" ELSE "start_not_enabled"
    [] ev.kind = "finish" -> IF CanFinish(s, ev.i) THEN "ok" ELSE "finish_not_enabled"
    [] ev.kind = "yield" ->
         IF ev.key # NextPos(s) THEN (IF ev.val = F(NextPos(s)) THEN "result_paired_with_wrong_label" ELSE "order")
         ELSE IF ev.val # F(ev.key) THEN "result_paired_with_wrong_label"
         ELSE IF p.traced /\ ~CanYield(s, p) THEN "yield_before_completion"
         ELSE IF NextPos(s) \in p.fails THEN "failure_swallowed"
         ELSE "ok"
    [] ev.kind = "error" -> IF NextPos(s) \in p.fails THEN "ok" ELSE "spurious_error"
    [] ev.kind = "end" ->
         IF ev.outcome = "ok" /\ p.fails # {} THEN "failure_swallowed"
         ELSE IF ev.outcome = "ok" /\ Len(s.yielded) # p.n /\ ev.streamed THEN "silently_shorter"
         ELSE IF ev.outcome = "ok" /\ ~ev.equal THEN "differs_from_sequential"
         ELSE IF ev.outcome # "ok" /\ p.fails = {} THEN "spurious_error"
         ELSE "ok"
Step(ev) ==
  CASE ev.kind = "begin" -> CallMap(S0, [n |-> ev.n, w |-> ev.w, c |-> ev.c, fails |-> ToSetSeq(ev.fails), eager |-> TRUE])
    [] ev.kind = "start" -> IF CanStart(s, p, ev.i) THEN DoStart(s, ev.i) ELSE s
    [] ev.kind = "finish" -> IF ev.i \in 1..Len(s.state) THEN DoFinish(s, ev.i) ELSE s
    [] ev.kind = "yield" -> [s EXCEPT !.yielded = Append(@, <<ev.key, ev.val>>)]
    [] OTHER -> s
Init == l = 1 /\ s = S0 /\ p = [n |-> 0, w |-> 1, c |-> 1, fails |-> {}, eager |-> TRUE, traced |-> FALSE]
Next == /\ l <= Len(Trace)
        /\ l' = l + 1
        /\ s' = Step(Trace[l])
        /\ p' = IF Trace[l].kind = "begin" THEN [n |-> Trace[l].n, w |-> Trace[l].w, c |-> Trace[l].c, fails |-> ToSetSeq(Trace[l].fails), eager |-> TRUE, traced |-> Trace[l].traced] ELSE p
        /\ LET v == Verdict(Trace[l]) IN v = "ok" \/ PrintT(<<"VERDICT", Trace[l].id, v, <<NextPos(s), s.state>>>>)
Post == PrintT(<<"DONE", TLCGet("stats").diameter - 1>>)
=============================================================================
