------------------------------- MODULE MC_C13 -------------------------------
(* Small-scope instance for grouping and windows (C13).                                                         *)
EXTENDS SFGroup
CONSTANTS N
VARIABLES cs, res
vars == <<cs, res>>
KV == {<<"i", 0>>, <<"i", 1>>, <<"s", "x">>}
Pending == [k |-> "pending"]
Lab == [i \in 1..N |-> <<"s", <<"a", "b", "c", "d", "e">>[i]>>]
Init == /\ \/ \E k1 \in [1..N -> {<<"i", 0>>, <<"i", 1>>, <<"i", 2>>}], k2 \in [1..N -> {<<"i", 0>>, <<"i", 1>>}], two \in BOOLEAN :
                 cs = [op |-> "group", keys |-> [i \in 1..N |-> IF two THEN <<k1[i], k2[i]>> ELSE <<k1[i]>>]]
           \/ \E n \in 0..N, size \in 1..3, step \in 1..3, ss \in -2..2, ls \in -2..2, inc \in -1..1, ws \in BOOLEAN :
                 cs = [op |-> "window", n |-> n, size |-> size, step |-> step, start_shift |-> ss, label_shift |-> ls, size_increment |-> inc, window_sized |-> ws]
        /\ res = Pending
Call == /\ res.k = "pending"
        /\ res' = IF cs.op = "group" THEN [k |-> "groups", groups |-> GroupSortSlice(cs.keys)]
                  ELSE [k |-> "windows", windows |-> Windows(cs.n, cs.size, cs.step, cs.start_shift, cs.label_shift, cs.size_increment, cs.window_sized)]
        /\ UNCHANGED cs
Next == Call
Spec == Init /\ [][Next]_vars
Done == res.k # "pending"
GroupsArePartition == (Done /\ cs.op = "group") => IsPartition(cs.keys, res.groups)
RoutesAgree == (cs.op = "group") => GroupSortSlice(cs.keys) = GroupUniqueMask(cs.keys)
WindowLoopMeetsDeclaration ==
  (Done /\ cs.op = "window" /\ cs.size_increment = 0) =>
     res.windows = WindowsDeclared(cs.n, cs.size, cs.step, cs.start_shift, cs.label_shift, cs.window_sized)
WindowsContiguousInRange ==
  (Done /\ cs.op = "window") => \A i \in 1..Len(res.windows) : LET w == res.windows[i] IN 0 <= w.lo /\ w.lo <= w.hi /\ w.hi <= cs.n /\ w.label >= 0 /\ w.label < cs.n
=============================================================================
