--------------------------------- MODULE SFBus ---------------------------------
(* Bus over a multi-table store (C17): lazy loading, the max_persist bound with least-recently-used eviction, derived    *)
(* Buses sharing the store, and the stale-file rule.  Written at the grain of bus.py / store.py:                          *)
(*   file   = [exists, mtime, ver]     the backing file: modification time and content version (1 = as written)          *)
(*   seen   = the mtime the Store recorded when it was opened (Store._last_modified)                                       *)
(*   bus    = [labels |-> Seq(label), held |-> [label -> 0 | version], lru |-> Seq(label), mp |-> 0 (unlimited) | n]       *)
(*            held[l] = 0: FrameDeferred placeholder; lru = Bus._last_accessed, least recently used first                  *)
(* Eff(...) is the effect of one public call as a function so that the trace specification can apply it to logged states.  *)
EXTENDS Integers, Sequences, FiniteSets, SequencesExt, TLC
ToS(s) == {s[i] : i \in 1..Len(s)}
Touch(lru, l) == SelectSeq(lru, LAMBDA x : x # l) \o <<l>>                 \* dict.pop + reinsert: move to most recent
Active(b) == b.mp # 0
LoadedSet(b) == {l \in ToS(b.labels) : b.held[l] # 0}
Coherent(file, seen) == file.exists /\ file.mtime = seen                     \* Store._mtime_coherent
FirstDeferred(b, sel) == IF \E k \in 1..Len(sel) : b.held[sel[k]] = 0 THEN CHOOSE k \in 1..Len(sel) : b.held[sel[k]] = 0 /\ \A j \in 1..(k - 1) : b.held[sel[j]] # 0 ELSE 0

(* Bus._update_series_cache_iloc for the selected labels sel (in selection order), on a coherent store *)
RECURSIVE Walk(_, _, _, _, _)
Walk(b, sel, k, count, ver) ==
  IF k > Len(sel) THEN b
  ELSE LET l == sel[k]
           b1 == IF Active(b) THEN [b EXCEPT !.lru = Touch(@, l)] ELSE b
           fresh == b1.held[l] = 0                     \* deferred at the start, or evicted earlier in this very call
           b2 == IF fresh THEN [b1 EXCEPT !.held[l] = ver] ELSE b1
           c2 == IF fresh THEN count + 1 ELSE count
           over == Active(b) /\ c2 > b.mp
           b3 == IF over THEN [b2 EXCEPT !.held[Head(b2.lru)] = 0, !.lru = Tail(b2.lru)] ELSE b2
       IN Walk(b3, sel, k + 1, IF over THEN c2 - 1 ELSE c2, ver)
(* one cache update: [bus, outcome, reads] *)
Update(b, sel, file, seen) ==
  LET fd == FirstDeferred(b, sel) IN
  IF fd = 0 THEN                          \* everything selected is loaded: only the recency order moves
       [bus |-> IF Active(b) THEN [b EXCEPT !.lru = FoldLeft(Touch, @, sel)] ELSE b, outcome |-> "ok", reads |-> 0]
  ELSE IF ~Coherent(file, seen) THEN      \* the first read from the store raises; labels up to and including the first deferred one were already touched
       [bus |-> IF Active(b) THEN [b EXCEPT !.lru = FoldLeft(Touch, @, SubSeq(sel, 1, fd))] ELSE b, outcome |-> "store_mutation", reads |-> 0]
  ELSE [bus |-> Walk(b, sel, 1, Cardinality(LoadedSet(b)), file.ver), outcome |-> "ok",
        reads |-> Cardinality({k \in 1..Len(sel) : b.held[sel[k]] = 0})]
(* the Bus handed back by a multi-label selection: the selected labels with whatever is still loaded after the update *)
SubBus(b, sel) == [labels |-> sel, held |-> [l \in DOMAIN b.held |-> IF l \in ToS(sel) THEN b.held[l] ELSE 0],
                   lru |-> IF Active(b) THEN SelectSeq(sel, LAMBDA l : b.held[l] # 0) ELSE <<>>, mp |-> b.mp]
(* derivations that do not touch the cache (drop, reindex to a permutation / subset, sort_index, roll, rename) *)
Reorder(b, labels) == SubBus(b, labels)

(* Bus.values / items() / sort_values under a bound: one label at a time, each a single-label update; stops at the first error *)
RECURSIVE UpdateEach(_, _, _, _, _)
UpdateEach(b, labels, k, file, seen) ==
  IF k > Len(labels) THEN [bus |-> b, outcome |-> "ok", reads |-> 0]
  ELSE LET u == Update(b, <<labels[k]>>, file, seen) IN
       IF u.outcome # "ok" THEN u ELSE UpdateEach(u.bus, labels, k + 1, file, seen)
LoadAll(b, file, seen) == IF Active(b) THEN UpdateEach(b, b.labels, 1, file, seen) ELSE Update(b, b.labels, file, seen)

(* ---- the statements ------------------------------------------------------------------------------------------------------ *)
Bounded(b) == Active(b) => Cardinality(LoadedSet(b)) <= b.mp
LruExact(b) == Active(b) => (ToS(b.lru) = LoadedSet(b) /\ Len(b.lru) = Cardinality(LoadedSet(b)))
Faithful(b) == \A l \in ToS(b.labels) : b.held[l] \in {0, 1}          \* whatever is held is what was written: nothing is ever loaded from a changed file
=============================================================================
