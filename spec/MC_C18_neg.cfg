SPECIFICATION Spec
CONSTANT N = 3
CONSTANT W = 2
CONSTANT C = 1
CONSTANT Fails = {}
CONSTANT Eager = FALSE
INVARIANT InvPaired
INVARIANT InvComplete
INVARIANT InvError
INVARIANT InvNoLater
PROPERTY Terminates
CHECK_DEADLOCK FALSE
