import json, subprocess, re, os
d = json.load(open('/verif/known_findings.json'))
log = subprocess.check_output(['git','-C','/repo','log','--reverse','--format=%h\t%s','9b03c97..HEAD']).decode().strip().splitlines()
fixed = {}
for f in d['fixed']:
    m = re.match(r'fixed: property=(\S+) (\S+) (.*)', f)
    fixed[m.group(2)] = (m.group(1), m.group(3))
rows = ['| commit | property | what failed (input / call site) | found by |', '|---|---|---|---|']
FOUND = {'bc0071c':'reading (plan §7 #1); every C05 / C13 / C19 / C20 case', 'c42fa9e':'C10 M+R (symmetry invariant of SFEquals, replay)', 'e5c50ab':'C08 R (Boolean column key cases of MC_C08)',
 'a2dfe1f':'C08 R (descending slices with negative bounds)', 'a8568f0':'C08 R / C03 V (list keys with negative positions)', '0e2139d':'follow-up of a8568f0 (pinned test on out-of-range positions)',
 '5b1b078':'C03 V (layout independence: 1-D vs 2-D single column)', '1914f30':'C14 V (every isin / fillna(Series) raised)', '9eac303':'C14 R / C03 V (fill with limit across block boundaries)',
 '79e6fa8':'C15 R (one-row frames holding a 2-D block)', '3e7486a':'C10 V (reflexivity on Frames without columns)', 'b56cbf4':'C07 V (iterable sites, bytes elements)',
 '97a75d6':'C01 interface sweep (pickle route)', 'cf14fbf':'C09 R (SFGo all-or-nothing on extend)', '9be9762':'C01 interface sweep (__round__)', '440ae54':'C05 R (open-ended innermost slices) and V (grow-only histories)',
 'adb8f64':'C02 V (derivation routes loc / drop.loc with an empty list on IndexDate)', 'd22eecb':'C02 V (lookup of the appended label before any rebuild, auto-integer form)', '91323b6':'C20 V (ragged unstack)',
 '357cde4':'C17 V (route get)', 'd624f2a':'C17 V/R (per-label StoreConfigMap, max_persist=1, multi-label selection)', 'fcd6657':'C17 V (route sort_values under a bound)', 'b97f7f8':'C16 V (items route with hierarchical columns)', '45abe28':'C17 V Bus twin sweep (iter_element / iter_element_items / apply on a lazily loaded Bus), first run', '0e09e0f':'C02 V twin sweep (every iter_label call on a grown IndexGO), first run', 'ba40eaf':'a seeding sub-agent (aside); then grow-only sources in the axis-1 grouping family of C13 V', 'e29c57d':'C15 V (all-int8 family: every sum / prod down the columns of a multi-block frame); the Boolean half was found in round 1 by MC_C15 replay and listed as a known finding until the repair', 'c8e245a':'C13 V (window routes: every frame_axis1_array event with a negative start_shift)', '5ec7cf6':'a seeding sub-agent (aside); then positional insert keys in C08 V', '024e89d':'a seeding sub-agent (aside); then the auto-leaf family of C05 V', '0bf238c':'a seeding sub-agent (aside); then over-long absent keys in C05 V', '722b007':'a seeding sub-agent (aside); then depth-3 level_drop events of C02 V', '7e6bc6a':'a seeding sub-agent (aside in its notes); then the store-fidelity events of C17 V (unsorted integer index)', 'dc8fcda':'C03 shape family, hierarchical part (Trace_Ops sample)', '8d2a84e':'a seeding sub-agent (aside in its notes); then the caller-array table of C01 V', '8b67db0':'C03 shape family (MC_SHAPE replay + Trace_Ops sample), first run', 'f3ebf4f':'C03 shape family (MC_SHAPE replay: every |column shift| >= number of columns), first run', '1922442':'probing while writing SFShape; then the V sample of the shape family', '8385cda':'C14 R / V, C06 V, C19 V (zero-column operands); repaired late together with 90f1a79', '90f1a79':'C04 R / C08 R (every case with an empty column selection and a row subset); repaired late, after the zero-blocks shape reference was read', '54ee292':'a seeding sub-agent studying C06 (then two merge sites of C07)', '8ae44bc':'C09 R under seeds 11 and 14 of the multi-seed sweep (history: unsized append on the columns of an empty FrameGO)'}
for ln in log:
    h, subj = ln.split('\t', 1)
    prop, what = fixed.get(h, ('?', subj))
    rows.append('| `%s` | %s | %s | %s |' % (h, prop, what.replace('|', '\\|'), FOUND.get(h, '')))
fixtable = '\n'.join(rows)
rows = ['| id | property | what fails |', '|---|---|---|']
for k in d['known']:
    rows.append('| `%s` | %s | %s |' % (k['id'], k['property'], k['what'].replace('|', '\\|')))
knowntable = '\n'.join(rows)
# seed table from meta.json + matrix log
import glob, os
matrix = {}
cur = None
import itertools
for ln in open('/verif/seeded/matrix_quick.log'):
    ln = ln.strip()
    if ln.startswith('== '):
        cur = ln[3:]; matrix.setdefault(cur, {})
    m = re.match(r'(C\d\d) rc=(\d) (\d+) violations; *(.*)', ln)
    if m and cur:
        clause = re.findall(r'clause=(\S+)', m.group(4))
        matrix[cur][m.group(1)] = (int(m.group(2)), int(m.group(3)), sorted(set(clause))[:3])
rows = ['| seed | property broken | what is needed for it to show | checks run (quick) → result |', '|---|---|---|---|']
for p in sorted(glob.glob('/verif/seeded/*/meta.json')):
    name = os.path.basename(os.path.dirname(p))
    meta = json.load(open(p))
    res = []
    det = {}
    for chk, (rc, n, cl) in sorted(matrix.get(name, {}).items()):
        if rc == 1:
            res.append('**%s: caught** (%d violations: %s)' % (chk, n, ', '.join(cl)))
            det[chk] = 'quick: %d violations (%s)' % (n, ', '.join(cl))
        elif rc == 0:
            res.append('%s: not caught' % chk)
        else:
            res.append('%s: machinery failure' % chk)
    if det:
        meta['detected_by'] = det
        json.dump(meta, open(p, 'w'), indent=1)
    if not res and meta.get('detected_by'):
        res = ['**%s: caught** (%s)' % (k, v) for k, v in sorted(meta['detected_by'].items())]
    rows.append('| `%s` | %s | %s | %s |' % (name, meta.get('breaks', meta.get('property')), str(meta.get('needs_to_manifest', '')).replace('|', '\\|')[:260], '; '.join(res)))
seedtable = '\n'.join(rows)
part2 = open('/verif/tools/design_part2.md').read().replace('FIXTABLE', fixtable).replace('KNOWNTABLE', knowntable).replace('SEEDTABLE', seedtable)
try:
    cmp_ = open('/verif/seeded/baseline_last.txt').read()
    m = re.search(r'stable: (\d+) passing now: (\d+) not passing: (\d+)', cmp_)
    bad = re.findall(r'\n\s+(\S+::\S+) fail', cmp_)
    runs = re.findall(r'stable: (\d+) passing now: (\d+) not passing: (\d+)', cmp_)
    if len(runs) >= 2 and 'two full runs' in cmp_:
        base = 'two full runs on the final HEAD: %s of the %s `stable_pass` tests of `/root/.vp/BASELINE.json` pass in one, %s in the other (not passing there: %s - a hypothesis property test that passed 3 of 3 when re-run alone on the same tree)' % (
            runs[0][1], runs[0][0], runs[1][1], ', '.join('`%s`' % b for b in bad))
    else:
        base = '%s of the %s `stable_pass` tests of `/root/.vp/BASELINE.json` pass%s' % (m.group(2), m.group(1), ('; not passing: ' + ', '.join('`%s`' % b for b in bad) + ' (hypothesis property tests that are flaky on the pristine tree as well)') if bad else '')
except Exception as e:
    base = 'see tools/baseline_compare.py'
part2 = part2.replace('BASELINERESULT', base)
s = open('/verif/DESIGN.md').read()
marker = '## Appendix A'
if '## 11. As built' in s:
    a = s.index('## 11. As built'); b = s.index(marker)
    s = s[:a] + part2 + '\n---------------------------------------------------------------------------------------------------\n\n' + s[b:]
else:
    b = s.index(marker)
    s = s[:b] + part2 + '\n---------------------------------------------------------------------------------------------------\n\n' + s[b:]
s = s.replace("(nothing from those probes is committed).  No framework code exists yet; this is the plan the code\nwill follow.  Section 7 lists what the reading and probing already turned up on the current tree.",
 "(nothing from those probes is committed).  Sections 1-10 and the appendices are the plan as written\nbefore any framework code existed; **sections 11-16 are the as-built report** (what exists, the repairs made in /repo,\nthe known findings, the false alarms corrected, the seeded changes and which checks catch them, the limits).\nWhere plan and report disagree, the report is right.")
s = s.replace("* §5 hooks and repository changes.  §6 self-validation", "* §11-§16 **as built**: inventory and deviations, per-property notes, fix commits, known findings and false\n  alarms, seeded changes vs checks, limits and the state of the pinned suite.\n* §5 hooks and repository changes.  §6 self-validation")
open('/verif/DESIGN.md', 'w').write(s)
print('assembled', len(s.splitlines()))
