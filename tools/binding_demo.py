#!/venv/bin/python
'''Binding demonstration: for several trace specifications, record real events, show that TLC accepts them, then
corrupt ONE recorded field (or drop ONE event) and show that the trace specification rejects exactly that event and names the clause.
A specification that nothing binds to the code would accept the corrupted traces too.

    PYTHONPATH=/verif/harness:/repo /venv/bin/python -W ignore /verif/tools/binding_demo.py
exit 0: every pristine trace accepted and every corruption rejected; exit 1 otherwise.'''
import copy
import os
import random
import shutil
import sys

sys.path.insert(0, os.path.join(os.path.dirname(os.path.abspath(__file__)), '..', 'harness'))
from sfverif import core, tlc  # noqa: E402
from sfverif.props import c02, c16, c17, c18, c20  # noqa: E402

FAILED = []


def number(events):
    for k, ev in enumerate(events):
        ev['id'] = k
    return events


def expect(name, ctx, module, cfg, events, want_rejected, boundary=None):
    rej = ctx.validate_events(module, cfg, number(events), chunk=100000, boundary=boundary)
    got = {k: v[0] for k, v in rej.items()}
    ok = (set(got) == set(want_rejected)) and all(want_rejected[k] is None or got[k] in want_rejected[k] for k in want_rejected)
    print('%-58s %s   rejected=%s' % (name, 'ok' if ok else 'UNEXPECTED', got))
    if not ok or ctx.machinery_errors:
        FAILED.append(name)


def demo_c17(ctx):
    d = tlc.subdir('demo17')
    events = []
    ctx.rng = random.Random(4)
    while not (any(e['name'] == 'get' and e['outcome'] == 'ok' and e['pre']['held'] != e['post']['held'] for e in events) and any(i >= 1 and e['name'] in ('get', 'select', 'loadall') and e['pre'] != e['post'] and any(x['bus'] == e['bus'] for x in events[i + 1:]) for i, e in enumerate(events))):
        events = []
        w = os.path.join(d, 'h%d' % ctx.rng.randrange(10 ** 6))
        os.makedirs(w)
        c17.history(ctx, 'zip_pickle', w, events)
        shutil.rmtree(w, ignore_errors=True)
    for ev in events:
        for key in ('pre', 'post', 'new'):
            ev.setdefault(key, {'labels': [], 'held': [], 'lru': [], 'mp': 0})
        ev.setdefault('ok', True)
        ev.setdefault('labels_written', [])
        ev.setdefault('labels_read', [])
        ev.setdefault('equal', [])
    expect('C17 pristine history', ctx, 'Trace_C17', 'Trace_C17.cfg', copy.deepcopy(events), {}, boundary=lambda e: e['start'])
    k = next(i for i, e in enumerate(events) if e['name'] == 'get' and e['outcome'] == 'ok' and e['pre']['held'] != e['post']['held'])
    bad = copy.deepcopy(events)
    lab = bad[k]['sel'][0]
    bad[k]['post']['held'][lab - 1] = 0          # the log claims the Frame was not kept after the load
    want = {k: ['cache_transition', 'max_persist_exceeded']}
    if k + 1 < len(bad) and bad[k + 1]['bus'] == bad[k]['bus'] and bad[k + 1]['name'] != 'roundtrip':
        pass
    rej = ctx.validate_events('Trace_C17', 'Trace_C17.cfg', number(bad), chunk=100000, boundary=lambda e: e['start'])
    ok = k in rej and rej[k][0] in ('cache_transition', 'max_persist_exceeded')
    print('%-58s %s   rejected=%s' % ('C17 one held flag corrupted', 'ok' if ok else 'UNEXPECTED', {i: v[0] for i, v in rej.items()}))
    if not ok:
        FAILED.append('C17 corrupted')
    # drop one state-changing event from the middle of the history: the next call on that Bus no longer starts where the specification is
    ks = [i for i, e in enumerate(events) if i >= 1 and e['name'] in ('get', 'select', 'loadall') and e['pre'] != e['post'] and any(x['bus'] == e['bus'] and x['name'] != 'roundtrip' for x in events[i + 1:])]
    if ks:
        kd = ks[0]
        dropped = copy.deepcopy(events[:kd] + events[kd + 1:])
        rej = ctx.validate_events('Trace_C17', 'Trace_C17.cfg', number(dropped), chunk=100000, boundary=lambda e: e['start'])
        ok = any(v[0] == 'bus_changed_between_calls' for v in rej.values())
        print('%-58s %s   rejected=%s' % ('C17 one event dropped', 'ok' if ok else 'UNEXPECTED', {i: v[0] for i, v in rej.items()}))
        if not ok:
            FAILED.append('C17 dropped')
    else:
        print('%-58s %s' % ('C17 one event dropped', 'skipped (no droppable event in this history)'))


def pad18(run):
    for ev in run:
        for key, dflt in (('i', 0), ('key', 0), ('val', 0), ('n', 0), ('w', 1), ('c', 1), ('fails', []), ('traced', False), ('outcome', ''), ('equal', True), ('streamed', True)):
            ev.setdefault(key, dflt)
    return run


def demo_c18(ctx):
    run = pad18(c18.traced_run(5, 2, {i: (6 - i) * c18.UNIT for i in range(1, 6)}, []))
    expect('C18 pristine thread-pool run', ctx, 'Trace_C18', 'Trace_C18.cfg', copy.deepcopy(run), {}, boundary=lambda e: e['kind'] == 'begin')
    bad = copy.deepcopy(run)
    ys = [i for i, e in enumerate(bad) if e['kind'] == 'yield']
    bad[ys[1]]['key'], bad[ys[2]]['key'] = bad[ys[2]]['key'], bad[ys[1]]['key']          # two results handed out under each other's label
    rej = ctx.validate_events('Trace_C18', 'Trace_C18.cfg', number(bad), chunk=100000, boundary=lambda e: e['kind'] == 'begin')
    ok = ys[1] in rej
    print('%-58s %s   rejected=%s' % ('C18 two yielded labels swapped', 'ok' if ok else 'UNEXPECTED', {i: v[0] for i, v in rej.items()}))
    if not ok:
        FAILED.append('C18 swapped')
    bad = [e for e in copy.deepcopy(run) if not (e['kind'] == 'finish' and e['i'] == 1)]              # the log lost the completion of task 1
    rej = ctx.validate_events('Trace_C18', 'Trace_C18.cfg', number(bad), chunk=100000, boundary=lambda e: e['kind'] == 'begin')
    ok = any(v[0] in ('yield_before_completion', 'start_not_enabled') for v in rej.values())
    print('%-58s %s   rejected=%s' % ('C18 one finish event dropped', 'ok' if ok else 'UNEXPECTED', {i: v[0] for i, v in rej.items()}))
    if not ok:
        FAILED.append('C18 dropped')


def demo_c02(ctx):
    rng = random.Random(7)
    events = []
    while not any(e['kind'] == 'grow' and e['outcome'] == 'ok' for e in events):
        events = c02.go_history(rng, 0)
    expect('C02 pristine grow-only history', ctx, 'Trace_C02', 'Trace.cfg', copy.deepcopy(events), {})
    k = next(i for i, e in enumerate(events) if e['kind'] == 'grow' and e['outcome'] == 'ok')
    bad = copy.deepcopy(events)
    bad[k]['obs']['lookup'][-1] -= 1          # the appended label is reported at the wrong position
    expect('C02 one lookup result corrupted', ctx, 'Trace_C02', 'Trace.cfg', bad, {k: ['label_to_position']})
    bad = copy.deepcopy(events)
    bad[k]['post']['recache'] = not bad[k]['post']['recache']
    expect('C02 recache flag corrupted', ctx, 'Trace_C02', 'Trace.cfg', bad, {k: ['append_transition']})


def demo_c20(ctx):
    rng = random.Random(3)
    while True:
        cs = c20.gen_pivot(rng)
        res = c20.run_case(cs, None, rng)
        if res.get('k') == 'pivot' and res['cells'] and res['cells'][0][0][0] == 'i':
            break
    ev = {'cs': cs, 'res': res}
    rej = ctx.validate_events('Trace_C20', 'Trace.cfg', number([copy.deepcopy(ev)]), chunk=100000)
    base = set(rej)          # a known finding may already reject it
    bad = copy.deepcopy(ev)
    bad['res']['cells'][0][0] = ['i', bad['res']['cells'][0][0][1] + 1]
    rej = ctx.validate_events('Trace_C20', 'Trace.cfg', number([bad]), chunk=100000)
    ok = 0 in rej and rej[0][0] == 'pivot_cells'
    print('%-58s %s   pristine rejected=%s corrupted=%s' % ('C20 one pivot cell corrupted', 'ok' if ok else 'UNEXPECTED', sorted(base), {i: v[0] for i, v in rej.items()}))
    if not ok:
        FAILED.append('C20')


def demo_c16(ctx):
    S = lambda t: ['s', list(t)]
    T = {'ix': [[S('x'), S('y')]], 'labels': [[S('a')], [S('b')]],
         'data': [{'kind': 'i', 'cells': [['i', 7], ['i', -20]]}, {'kind': 's', 'cells': [S('p,q'), S('r "s"')]}]}
    cfg = {'d': ',', 'q': '"', 'filtered': True}
    lines, res = c16.run_delimited(T, cfg)
    ev = c16.pad({'kind': 'delimited', 'T': T, 'cfg': cfg, 'lines': lines, 'res': res})
    rej = ctx.validate_events('Trace_C16', 'Trace.cfg', number([copy.deepcopy(ev)]), chunk=100000)
    if rej:
        FAILED.append('C16 pristine')
    print('%-58s %s' % ('C16 pristine round trip', 'ok'))
    bad = copy.deepcopy(ev)
    bad['lines'][-1] = bad['lines'][-1] + [' ']            # one character of the recorded file differs
    expect('C16 one character of the file corrupted', ctx, 'Trace_C16', 'Trace.cfg', [bad], {0: ['file_text']})
    bad = copy.deepcopy(ev)
    col = next(c for c in bad['res']['data'] if c['kind'] == 'int')
    col['cells'][0] = ['i', col['cells'][0][1] + 1]
    expect('C16 one cell read back corrupted', ctx, 'Trace_C16', 'Trace.cfg', [bad], {0: ['import_differs_from_model']})


def main():
    ctx = core.Ctx('DEMO', 'quick', 1)
    ctx.log = lambda *a: None
    for fn in (demo_c17, demo_c18, demo_c02, demo_c20, demo_c16):
        try:
            fn(ctx)
        except Exception as e:  # the demonstration itself broke
            import traceback
            traceback.print_exc()
            FAILED.append(fn.__name__)
    if ctx.machinery_errors:
        print('machinery errors:', ctx.machinery_errors[:2])
        FAILED.append('machinery')
    print('BINDING DEMO', 'FAILED: %s' % FAILED if FAILED else 'passed')
    return 1 if FAILED else 0


if __name__ == '__main__':
    sys.exit(main())
