#!/usr/bin/env python3
'''Compare a junit xml of the pinned suite with the stable_pass list of /root/.vp/BASELINE.json.'''
import json, sys
import xml.etree.ElementTree as ET
b = json.load(open('/root/.vp/BASELINE.json'))
stable = set(b['stable_pass'])
t = ET.parse(sys.argv[1])
status = {}
for tc in t.iter('testcase'):
    cid = '%s::%s' % (tc.get('classname'), tc.get('name'))
    bad = any(ch.tag in ('failure', 'error') for ch in tc)
    skipped = any(ch.tag == 'skipped' for ch in tc)
    status[cid] = 'fail' if bad else ('skip' if skipped else 'pass')
missing = [s for s in stable if status.get(s) != 'pass']
print('stable:', len(stable), 'passing now:', len(stable) - len(missing), 'not passing:', len(missing))
for m in sorted(missing)[:40]:
    print('  ', m, status.get(m))
print('sample ids:', list(status)[:2])
sys.exit(1 if missing else 0)
