#!/usr/bin/env python3
'''Regenerates MANIFEST.json from the table below (one entry per claimed property).'''
import json, os
HERE = os.path.dirname(os.path.dirname(os.path.abspath(__file__)))
BASE = 'cd /repo && /venv/bin/python -m pytest -ra -q -p no:cacheprovider --timeout=900 --continue-on-collection-errors --junitxml=/tmp/sf-baseline.junit.xml'

CLAIMED = {
 'C03': dict(
   text='TLC checks that the block-walking algorithms of TypeBlocks transcribed in SFBlocks (key -> block slices with contiguity bundling, descending-slice normalisation, slice/drop/mask loops) refine the column-level model for EVERY admissible block layout and every column key of a small scope (MC_C03: 187k states quick); every TLC state is replayed on a real Frame built with exactly that layout; TLC (Trace_C03) then decides, on recorded events, that each of ~100 public operations and the C04/C08 selection/update families give equal results on up to 6 layouts of the same logical Frame, and that all read routes coincide with the ground-truth columns.',
   ref='DESIGN.md section 4 (C03)', note='Trusted: TLC, the projection, NumPy. Exhaustive only for the transcribed algorithms inside MC_C03 bounds (3 columns quick, 4 thorough); the interface sweep is a sample.',
   technique='TLA+ refinement check (SFBlocks refines SFFrame) with TLC; state dump replayed into the code; cross-layout traces validated by a TLC trace spec'),
 'C04': dict(
   text='TLC checks the selection semantics (SFFrame: positional keys via Python-exact slices, label keys, stop-inclusive label slices, dimensionality rule) on every key of a small scope (MC_C04) and shows that the as-built slice translation meets the required meaning; every TLC-enumerated case is replayed on the real Frame/Series for every block layout, and seeded random frames/keys (incl. real auto-integer indices) recorded from the real code are validated by TLC (Trace_Ops). Datetime-typed indices: SFDate states selection by period (a key of the index unit names one label, a coarser key every label in the period, slices from the first label of the start period through the last of the stop period); MC_C04D checks the transcribed LocMap slice arithmetic against it on every ascending date index of a small calendar (negative control: unordered indices), and selections recorded through IndexDate / IndexYearMonth (static, grow-only, grow-only with an append pending in the caches) with string / date / datetime64 keys on the index, Series and both Frame axes are validated by TLC (Trace_C04D).',
   ref='DESIGN.md section 4 (C04)', note='Trusted: TLC, the projection (sfverif.project), NumPy. Exhaustive only inside MC_C04 bounds (3x3 quick / 4x4 thorough); beyond that the evidence is the validated sample.',
   technique='TLA+ spec SFFrame/SFSeq + TLC model checking; TLC state dump replayed into the code; recorded calls validated by a TLC trace spec'),
 'C08': dict(
   text='TLC checks the functional-update semantics (SFUpdate: assign with element / label-aligned Series / Frame values, assign.bloc, drop, mask, astype, relabel, rename, insert) against the declarative statements OnlyAddressed / ElementStored / DropExact / MaskExact on every key x value shape of a small scope (MC_C08); every enumerated case is replayed on the real Frame/Series on block layouts with the source re-projected after the call, and seeded random calls recorded from the real code are validated by TLC (Trace_Ops).',
   ref='DESIGN.md section 4 (C08)', note='Trusted: TLC, the projection, NumPy. Error classes are not observables of C08. Frame-valued assignment is compared dtype-free (layout-dependent dtype is recorded under C03).',
   technique='TLA+ spec SFUpdate + TLC model checking; TLC state dump replayed into the code; recorded calls validated by a TLC trace spec'),
 'C14': dict(
   text='TLC checks, for EVERY missing pattern of a row of N cells, every partition of the row into blocks, both directions and every limit, that the block-carried directional fill (one bridging value / count / flag per row, SFNA.BlockRowFill) equals the declarative per-cell definition, and that ValidUntouched / LimitRespected / SidedOnlyEdge / CountExact / DropnaExact hold (MC_C14, 118k states quick); every enumerated case is replayed on a real Frame with exactly that block partition; seeded random frames (incl. wide multi-run rows) recorded from the real code are validated by TLC.',
   ref='DESIGN.md section 4 (C14)', note='Trusted: TLC, the projection, NumPy. Axis-1 results are compared dtype-free and with one missing marker (layout-dependent dtype is recorded under C03). Exhaustive only inside MC_C14 bounds.',
   technique='TLA+ spec SFNA (declarative + block-carried fill) model checked with TLC; state dump replayed into the code; recorded calls validated by a TLC trace spec'),
 'C15': dict(
   text='TLC checks the reduction semantics over exact rationals (SFReduce: sum/prod/min/max/mean/median/var/all/any, cumulative and arg functions, skipna propagation) on every 2x2 (thorough 2x3) Frame over {0,1,2,1/2,NaN}, proves that the block-wise two-stage evaluation along axis 1 is sound exactly for the functions the code flags composable (negative control: it fails for mean), and every enumerated call is replayed on the real Frame on every block layout; recorded random calls carry the Frame result AND the per-column/per-row Series results of the real code, and TLC (Trace_C15) checks Independent plus agreement with the rational specification.',
   ref='DESIGN.md section 4 (C15)', note='Floats are mapped to the rational with denominator <= 10**4 they approximate; rounding is out of scope. Object/string/datetime columns are covered by the Independent check only (broad known finding).',
   technique='TLA+ spec SFReduce (exact rationals) model checked with TLC; state dump replayed into the code; recorded calls validated by a TLC trace spec'),
 'C12': dict(
   text='TLC checks on every key sequence of a small scope that the rank-based stable argsort meets the declarative statement (permutation, keys non-decreasing, ties in input order; descending = exact reverse) and that the as-built multi-key route (successive stable sorts, last key first = np.lexsort with reversed keys) equals the lexicographic stable sort (MC_C12); every enumerated sort is replayed on the real containers on every layout; tie-heavy Series/Frames of up to 150 rows (flat and hierarchical labels, 1-3 keys, both axes) are sorted by the real code and TLC (Trace_C12) evaluates the declarative statement on each recorded (keys, permutation, result).',
   ref='DESIGN.md section 4 (C12)', note='String keys are ordered through a fixed table of the generator alphabet (TLC has no string order). Key functions are not modelled.',
   technique='TLA+ spec SFSort model checked with TLC; state dump replayed into the code; recorded sorts validated by a TLC trace spec'),
 'C13': dict(
   text='TLC checks that the transcribed window loop of axis_window_items yields exactly the declared anchors and contiguous slices for every parameter combination of a small scope, and that the two grouping routes of the code (stable sort + cut at key transitions; unique keys + masks) agree and produce a partition with constant, distinct keys and original order (MC_C13); every enumerated case is replayed on the real iterators; recorded groupings (by values, 1-2 columns, label depth, both axes, object keys, with apply) and window iterations of random containers are validated by TLC (Trace_C13): IsPartition, group content = source taken at the members, apply labelled by key, windows = loop.',
   ref='DESIGN.md section 4 (C13)', note='NaN keys are outside the claim. The name carried by a group and the numeric class of a consolidated multi-column key (1 vs 1.0) are not observables.',
   technique='TLA+ spec SFGroup model checked with TLC; state dump replayed into the code; recorded iterations validated by a TLC trace spec'),
 'C06': dict(
   text='TLC checks on every ordered pair of label sequences of a small scope that the reference route (union, re-index both operands, element-wise operator) meets the declarative label->value statement and that permuting either operand leaves the result map unchanged (MC_C06); every enumerated case is replayed on real Series; recorded index set operations and Series/Frame/Frame-Series/scalar operators (overlapping, disjoint, permuted, equal, empty label sets; str/int/mixed/tuple/date labels; square frames sharing one label pool on both axes; all layouts) are validated by TLC against SetOpOK / SeriesOpOK / FrameOpOK / FrameSeriesOpOK / ScalarOpOK (Trace_C06).',
   ref='DESIGN.md section 4 (C06)', note='Values are compared as exact rationals / Booleans; the order of a union is chosen by the implementation except for equal operands.',
   technique='TLA+ spec SFAlign model checked with TLC; state dump replayed into the code; recorded operations validated by a TLC trace spec'),
 'C10': dict(
   text='TLC checks on all pairs and thirds of a small scope that the content predicate (SFEquals) is reflexive, symmetric and transitive and that the as-built block comparison (== plus the both-missing mask) refines it; the negative control with the left mask combined with itself (the defect repaired on this tree) violates symmetry (MC_C10); every enumerated pair is replayed as Series and as Frame in both directions; families of single-point mutants of random containers (cell, label, dtype, name, class, NaN/None, shape, layout) are compared by the real code and TLC (Trace_C10) checks the recorded equals matrix (reflexive, symmetric, transitive, = predicate under the options) and, for HE variants, ==, !=, hash and set behaviour.',
   ref='DESIGN.md section 4 (C10)', note='a.equals(a) is True by identity even with NaN and skipna=False: the diagonal is only required to be True. Bus and IndexHierarchy equals are covered through Frames with hierarchical labels only.',
   technique='TLA+ spec SFEquals model checked with TLC; state dump replayed into the code; recorded comparison matrices validated by a TLC trace spec'),
 'C11': dict(
   text='TLC checks that the dictionary-style reference concatenation meets the declarative statement (concat-axis labels = inputs labels in input order; aligned axis = union / intersection; each cell is the cell of the input that owns its row, fill where that input lacks the label), conserves cells and rejects duplicate concat labels, for every choice of aligned labels of a small scope (MC_C11); every enumerated case is replayed on real Frames on random layouts; recorded random from_concat / from_concat_items / Series.from_concat / from_overlay calls (1-4 inputs, overlapping / permuted / equal labels, fill values, auto index, generator inputs, both axes, all vstack strategies through random layouts) are validated by TLC (Trace_C11).',
   ref='DESIGN.md section 4 (C11)', note='Values and labels are compared numerically (an empty float64 input index turns int labels into equal floats).',
   technique='TLA+ spec SFConcat model checked with TLC; state dump replayed into the code; recorded results validated by a TLC trace spec'),
 'C07': dict(
   text='TLC checks NoLoss on the whole dtype-resolution table (SFCoerce.Resolve over 24 dtype tokens, every ordered pair, symbolic element classes with their representability written out): the resolved dtype holds every natural element of both operands except in the cells named KnownLossy, and a strict instance without the exception fails (negative control = the int64/uint64-with-float design decision); the table is replayed against util.resolve_dtype and np.result_type; 19 merge sites (concat, reindex/shift fill, assign element/array, fillna, overlay, insert, from_records, iterables, row consolidation, IndexGO.append, FrameGO growth ...) are executed on dtype pairs x 15 element values and TLC (Trace_C07) judges every recorded merge: each stored element is the supplied one (SameElement), the result dtype is the resolution, untouched columns keep their dtype.',
   ref='DESIGN.md section 4 (C07)', note='Instants and durations are compared unit-free; a rejected merge (exception) stores nothing and is not a coercion. str with bytes is outside the claim.',
   technique='TLA+ spec SFCoerce model checked with TLC; resolution table replayed against the code; recorded merges validated by a TLC trace spec'),
 'C09': dict(
   text='TLC checks the heap model SFGo (objects with identity, growth calls append / extend with valid, duplicate, partially duplicate and mis-sized arguments, 28 derivation routes) exhaustively for small constants with the action properties AppendOnly, AllOrNothing and Isolation and the invariant NoDuplicates; the as-built variant (extend stops at the first duplicate) is kept as negative control and violates AllOrNothing; TLC simulation behaviours are replayed step by step on real FrameGO / IndexGO and derived containers, and seeded random histories recorded from the real code are validated line by line by Trace_Go (effect of the call = logged state, plus the step-wise properties evaluated on the logged states); after EVERY step EVERY live object is projected: labels, labels and data in step, every column readable, membership and lookup of every universe label (present and absent), read-only flags.',
   ref='DESIGN.md section 4 (C09)', note='IndexHierarchyGO growth is covered under C05. Zero-column Frames use a reduced route set (operators on them raise, recorded under C06).',
   technique='TLA+ heap model SFGo model checked with TLC (action properties); TLC simulation behaviours replayed into the code; recorded histories validated by a TLC trace spec'),
 'C01': dict(
   text='TLC checks the heap model SFHeap (buffers, arrays with their own writeable flag, containers, caller-held references; construct through immutable_filter, caller writes, obtaining arrays, view / copy derivations) exhaustively for small constants against AllFrozen, NoChange, CallerIsolated and ObtainedFrozen, with FilterBug as negative control; TLC simulation behaviours are replayed on real NumPy arrays and containers over route tables (a write the model refuses must raise, a write it allows must stay invisible), and SFGo behaviours check that static objects derived from grow-only ones never change; the interface sweep calls every public name (incl. operators) of 12 fixtures with an argument table, deep-snapshots every fixture before and after and probes every array reachable from every result; TLC (Trace_Heap) checks NoChange / AllFrozen per recorded call.',
   ref='DESIGN.md section 4 (C01)', note='Trusted: NumPy flags.writeable / shares_memory semantics. Flipping flags.writeable on an owning array is a NumPy operation outside the claim. matmul is excluded from the sweep (NumPy 2.5 segfaults in np.unique on its path).',
   technique='TLA+ heap model SFHeap model checked with TLC; simulation behaviours replayed into the code; recorded interface sweep validated by a TLC trace spec'),
 'C02': dict(
   text='TLC checks the grow-only index at the grain of IndexGO.append (hash map or map-less auto-integer form, promotion rule, deferred rebuild of the cached label array, the rebuild as a separate step) for all append sequences: uniqueness, bijection through the implementation-shaped lookup, cache coherence, append-only (MC_C02, with a negative control that drops the promotion rule). TLC simulation behaviours are driven through a real IndexGO and the private map / recache / label state compared after every step. Recorded events are validated by Trace_C02: construction by 43 routes (flat, auto-integer, datetime; int, str, float, date, tuple, mixed-object, Boolean labels; 30 percent with a duplicate, which must be rejected with the index-initialisation error), 23 derivation routes whose expected labels are computed in TLA+ (selection, drop, roll, sort, relabel, level_add, head / tail, copies, set operations) from static, grow-only and stale-cache sources, hierarchical flat / level_drop / level_add / roll / selection (non-tree results must be rejected), isolation of derived indices from later growth of their source, and grow-only histories (plain, auto-integer, FrameGO columns, date, year-month) whose every append / extend / read must be the SFIndex transition; hierarchical grow-only histories are validated by Trace_C05.',
   ref='DESIGN.md section 4 (C02)', note='NaN labels excluded (as in the property). Lookup of ABSENT labels is decided by C04; here only membership of absent labels and that they do not resolve to a position. Static hierarchical construction / selection is decided by C05 (same SFHier model).',
   technique='TLA+ spec SFIndex (grow-only index state machine + per-route derived labels) model checked with TLC; simulation behaviours replayed into the code; recorded construction / derivation / growth events validated by TLC trace specs'),
 'C05': dict(
   text='TLC checks, for every tree-ordered label set of a small scope and every combination of per-level selectors, that the tree built with per-node offsets iterates to the table rows, that the label -> position walk through the tree (offset accumulation) is the table position, and that the transcribed breadth-first walk of IndexLevel.loc_to_iloc equals the declarative per-level selection and selects exactly the matching tuples (MC_C05); every enumerated selection is replayed through loc_to_iloc / ih.loc / Series / Frame; random trees of depth 2-4 built by 9 construction routes are observed through every view (iteration, 2-D values, per-depth values, length, depth, membership, lookups), random selections incl. innermost masks and grow-only histories (append / extend with cache-materialising reads in between) are recorded and validated by TLC (Trace_C05).',
   ref='DESIGN.md section 4 (C05)', note='Outside the claim (as in the property): selectors matching nothing, outer-depth masks; additionally slice selectors with a bound absent under some parent and list selectors naming a label twice.',
   technique='TLA+ spec SFHier (tree with offsets, BFS walk vs declarative selection) model checked with TLC; state dump replayed into the code; recorded views / selections / growth histories validated by a TLC trace spec'),
}
REASON_TODO = 'not yet built in this round: the specification module for this property is still being written (see DESIGN.md section 9)'
ALL = ['C%02d' % i for i in range(1, 21)]

def main():
    checks = []
    for pid in ALL:
        if pid not in CLAIMED:
            continue
        c = CLAIMED[pid]
        checks.append({
            'property_id': pid,
            'quick_cmd': './check %s --tier quick' % pid,
            'thorough_cmd': './check %s --tier thorough' % pid,
            'evidence_file': '/verif/evidence/%s.json' % pid,
            'replay_cmd_template': './check %s --replay {path}' % pid,
            'engine': 'tlc',
            'level_claimed': {'category': 'model_checking', 'text': c['text'], 'design_ref': c['ref']},
            'level_note': c['note'],
            'technique': c['technique'],
        })
    m = {
        'version': 1,
        'setup_cmd': './setup.sh',
        'hooks': {'guard': 'STATIC_FRAME_VERIF', 'enable': 'no source hook: the harness observes through the public API and wraps Store.read/executor tasks from outside; ./check sets STATIC_FRAME_VERIF=1 and imports static_frame from /repo',
                  'baseline_off_cmd': BASE, 'source_commits': [], 'add_only': True},
        'engines': [{'name': 'tlc', 'path': '/verif/harness/sfverif', 'serves_properties': sorted(CLAIMED),
                     'kind_free_text': 'TLA+ specification in /verif/spec checked by TLC 1.8; Python harness replays TLC state dumps into static-frame and has TLC validate ndjson traces recorded from static-frame'}],
        'checks': checks,
        'notes': 'See DESIGN.md. known_findings.json lists genuine defects recorded rather than repaired and the fix: commits.',
        'not_applicable': [{'property_id': p, 'reason': REASON_TODO} for p in ALL if p not in CLAIMED],
    }
    with open(os.path.join(HERE, 'MANIFEST.json'), 'w') as fh:
        json.dump(m, fh, indent=1)
    print('wrote MANIFEST.json with', len(checks), 'checks')

if __name__ == '__main__':
    main()
