#!/bin/sh
# tools/seed_verify.sh <dir with patch.diff demo.py> <name>: confirm a seeded change in a scratch worktree of /repo HEAD:
# demo passes pristine, fails patched, pinned suite still passes (stable_pass of BASELINE.json). Worktree removed afterwards.
SRC="$1"; NAME="$2"; WT=/tmp/sv/$NAME; OUT=/tmp/sv/$NAME.out
mkdir -p /tmp/sv; rm -rf "$WT"; git -C /repo worktree prune
git -C /repo worktree add -q --detach "$WT" HEAD || exit 2
{
echo "== demo on pristine"; (cd "$WT" && PYTHONPATH="$WT" /venv/bin/python "$SRC/demo.py" 2>&1 | tail -3); echo "exit=$?"
(cd "$WT" && PYTHONPATH="$WT" /venv/bin/python "$SRC/demo.py" >/dev/null 2>&1); echo "pristine_rc=$?"
echo "== apply"; git -C "$WT" apply "$SRC/patch.diff" && echo applied
(cd "$WT" && PYTHONPATH="$WT" /venv/bin/python "$SRC/demo.py" 2>&1 | tail -3)
(cd "$WT" && PYTHONPATH="$WT" /venv/bin/python "$SRC/demo.py" >/dev/null 2>&1); echo "patched_rc=$?"
echo "== suite on patched tree"
(cd "$WT" && HYPOTHESIS_STORAGE_DIRECTORY=/tmp/sv/hyp-$NAME PYTHONPATH="$WT" /venv/bin/python -m pytest -q -p no:cacheprovider --timeout=900 --continue-on-collection-errors --junitxml=/tmp/sv/$NAME.xml -x --maxfail=100000 static_frame/test >/tmp/sv/$NAME.pytest.log 2>&1; tail -1 /tmp/sv/$NAME.pytest.log)
python3 /verif/tools/baseline_compare.py /tmp/sv/$NAME.xml
} > "$OUT" 2>&1
git -C /repo worktree remove --force "$WT"
cat "$OUT" | grep -v conda
