#!/usr/bin/env python3
'''tools/seed_store.py <src dir> <name> <property> <needs> <ran> : copy a confirmed seeded change into /verif/seeded/<name>/.'''
import json, os, shutil, sys
src, name, prop, needs, ran = sys.argv[1:6]
dst = os.path.join('/verif/seeded', name)
os.makedirs(dst, exist_ok=True)
shutil.copy(os.path.join(src, 'patch.diff'), dst)
shutil.copy(os.path.join(src, 'demo.py'), dst)
if os.path.exists(os.path.join(src, 'notes.md')):
    shutil.copy(os.path.join(src, 'notes.md'), dst)
meta = {'property': prop, 'breaks': prop, 'needs_to_manifest': needs, 'confirmed': ran,
        'detected_by': json.loads(sys.argv[6]) if len(sys.argv) > 6 else {}}
json.dump(meta, open(os.path.join(dst, 'meta.json'), 'w'), indent=1)
print('stored', dst)
