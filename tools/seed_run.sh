#!/bin/sh
# tools/seed_run.sh <seed dir> <tier> <PID>... : apply a seeded change to /repo, run the checks, restore /repo.
D="$1"; TIER="$2"; shift 2
cd /repo || exit 2
if ! git diff --quiet; then echo "/repo has uncommitted changes"; exit 2; fi
git apply "$D/patch.diff" || { echo "patch does not apply"; exit 2; }
for P in "$@"; do
  /verif/check $P --tier $TIER > /tmp/seedrun_$P.log 2>&1; rc=$?
  echo "$P rc=$rc $(grep -c '^VIOLATION' /tmp/seedrun_$P.log) violations; $(grep -v conda /tmp/seedrun_$P.log | grep '^  leg' | sort | uniq -c | sort -rn | head -3 | tr '\n' ';' | cut -c1-300)"
done
git -C /repo checkout -- .
git -C /repo status --short | head -3
